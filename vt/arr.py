"""Symbolic arrays (shape-generic) and the NumPy model used by the VC generator.

An ``Arr`` is (shape, fn) with ``shape`` a tuple of integer terms and ``fn`` a
Python function from index terms to an element term (Poly, or Cond for boolean
arrays).  A *masked* array is the result of a boolean/index selection of rows:
its elements are still addressed by the original row index, the mask is an
indicator term, and every reduction over the masked axis weights by it.

Every entry point listed in ``NP_ENTRY_POINTS`` is part of the trusted NumPy
model (DESIGN §2.2/§3) and is cross-checked against real NumPy by the objrun
engine on every run.
"""
from fractions import Fraction
from . import terms as T
from .terms import Poly, Cond, P, C, ZERO, ONE


class NarrowInt(str):
    """dtype tag of an integer array whose element type is the CALLER's integer dtype of unknown width (uint8 pixels,
    int16 samples, ...): compares equal to "int"; arithmetic between such arrays (or with Python ints) is carried out
    in that dtype and may wrap around silently -- an 'intwidth' hazard is emitted where the code does that"""


NINT = NarrowInt("int")


def is_narrow(o):
    return isinstance(o, Arr) and isinstance(o.dtype, NarrowInt)


def floaty(t):
    nm = getattr(t, "name", None) or (t if isinstance(t, str) else getattr(t, "__name__", None))
    return t is float or nm in ("float", "float64", "float32", "double", "f8", "longdouble", "b_float")


def is_int_type(t):
    nm = getattr(t, "name", None) or (t if isinstance(t, str) else getattr(t, "__name__", None))
    return t is int or nm in ("int", "int8", "int16", "int32", "int64", "intp", "uint8", "uint16", "uint32", "uint64", "integer", "i8", "i4")


class ModelError(Exception):
    """construct outside the modelled subset (=> undecided, never a violation)"""


class ShapeError(Exception):
    """the real code would raise a broadcasting / shape error"""


def is_scalar(x):
    return isinstance(x, (Poly, Cond, int, float, Fraction, bool))


DIM_ASSUME = [None]   # hook: callable(a, b) -> True if the current path assumes a == b


def dim_eq(a, b):
    a, b = P(a), P(b)
    if T.equal(a, b):
        return True
    h = DIM_ASSUME[0]
    return bool(h and h(a, b))


def is_one(d):
    return P(d).as_int() == 1


def _memo(fn):
    cache = {}

    def wrapped(*idx):
        try:
            key = tuple(i.key if isinstance(i, Poly) else i for i in idx)
            r = cache.get(key)
            if r is not None:
                return r
        except TypeError:
            return fn(*idx)
        r = fn(*idx)
        if len(cache) > 256:
            cache.clear()
        cache[key] = r
        return r
    wrapped._memo = True
    return wrapped


class Arr:
    __array_priority__ = 1000

    def __init__(self, shape, fn, dtype="real", kind="numpy", mask=None, chunks=None, origin=frozenset()):
        self.origin = frozenset(origin)   # memory regions this array may alias (empty = fresh)
        self.shape = tuple(P(d) for d in shape)
        self.fn = _memo(fn) if fn is not None and not getattr(fn, "_memo", False) else fn
        self.dtype = dtype
        self.kind = kind          # 'numpy' | 'dask'
        self.mask = mask          # None | (axis, maskfn(i)->Poly, fulldim)
        self.chunks = chunks      # None | (nblocks, sizefn(b), offfn(b)) along axis 0

    # -------------------------------------------------------------- basics
    @property
    def ndim(self):
        return len(self.shape)

    @property
    def size(self):
        r = ONE
        for d in self.shape:
            r = r * d
        return r

    @property
    def T(self):
        return self.transpose()

    def __len__(self):
        raise TypeError("use slen()")

    def slen(self):
        if not self.shape:
            raise TypeError("len() of unsized object")
        return self.shape[0]

    def at(self, *idx):
        return self.fn(*[P(i) for i in idx])

    def like(self, shape, fn, dtype=None, mask="same"):
        return Arr(shape, fn, dtype or self.dtype, self.kind,
                   self.mask if mask == "same" else mask)

    def bound(self, axis):
        """summation bound of an axis (full dimension for a masked axis)"""
        if self.mask is not None and self.mask[0] == axis:
            return self.mask[2]
        return self.shape[axis]

    def weight(self, axis, k):
        if self.mask is not None and self.mask[0] == axis:
            return self.mask[1](k)
        return None

    def generic(self, prefix="j"):
        idx = [T.generic_index(d, prefix) for d in self.shape]
        return idx, self.fn(*idx)

    def copy(self):
        return Arr(self.shape, self.fn, self.dtype, self.kind, self.mask, self.chunks)

    def assign_from(self, other):
        """numpy in-place update: this very object (and so every alias of it) now holds other's values"""
        self.fn = other.fn
        self.shape = other.shape
        self.mask = other.mask
        if other.dtype == "real" and self.dtype == "int":
            # storing reals into an integer array truncates them
            f0 = other.fn
            self.fn = _memo(lambda *idx: T.app("trunc", P(f0(*idx))))
        else:
            self.dtype = other.dtype if self.dtype != "int" else self.dtype
        return self

    def view(self):
        return Arr(self.shape, self.fn, self.dtype, self.kind, self.mask, self.chunks, self.origin)

    def astype(self, t, **kw):
        if self.dtype == "bool" and t is not bool and getattr(t, "name", None) not in ("bool", "bool_"):
            # a boolean array as numbers: the indicator of each element
            r = ewise(lambda c: T.mk_ind(C(c)) if isinstance(c, Cond) else (ONE if c is True else (ZERO if c is False else P(c))), self,
                      dtype="real" if floaty(t) else "int")
            r.origin = frozenset()
            return r
        if self.dtype == "real" and is_int_type(t):
            # a float array converted to an integer dtype: every element truncated towards zero
            r = ewise(lambda a: T.app("trunc", P(a), sort="int"), self, dtype="int")
            r.origin = frozenset()
            return r
        r = self.copy()
        r.origin = frozenset()
        if floaty(t):
            r.dtype = "real"
        return r

    def flatten(self):
        r = reshape(self, (-1,))
        r.origin = frozenset()
        return r

    def ravel(self):
        return reshape(self, (-1,))

    # -------------------------------------------------------------- arithmetic
    def __add__(self, o):
        return ewise(lambda a, b: a + b, self, o, arith="add")

    def __radd__(self, o):
        return ewise(lambda a, b: a + b, o, self, arith="add")

    def __sub__(self, o):
        r = ewise(lambda a, b: a - b, self, o, arith="subtract")
        tag = getattr(o, "lse", None)
        if tag and tag[0] == "maxof" and tag[1] is self and isinstance(r, Arr) and (tag[3] or tag[2] == 0):
            # a - max(a, axis=k) broadcast back over axis k (keepdims, or k = 0 where trailing alignment does it): <= 0, 0 attained
            r.lse = ("shifted", tag[2])
        return r

    def __rsub__(self, o):
        return ewise(lambda a, b: a - b, o, self, arith="subtract")

    def __mul__(self, o):
        return ewise(lambda a, b: a * b, self, o, arith="multiply")

    def __rmul__(self, o):
        return ewise(lambda a, b: a * b, o, self, arith="multiply")

    def __truediv__(self, o):
        return ewise(_div, self, o)

    def __rtruediv__(self, o):
        return ewise(_div, o, self)

    def __neg__(self):
        return ewise(lambda a: -a, self, arith="negative")

    def __pow__(self, n):
        if isinstance(n, Arr):
            raise ModelError("array exponent")
        if isinstance(n, float) and not isinstance(n, bool):
            return ewise(lambda a: _pow(a, n), self, dtype="real")
        return ewise(lambda a: _pow(a, n), self, arith="power")

    def __abs__(self):
        return ewise(T.mk_abs, self)

    def __matmul__(self, o):
        return matmul(self, o)

    def __rmatmul__(self, o):
        return matmul(o, self)

    def _cmp(self, op, o, swap=False):
        f = (lambda a, b: T.cmp_cond(op, b, a)) if swap else (lambda a, b: T.cmp_cond(op, a, b))
        return ewise(f, self, o, dtype="bool")

    def __lt__(self, o):
        return self._cmp("<", o)

    def __le__(self, o):
        return self._cmp("<=", o)

    def __gt__(self, o):
        return self._cmp("<", o, swap=True)

    def __ge__(self, o):
        return self._cmp("<=", o, swap=True)

    def __eq__(self, o):
        return self._cmp("==", o)

    def __ne__(self, o):
        return self._cmp("!=", o)

    __hash__ = None

    def __invert__(self):
        return ewise(lambda a: T.c_not(C(a)), self, dtype="bool")

    def __and__(self, o):
        return ewise(lambda a, b: T.c_and(C(a), C(b)), self, o, dtype="bool")

    def __or__(self, o):
        return ewise(lambda a, b: T.c_or(C(a), C(b)), self, o, dtype="bool")

    # -------------------------------------------------------------- reductions
    def sum(self, axis=None, keepdims=False, **kw):
        r = reduce_arr(self, "sum", axis, keepdims)
        tag = getattr(self, "lse", None)
        if tag and tag[0] == "expshift" and isinstance(axis, int) and axis % self.ndim == tag[1] and isinstance(r, Arr):
            r.lse = ("safe",)        # Σ_k exp(a_k - max_k a_k) >= 1: its log cannot underflow
        return r

    def mean(self, axis=None, keepdims=False, **kw):
        return reduce_arr(self, "mean", axis, keepdims)

    def min(self, axis=None, keepdims=False, **kw):
        return reduce_arr(self, "minred", axis, keepdims)

    def max(self, axis=None, keepdims=False, **kw):
        r = reduce_arr(self, "maxred", axis, keepdims)
        if isinstance(r, Arr) and isinstance(axis, int):
            r.lse = ("maxof", self, axis % self.ndim, bool(keepdims))     # provenance for the hand-written stable log-sum-exp idiom
        return r

    def any(self, axis=None, **kw):
        cnt = reduce_arr(ewise(lambda a: T.mk_ind(C(a)), self, dtype="real"), "sum", axis, False)
        if isinstance(cnt, Arr):
            return ewise(lambda a: T.cmp_cond("!=", a, ZERO), cnt, dtype="bool")
        return T.cmp_cond("!=", cnt, ZERO)

    def all(self, axis=None, **kw):
        cnt = reduce_arr(ewise(lambda a: T.mk_ind(T.c_not(C(a))), self, dtype="real"), "sum", axis, False)
        if isinstance(cnt, Arr):
            return ewise(lambda a: T.cmp_cond("==", a, ZERO), cnt, dtype="bool")
        return T.cmp_cond("==", cnt, ZERO)

    def argmin(self, axis=None):
        return reduce_arr(self, "argmin", axis, False)

    def argmax(self, axis=None):
        return reduce_arr(self, "argmax", axis, False)

    # -------------------------------------------------------------- shape ops
    def transpose(self, *axes):
        if len(axes) == 1 and isinstance(axes[0], (tuple, list)):
            axes = tuple(axes[0])
        if not axes or axes == (None,):
            axes = tuple(reversed(range(self.ndim)))
        axes = tuple(a % self.ndim for a in axes)
        if sorted(axes) != list(range(self.ndim)):
            raise ShapeError("axes don't match array")
        shape = tuple(self.shape[a] for a in axes)
        src = self.fn

        def fn(*idx):
            full = [None] * len(axes)
            for pos, a in enumerate(axes):
                full[a] = idx[pos]
            return src(*full)
        mask = None
        if self.mask is not None:
            mask = (axes.index(self.mask[0]), self.mask[1], self.mask[2])
        return Arr(shape, fn, self.dtype, self.kind, mask, origin=self.origin)

    def swapaxes(self, a, b):
        ax = list(range(self.ndim))
        ax[a], ax[b] = ax[b], ax[a]
        return self.transpose(*ax)

    def reshape(self, *shape):
        if len(shape) == 1 and isinstance(shape[0], (tuple, list)):
            shape = tuple(shape[0])
        return reshape(self, shape)

    def repeat(self, n, axis=None):
        return repeat(self, n, axis)

    def __getitem__(self, key):
        return getitem(self, key)

    def setitem(self, key, val):
        """value-semantics store: returns the new array"""
        return setitem(self, key, val)

    def __repr__(self):
        try:
            idx, e = self.generic("j")
            return "Arr%s{%s -> %s}" % (tuple(self.shape), ",".join(map(repr, idx)), e)
        except Exception as ex:  # pragma: no cover
            return "Arr%s{?%s}" % (tuple(self.shape), ex)


def _div(a, b):
    a, b = P(a), P(b)
    T.side("nonzero", b, "division")
    return a / b


def _pow(a, n):
    if isinstance(n, Poly):
        n = n.const_value() if n.is_const() else n
    if isinstance(n, float) and n == int(n):
        n = int(n)
    if isinstance(n, Fraction) and n.denominator == 1:
        n = int(n)
    a = P(a)
    if isinstance(n, int) and n < 0:
        T.side("nonzero", a, "negative power")
    return a ** n


# ------------------------------------------------------------------ broadcasting
def bshape(shapes):
    n = max(len(s) for s in shapes)
    out = []
    for pos in range(n):
        d = None
        for s in shapes:
            k = pos - (n - len(s))
            if k < 0:
                continue
            x = s[k]
            if d is None or is_one(d):
                d = x
            elif is_one(x) or dim_eq(d, x):
                pass
            else:
                raise ShapeError("operands could not be broadcast together: %r vs %r" % (d, x))
        out.append(d)
    return tuple(out)


def _bidx(arr, rn):
    """index mapper result idx -> operand idx"""
    off = rn - arr.ndim
    ones = [is_one(d) for d in arr.shape]

    def m(idx):
        return [Poly.const(0) if ones[k] else idx[k + off] for k in range(arr.ndim)]
    return m


def ewise(f, *ops, dtype=None, arith=None):
    arrs = [o for o in ops if isinstance(o, Arr)]
    if not arrs:
        return f(*[o for o in ops])
    shape = bshape([a.shape for a in arrs])
    rn = len(shape)
    mappers = [(_bidx(o, rn) if isinstance(o, Arr) else None) for o in ops]
    mask = None
    for o in arrs:
        if o.mask is not None:
            ax = o.mask[0] + (rn - o.ndim)
            if mask is None:
                mask = (ax, o.mask[1], o.mask[2])
            else:
                k = T.fresh("m")
                if mask[0] != ax or not T.equal(mask[1](k), o.mask[1](k)):
                    raise ModelError("elementwise operation on differently masked selections")
    if mask is not None:
        # an unmasked operand must not carry the full dimension on the masked axis
        for o in arrs:
            if o.mask is None:
                k = mask[0] - (rn - o.ndim)
                if k >= 0 and not is_one(o.shape[k]):
                    raise ShapeError("selection combined with an unselected axis")
    kind = "dask" if any(a.kind == "dask" for a in arrs) else "numpy"
    if dtype is None:
        dtype = "bool" if all(isinstance(o, Arr) and o.dtype == "bool" for o in ops) else \
            ("int" if all((isinstance(o, Arr) and o.dtype == "int") or isinstance(o, int) for o in ops) else "real")
        if dtype == "int" and any(is_narrow(o) for o in ops):
            # NumPy keeps the operands' integer dtype (Python ints are weak): the result can wrap around
            dtype = NINT
            if arith:
                T.side("intwidth", arith, "%s of integer arrays is carried out in the input's own (possibly 8/16/32-bit) integer dtype" % arith)
    # snapshot the operands' element functions NOW: a later in-place update of an operand
    # must not change this (fresh) result
    opsl = [(o.fn if isinstance(o, Arr) else o) for o in ops]

    def fn(*idx):
        vals = []
        for o, mp in zip(opsl, mappers):
            vals.append(o(*mp(idx)) if mp is not None else o)
        return f(*vals)
    return Arr(shape, fn, dtype, kind, mask)


# ------------------------------------------------------------------ reductions
def norm_axis(axis, ndim):
    if axis is None:
        return tuple(range(ndim))
    if isinstance(axis, Poly):
        axis = axis.as_int()
    if isinstance(axis, int):
        axis = (axis,)
    axes = tuple(sorted(set(int(a) % ndim for a in axis)))
    return axes


def reduce_arr(a, how, axis, keepdims):
    axes = norm_axis(axis, a.ndim)
    if how in ("argmin", "argmax") and len(axes) != 1:
        raise ModelError("argmin over several axes")
    src = a.view()          # snapshot (see ewise)
    shape = []
    for k, d in enumerate(a.shape):
        if k in axes:
            if keepdims:
                shape.append(ONE)
        else:
            shape.append(d)
    mask = None
    if a.mask is not None and a.mask[0] not in axes:
        newax = a.mask[0] - sum(1 for x in axes if x < a.mask[0]) if not keepdims else a.mask[0]
        mask = (newax, a.mask[1], a.mask[2])

    def fn(*idx):
        idx = list(idx)
        full = []
        it = iter(idx)
        for k in range(src.ndim):
            if k in axes:
                if keepdims:
                    next(it)
                full.append(None)
            else:
                full.append(next(it))

        def body(level, full):
            if level == len(axes):
                return src.fn(*full)
            ax = axes[level]
            bnd = src.bound(ax)

            def inner(kv):
                f2 = list(full)
                f2[ax] = kv
                t = body(level + 1, f2)
                w = src.weight(ax, kv)
                if w is not None:
                    if how != "sum" and how != "mean":
                        raise ModelError("min/max over a selection")
                    t = w * t
                return t
            if how in ("sum", "mean"):
                if src.dtype == "bool":
                    return T.sum_over(bnd, lambda kv: T.mk_ind(C(inner_raw(full, ax, kv))))
                return T.sum_over(bnd, inner)
            return T.Red(how, bnd, inner)

        def inner_raw(full, ax, kv):
            f2 = list(full)
            f2[ax] = kv
            return src.fn(*f2)
        r = body(0, full)
        if how == "mean":
            cnt = ONE
            for ax in axes:
                cnt = cnt * src.shape[ax]
            T.side("nonzero", cnt, "mean of an empty selection")
            r = r / cnt
        return r
    dtype = "int" if how in ("argmin", "argmax") else ("real" if a.dtype == "bool" else a.dtype)
    if how in ("sum", "prod") and dtype == "int":
        dtype = "int"            # np.sum / np.prod accumulate small integers in the platform integer (64 bit)
    if how == "mean":
        dtype = "real"
    if not shape:
        return fn()
    return Arr(tuple(shape), fn, dtype, a.kind, mask)


# ------------------------------------------------------------------ indexing
class IndexSet:
    """result of np.where(cond)[0] for a 1-d condition: the selected positions"""

    def __init__(self, maskfn, full):
        self.maskfn, self.full = maskfn, full


def getitem(a, key):
    if not isinstance(key, tuple):
        key = (key,)
    # expand Ellipsis
    n_real = sum(1 for k in key if k is not None and k is not Ellipsis)
    if any(k is Ellipsis for k in key):
        i = [k is Ellipsis for k in key].index(True)
        key = key[:i] + (slice(None),) * (a.ndim - n_real) + key[i + 1:]
        n_real = sum(1 for k in key if k is not None)
    if n_real > a.ndim:
        raise ShapeError("too many indices for array")
    key = key + (slice(None),) * (a.ndim - n_real)
    shape = []
    plan = []   # per source axis: ('fix', idx) | ('keep', result_pos, offset) ; plus new axes
    pos = 0
    ax = 0
    mask = None
    for k in key:
        if k is None:
            shape.append(ONE)
            pos += 1
            continue
        if isinstance(k, slice):
            if k.step not in (None, 1):
                raise ModelError("strided slice")
            start = P(0 if k.start is None else k.start)
            stop = a.shape[ax] if k.stop is None else P(k.stop)
            if k.start is not None and isinstance(k.start, int) and k.start < 0:
                start = a.shape[ax] + k.start
            if k.stop is not None and isinstance(k.stop, int) and k.stop < 0:
                stop = a.shape[ax] + k.stop
            if a.mask is not None and a.mask[0] == ax:
                if k.start is not None or k.stop is not None:
                    raise ModelError("slice of a selection")
                mask = (pos, a.mask[1], a.mask[2])
            shape.append(stop - start)
            plan.append(("keep", pos, start))
            pos += 1
            ax += 1
            continue
        if isinstance(k, (Arr, IndexSet)):
            if isinstance(k, Arr) and k.dtype != "bool":
                raise ModelError("integer-array indexing")
            if a.mask is not None:
                raise ModelError("selection of a selection")
            if isinstance(k, Arr):
                if k.ndim != 1:
                    raise ModelError("multi-dimensional boolean index")
                if not dim_eq(k.shape[0], a.shape[ax]):
                    raise ShapeError("boolean index did not match indexed array")
                kk = k
                mfn = (lambda kk: (lambda i: T.mk_ind(C(kk.fn(i)))))(kk)
                full = a.shape[ax]
            else:
                mfn, full = k.maskfn, k.full
                if not dim_eq(full, a.shape[ax]):
                    raise ShapeError("index set does not match the indexed axis")
            cnt = T.Sum(full, mfn, "s")
            mask = (pos, mfn, full)
            shape.append(cnt)
            plan.append(("keep", pos, ZERO))
            pos += 1
            ax += 1
            continue
        # integer index
        if isinstance(k, int) and not isinstance(k, bool):
            kv = Poly.const(k) if k >= 0 else a.shape[ax] + k
        elif isinstance(k, Poly):
            kv = k
        else:
            raise ModelError("index of type %s" % type(k).__name__)
        if a.mask is not None and a.mask[0] == ax:
            raise ModelError("integer index into a selection")
        plan.append(("fix", kv))
        ax += 1
    src = a.fn

    def fn(*idx):
        full = []
        for p in plan:
            if p[0] == "fix":
                full.append(p[1])
            else:
                full.append(idx[p[1]] + p[2] if not p[2].is_zero() else idx[p[1]])
        return src(*full)
    if a.mask is not None and mask is None:
        # masked axis kept through 'keep'
        pass
    if not shape:
        return fn()
    basic = not any(isinstance(k, (Arr, IndexSet)) for k in key)
    r = Arr(tuple(shape), fn, a.dtype, a.kind, mask, origin=a.origin if basic else frozenset())
    if basic and a.ndim > 0 and not all(isinstance(k, slice) and k == slice(None) for k in key if k is not None):
        # a NumPy view of part of `a`: a store through it writes into `a`
        r.viewof = a
        k0 = key[0] if key else None
        if isinstance(k0, (int, Poly)) and not isinstance(k0, bool) and all(isinstance(k, slice) and k == slice(None) for k in key[1:]):
            r.rowview_of = (a, Poly.const(k0) if isinstance(k0, int) and k0 >= 0 else (a.shape[0] + k0 if isinstance(k0, int) else k0))
    return r


def setitem(a, key, val):
    """returns a new Arr equal to a except at the addressed positions"""
    if isinstance(key, Arr) and key.dtype == "bool" and key.ndim == a.ndim:
        kfn, afn0 = key.fn, a.fn       # snapshots: `a` is updated in place with this result
        if isinstance(val, Arr):
            raise ModelError("masked store of an array")
        v = P(val)
        return Arr(a.shape, lambda *idx: T.mk_ite(C(kfn(*idx)), v, afn0(*idx)), a.dtype, a.kind, a.mask, origin=a.origin)
    if not isinstance(key, tuple):
        key = (key,)
    if any(k is None for k in key):
        raise ModelError("store with newaxis")
    if any(k is Ellipsis for k in key):
        if sum(1 for k in key if k is Ellipsis) > 1:
            raise ModelError("store with two ellipses")
        e = [k is Ellipsis for k in key].index(True)
        key = key[:e] + (slice(None),) * (a.ndim - (len(key) - 1)) + key[e + 1:]
    key = key + (slice(None),) * (a.ndim - len(key))
    fixed = []   # (axis, index term)
    kept = []
    masks = []
    for ax, k in enumerate(key):
        if isinstance(k, slice):
            if not (k.start is None and k.stop is None and k.step is None):
                raise ModelError("store into a partial slice")
            kept.append(ax)
        elif isinstance(k, Arr) and k.dtype == "bool" and k.ndim == 1:
            masks.append((ax, k))
            kept.append(ax)
        elif isinstance(k, (int, Poly)) and not isinstance(k, bool):
            kv = Poly.const(k) if isinstance(k, int) and k >= 0 else (a.shape[ax] + k if isinstance(k, int) else k)
            fixed.append((ax, kv))
        else:
            raise ModelError("store index of type %s" % type(k).__name__)
    sub_shape = tuple(a.shape[ax] for ax in kept)
    if isinstance(val, Arr):
        # broadcast val to sub_shape
        bshape([val.shape, sub_shape])
        vm = _bidx(val, len(sub_shape))
        valfn = val.fn
        vfn = lambda sub: valfn(*vm(sub))
    elif is_scalar(val):
        vfn = lambda sub: P(val)
    elif hasattr(val, "store_rows"):
        # filtered symbolic list stored into mask-selected rows
        return val.store_rows(a, masks, kept, fixed)
    else:
        raise ModelError("store of %s" % type(val).__name__)

    afn = a.fn
    trunc = a.dtype == "int" and not (isinstance(val, Arr) and val.dtype in ("int", "bool")) and not isinstance(val, int)

    def fn(*idx):
        cond = T.TRUE
        for ax, kv in fixed:
            cond = T.c_and(cond, T.cmp_cond("==", idx[ax], kv))
        for ax, mk in masks:
            cond = T.c_and(cond, C(mk.fn(idx[ax])))
        sub = [idx[ax] for ax in kept]
        old = afn(*idx)
        new = vfn(sub)
        if trunc:
            new = T.app("trunc", P(new))     # a real stored into an integer array is truncated
        # old + [cond](new-old): additive form so that the loop rules see deltas
        return old + T.mk_ind(cond) * (new - old)
    return Arr(a.shape, fn, a.dtype, a.kind, a.mask, origin=a.origin)


# ------------------------------------------------------------------ linear algebra
def matmul(a, b):
    if not isinstance(a, Arr) or not isinstance(b, Arr):
        raise ModelError("matmul with a scalar")
    if a.ndim == 0 or b.ndim == 0:
        raise ShapeError("matmul: scalar operand")
    a1 = a.ndim == 1
    b1 = b.ndim == 1
    if a.dtype == "int" and b.dtype == "int" and (is_narrow(a) or is_narrow(b)):
        T.side("intwidth", "matmul", "matrix product of integer arrays is accumulated in the input's own (possibly narrow) integer dtype")
    A = a.view() if not a1 else getitem(a, (None, slice(None)))
    B = b.view() if not b1 else getitem(b, (slice(None), None))
    ka, kb = A.shape[-1], B.shape[-2]
    if not dim_eq(ka, kb):
        raise ShapeError("matmul: mismatch in core dimension %r vs %r" % (ka, kb))
    batch = bshape([A.shape[:-2], B.shape[:-2]])
    nb = len(batch)
    ma = _bidx(Arr(A.shape[:-2], None), nb) if A.ndim > 2 else None
    mb = _bidx(Arr(B.shape[:-2], None), nb) if B.ndim > 2 else None
    bound = A.bound(A.ndim - 1)
    bound_b = B.bound(B.ndim - 2)
    wa = A.mask if (A.mask is not None and A.mask[0] == A.ndim - 1) else None
    wb = B.mask if (B.mask is not None and B.mask[0] == B.ndim - 2) else None
    if (wa is None) != (wb is None) and (wa or wb):
        # one side selected, the other not: shapes would mismatch in NumPy
        raise ShapeError("matmul: selection against unselected axis")
    if wa is not None:
        bound = wa[2]
    shape = batch + (A.shape[-2], B.shape[-1])

    def fn(*idx):
        bi = list(idx[:nb])
        i, j = idx[nb], idx[nb + 1]
        ia = ma(bi) if ma else []
        ib = mb(bi) if mb else []

        def term(k):
            t = P(A.fn(*(ia + [i, k]))) * P(B.fn(*(ib + [k, j])))
            if wa is not None:
                t = wa[1](k) * t
            return t
        return T.sum_over(bound, term)
    r = Arr(shape, fn, "real", "dask" if "dask" in (a.kind, b.kind) else "numpy")
    # masks on non-contracted axes are not supported
    for M, axc in ((A, A.ndim - 1), (B, B.ndim - 2)):
        if M.mask is not None and M.mask[0] != axc:
            raise ModelError("matmul keeps a selected axis")
    if a1 and b1:
        return r.fn(Poly.const(0), Poly.const(0))
    if a1:
        return getitem(r, (Ellipsis, 0, slice(None)))
    if b1:
        return getitem(r, (Ellipsis, slice(None), 0))
    return r


def einsum(spec, *ops):
    spec = spec.replace(" ", "")
    if "->" not in spec:
        raise ModelError("implicit einsum output")
    lhs, out = spec.split("->")
    ins = lhs.split(",")
    if len(ins) != len(ops):
        raise ShapeError("einsum operand count")
    dims = {}
    for s, o in zip(ins, ops):
        if not isinstance(o, Arr) or len(s) != o.ndim:
            raise ShapeError("einsum: operand has wrong number of dimensions")
        if o.mask is not None:
            raise ModelError("einsum on a selection")
        for ch, d in zip(s, o.shape):
            if ch in dims and not dim_eq(dims[ch], d):
                raise ShapeError("einsum: dimension mismatch on '%s'" % ch)
            dims.setdefault(ch, d)
    summed = [ch for ch in dims if ch not in out]

    def fn(*idx):
        env = {ch: i for ch, i in zip(out, idx)}

        def rec(k, env):
            if k == len(summed):
                t = ONE
                for s, o in zip(ins, ops):
                    t = t * P(o.fn(*[env[ch] for ch in s]))
                return t
            ch = summed[k]
            return T.Sum(dims[ch], lambda v: rec(k + 1, dict(env, **{ch: v})))
        return rec(0, env)
    if not out:
        return fn()
    return Arr(tuple(dims[ch] for ch in out), fn)


def tensordot(a, b, axes=2):
    if isinstance(axes, Poly) and axes.as_int() is not None:
        axes = axes.as_int()
    if not isinstance(axes, int):
        # explicit axes: (axes of a, axes of b), contracted pairwise; result = free axes of a then free axes of b
        try:
            aa, ab = axes
            aa = [aa] if isinstance(aa, (int, Poly)) else list(aa)
            ab = [ab] if isinstance(ab, (int, Poly)) else list(ab)
            aa = [(int(x.as_int()) if isinstance(x, Poly) else int(x)) % a.ndim for x in aa]
            ab = [(int(x.as_int()) if isinstance(x, Poly) else int(x)) % b.ndim for x in ab]
        except (TypeError, ValueError, AttributeError):
            raise ModelError("tensordot axes")
        if len(aa) != len(ab):
            raise ShapeError("tensordot: axes lists of different lengths")
        for x, y in zip(aa, ab):
            if not dim_eq(a.shape[x], b.shape[y]):
                raise ShapeError("tensordot: shape mismatch")
        free_a = [k for k in range(a.ndim) if k not in aa]
        free_b = [k for k in range(b.ndim) if k not in ab]
        shape2 = tuple(a.shape[k] for k in free_a) + tuple(b.shape[k] for k in free_b)
        afn, bfn = a.fn, b.fn

        def fn2(*idx):
            ia = dict(zip(free_a, idx[:len(free_a)]))
            ib = dict(zip(free_b, idx[len(free_a):]))

            def rec(k):
                if k == len(aa):
                    return P(afn(*[ia[j] for j in range(a.ndim)])) * P(bfn(*[ib[j] for j in range(b.ndim)]))

                def body(v):
                    ia[aa[k]] = v
                    ib[ab[k]] = v
                    return rec(k + 1)
                return T.Sum(a.shape[aa[k]], body)
            return rec(0)
        if not shape2:
            return fn2()
        return Arr(shape2, fn2)
    n = axes
    for k in range(n):
        if not dim_eq(a.shape[a.ndim - n + k], b.shape[k]):
            raise ShapeError("tensordot: shape mismatch")
    shape = a.shape[:a.ndim - n] + b.shape[n:]
    na = a.ndim - n

    def fn(*idx):
        ia, ib = list(idx[:na]), list(idx[na:])

        def rec(k, ks):
            if k == n:
                return P(a.fn(*(ia + ks))) * P(b.fn(*(ks + ib)))
            return T.Sum(b.shape[k], lambda v: rec(k + 1, ks + [v]))
        return rec(0, [])
    if not shape:
        return fn()
    return Arr(shape, fn)


def reshape(a, shape):
    shape = list(shape)
    # resolve -1
    known = ONE
    for d in shape:
        if not (isinstance(d, int) and d == -1):
            known = known * P(d)
    if any(isinstance(d, int) and d == -1 for d in shape):
        if sum(1 for d in shape if isinstance(d, int) and d == -1) > 1:
            raise ShapeError("can only specify one unknown dimension")
        shape = [a.size / known if (isinstance(d, int) and d == -1) else P(d) for d in shape]
    shape = [P(d) for d in shape]
    # supported: same non-unit dimensions in the same order (adding/removing 1s)
    src = [d for d in a.shape if not is_one(d)]
    dst = [d for d in shape if not is_one(d)]
    if len(src) == len(dst) and all(dim_eq(x, y) for x, y in zip(src, dst)):
        src_pos = [k for k, d in enumerate(a.shape) if not is_one(d)]
        dst_pos = [k for k, d in enumerate(shape) if not is_one(d)]

        def fn(*idx):
            full = [Poly.const(0)] * a.ndim
            for sp, dp in zip(src_pos, dst_pos):
                full[sp] = idx[dp]
            return a.fn(*full)
        return Arr(tuple(shape), fn, a.dtype, a.kind, origin=a.origin)
    # general row-major reshape through the flat index (compound axes decompose when the
    # index variables carry their bounds)
    if a.mask is not None:
        raise ModelError("reshape of a selection")
    if not T.equal(a.size, _prod(shape)):
        raise ShapeError("cannot reshape array of size %r into shape %r" % (a.size, tuple(shape)))
    old_strides = _strides(a.shape)
    new_strides = _strides(shape)

    def fn(*idx):
        flat = ZERO
        for i, st in zip(idx, new_strides):
            flat = flat + P(i) * st
        full = []
        for k, (d, st) in enumerate(zip(a.shape, old_strides)):
            j = T.mk_floordiv(flat, st) if not (st == ONE) else flat
            if k > 0:
                j = T.mk_mod(j, d)
            full.append(j)
        return a.fn(*full)
    return Arr(tuple(shape), fn, a.dtype, a.kind, origin=a.origin)


def _prod(dims):
    r = ONE
    for d in dims:
        r = r * P(d)
    return r


def _strides(shape):
    out = []
    acc = ONE
    for d in reversed(list(shape)):
        out.append(acc)
        acc = acc * P(d)
    return list(reversed(out))


def repeat(a, n, axis=None):
    if axis is None:
        flat = reshape(a, (-1,)) if a.ndim != 1 else a
        n = P(n)
        return Arr((flat.shape[0] * n,), lambda i: flat.fn(T.mk_floordiv(i, n)), a.dtype, a.kind)
    axis = axis % a.ndim
    if not is_one(a.shape[axis]):
        raise ModelError("repeat of a non-unit axis")
    shape = list(a.shape)
    shape[axis] = P(n)

    def fn(*idx):
        idx = list(idx)
        idx[axis] = Poly.const(0)
        return a.fn(*idx)
    return Arr(tuple(shape), fn, a.dtype, a.kind)


def stack_list(lst, kind="numpy"):
    """np.array / np.vstack of a (symbolic) list of equally shaped arrays/scalars"""
    from .values import SList
    if isinstance(lst, SList):
        n = lst.length
        probe = lst.elem(T.fresh("p"))
        if isinstance(probe, Arr):
            if probe.mask is not None:
                raise ModelError("stack of selections")
            return Arr((n,) + probe.shape, lambda i, *r: lst.elem(i).fn(*r), probe.dtype, probe.kind)
        if is_scalar(probe):
            return Arr((n,), lambda i: P(lst.elem(i)))
        raise ModelError("np.array of a list of %s" % type(probe).__name__)
    lst = list(lst)
    if not lst:
        raise ModelError("np.array([])")
    if all(is_scalar(x) for x in lst):
        vals = [P(x) for x in lst]
        return Arr((len(vals),), lambda i: _select(vals, i))
    if all(isinstance(x, Arr) for x in lst):
        sh = lst[0].shape
        for x in lst[1:]:
            if len(x.shape) != len(sh) or not all(dim_eq(p, q) for p, q in zip(sh, x.shape)):
                raise ShapeError("inhomogeneous shape in np.array")
        return Arr((len(lst),) + sh, lambda i, *r: _select([x.fn(*r) for x in lst], i), lst[0].dtype, lst[0].kind)
    raise ModelError("np.array of a mixed list")


def _select(vals, i):
    k = P(i).as_int()
    if k is not None:
        return vals[k]
    out = ZERO
    for j, v in enumerate(vals):
        out = out + T.mk_ind(T.cmp_cond("==", i, Poly.const(j))) * P(v)
    return out


def const_arr(shape, value, kind="numpy", dtype="real"):
    v = P(value)
    return Arr(tuple(shape), lambda *idx: v, dtype, kind)


def eye(n, m=None):
    n = P(n)
    m = n if m is None else P(m)
    return Arr((n, m), lambda i, j: T.mk_ind(T.cmp_cond("==", i, j)))


def input_arr(name, shape, kind="numpy", dtype="real", chunks=None, narrow=False):
    sort = "int" if dtype == "int" else "real"
    if narrow:
        dtype = NINT
    return Arr(tuple(shape), lambda *idx: T.app(name, *idx, sort=sort), dtype, kind, None, chunks, origin={name})


def arr_equal(a, b):
    """structural equality of two arrays at a generic index"""
    if not isinstance(a, Arr) or not isinstance(b, Arr):
        return False
    if a.ndim != b.ndim or not all(dim_eq(x, y) for x, y in zip(a.shape, b.shape)):
        return False
    idx = [T.fresh("q") for _ in a.shape]
    return T.equal(P(a.fn(*idx)), P(b.fn(*idx)))
