"""Loop summarisation rules R1 (append), R2 (indexed store), R3 (additive fold)
-- DESIGN §1.2.  The body is executed once on a symbolic index and on
placeholder values for every location it may write; the side conditions are
checked on the executed result, not on syntax."""
import ast
from fractions import Fraction

from . import terms as T
from .terms import Poly, Cond, P, C, ZERO, ONE
from . import arr as A
from .arr import Arr, ModelError, is_scalar
from .values import Obj, SList, SRange, PyRaise, Delayed


class LoopList:
    """recorder standing in for a python list that the loop body appends to"""

    def __init__(self, base):
        self.base = base
        self.appended = []

    def append(self, v):
        self.appended.append(v)


def written_locations(body):
    """syntactic over-approximation of what a loop body may write:
    names (assigned / augmented / subscripted-stored / .append'ed) and
    attribute chains (obj.attr)"""
    names, attrs, appends = set(), set(), set()

    def tgt(t, aug=False):
        if isinstance(t, ast.Name):
            names.add(t.id)
        elif isinstance(t, (ast.Tuple, ast.List)):
            for e in t.elts:
                tgt(e)
        elif isinstance(t, ast.Attribute):
            attrs.add(ast.unparse(t))
        elif isinstance(t, ast.Subscript):
            b = t.value
            while isinstance(b, ast.Subscript):
                b = b.value
            if isinstance(b, ast.Name):
                names.add(b.id)
            elif isinstance(b, ast.Attribute):
                attrs.add(ast.unparse(b))
        elif isinstance(t, ast.Starred):
            tgt(t.value)
    for n in ast.walk(ast.Module(body=body, type_ignores=[])):
        if isinstance(n, ast.Assign):
            for t in n.targets:
                tgt(t)
        elif isinstance(n, (ast.AugAssign, ast.AnnAssign)):
            tgt(n.target)
        elif isinstance(n, ast.For):
            tgt(n.target)
        elif isinstance(n, ast.NamedExpr):
            tgt(n.target)
        elif isinstance(n, ast.comprehension):
            pass
        elif isinstance(n, ast.Call) and isinstance(n.func, ast.Attribute) and n.func.attr == "append":
            if isinstance(n.func.value, ast.Name):
                appends.add(n.func.value.id)
                names.add(n.func.value.id)
    return names, attrs, appends


def inplace_names(body):
    """names updated with an augmented assignment or a subscript store in the loop body"""
    out = set()
    for n in ast.walk(ast.Module(body=body, type_ignores=[])):
        if isinstance(n, ast.AugAssign) and isinstance(n.target, ast.Name):
            out.add(n.target.id)
        if isinstance(n, (ast.Assign, ast.AugAssign)):
            for t in (n.targets if isinstance(n, ast.Assign) else [n.target]):
                b = t
                while isinstance(b, ast.Subscript):
                    b = b.value
                if isinstance(t, ast.Subscript) and isinstance(b, ast.Name):
                    out.add(b.id)
    return out


def placeholder_like(v, tag):
    if isinstance(v, Arr):
        if v.mask is not None:
            raise ModelError("loop-carried selection")
        name = "@in:%s" % tag
        return Arr(v.shape, lambda *idx: T.app(name, *idx), v.dtype, v.kind, origin=v.origin), name
    if isinstance(v, (Poly, int, float, Fraction)) and not isinstance(v, bool):
        name = "@in:%s" % tag
        return T.sym(name), name
    return None, None


def mentions(p, name):
    """does term p mention the placeholder (symbol or app) called name"""
    if isinstance(p, (Poly, Cond)):
        if name in p.syms:
            return True
        return name in _appnames(p)
    return False


_appcache = {}


def _appnames(x):
    k = id(x)
    r = _appcache.get(k)
    if r is not None and r[0] is x:
        return r[1]
    out = set()
    stack = [x]
    while stack:
        y = stack.pop()
        if isinstance(y, Poly):
            for m, _ in y.terms:
                for a, _p in m:
                    stack.append(a)
        elif isinstance(y, Cond):
            stack.extend(a for a in y.args if isinstance(a, (Poly, Cond)))
        elif isinstance(y, T.Atom):
            if y.kind == "app":
                out.add(y.args[0])
            stack.extend(a for a in y.args if isinstance(a, (Poly, Cond)))
    _appcache[k] = (x, out)
    return out


GUARD = [None]     # guard(i) of the loop being summarised (iteration over a selection of positions), or None


def _guarded(delta, i, g):
    return delta if g is None else T.mk_ind(g(i)) * delta


def summarise_scalar(orig, ph, name, out, i, iname, n, what):
    """out as a function of placeholder ph and index i -> final value"""
    out = P(out)
    if T.equal(out, ph):
        return orig
    delta = out - ph
    if not mentions(delta, name):
        return P(orig) + T.mk_sum(i, n, _guarded(delta, i, GUARD[0]))      # R3
    if GUARD[0] is not None:
        raise ModelError("loop over a selection rebinds '%s' non-additively" % what)
    if not mentions(out, name):
        # plain rebinding: value of the last iteration
        return T.subst(out, {iname: n - 1})
    raise ModelError("loop-carried scalar '%s' is not an additive fold" % what)


def summarise_scalar_to_arr(orig, ph, name, out, i, iname, n, what):
    idx = [T.fresh("j") for _ in out.shape]
    names = [T.symname(x) for x in idx]
    delta = P(out.fn(*idx)) - ph
    if mentions(delta, name):
        raise ModelError("loop-carried scalar '%s' becomes an array non-additively" % what)
    g0 = GUARD[0]        # captured now: the closure below runs later, when another loop may be being summarised

    def fn(*jj):
        mp = {nm: P(j) for nm, j in zip(names, jj)}
        return P(orig) + T.mk_sum(i, n, _guarded(T.subst(delta, mp), i, g0))
    return Arr(tuple(T.subst(d, {iname: ZERO}) for d in out.shape), fn, out.dtype, out.kind)


def summarise_arr(orig, ph, name, out, i, iname, n, what):
    if not isinstance(out, Arr):
        raise ModelError("loop changes the type of '%s'" % what)
    if out.ndim != orig.ndim or not all(A.dim_eq(x, y) for x, y in zip(out.shape, orig.shape)):
        probe = P(out.fn(*[T.fresh("j") for _ in out.shape]))
        if GUARD[0] is not None:
            raise ModelError("loop over a selection changes the shape of '%s'" % what)
        if not mentions(probe, name):
            jn = [T.fresh("j") for _ in out.shape]
            jnames = [T.symname(x) for x in jn]
            o2 = P(out.fn(*jn))

            def fn2(*jj):
                mp = {nm: P(j) for nm, j in zip(jnames, jj)}
                mp[iname] = n - 1
                return T.subst(o2, mp)
            return Arr(tuple(T.subst(d, {iname: n - 1}) for d in out.shape), fn2, out.dtype, out.kind)
        raise ModelError("loop changes the shape of '%s'" % what)
    idx = [T.fresh("j") for _ in orig.shape]
    o = P(out.fn(*idx))
    pin = P(ph.fn(*idx))
    if T.equal(o, pin):
        return orig
    delta = o - pin
    names = [T.symname(x) for x in idx]
    if not mentions(delta, name):
        # R3: additive fold, elementwise
        ofn = orig.fn        # snapshot: orig itself may be updated in place with this result
        g0 = GUARD[0]

        def fn(*jj, delta=delta):
            mp = {nm: P(j) for nm, j in zip(names, jj)}
            d = T.subst(delta, mp)
            return P(ofn(*jj)) + T.mk_sum(i, n, _guarded(d, i, g0))
        return Arr(orig.shape, fn, orig.dtype, out.kind, origin=orig.origin)
    if GUARD[0] is not None and not mentions(o, name):
        raise ModelError("loop over a selection rebinds '%s'" % what)
    if not mentions(o, name):
        # plain rebinding inside the loop: the value of the last iteration
        def fn(*jj, o=o):
            mp = {nm: P(j) for nm, j in zip(names, jj)}
            mp[iname] = n - 1
            return T.subst(o, mp)
        return Arr(tuple(T.subst(d, {iname: n - 1}) for d in out.shape), fn, out.dtype, out.kind)
    # R2: out = in + [j_a == i] * (g - in)   with g free of in, for the axis a the loop index addresses (rows, columns, ...)
    for axis in range(len(idx)):
        if not A.dim_eq(orig.shape[axis], n):
            continue
        ind = T.mk_ind(T.cmp_cond("==", idx[axis], i))
        g = None
        if ind.terms and len(ind.terms) == 1:
            ia = ind.terms[0][0][0][0]

            def split(oo, depth=0):
                """oo = in + [j_a == i] * (g - in)  ->  g ; an if/else in the body arrives as ite(c, <such a form>, <such a form>)"""
                at = T._single_atom(oo, "ite")
                if at is not None and depth < 4:
                    ga, gb = split(P(at.args[1]), depth + 1), split(P(at.args[2]), depth + 1)
                    return None if ga is None or gb is None else T.mk_ite(at.args[0], ga, gb)
                dl = oo - pin
                B = ZERO
                for m, c in dl.terms:
                    d = dict(m)
                    if d.get(ia, 0) != 1:
                        return None
                    rest = tuple(x for x in m if x[0] is not ia)
                    B = B + Poly({rest: c})
                return B + pin
            g = split(o)
            if g is not None:
                if mentions(g, name):
                    # the new value of row i may read the OLD value of row i itself (X[c] = solve(A[c], X[c])): every row is
                    # written exactly once, in its own iteration, so that old value is the original one
                    bad = []
                    ofn0 = orig.fn

                    def repl(*args, axis=axis):
                        a_ = P(args[axis]) if axis < len(args) else None
                        if a_ is not None and len(args) == len(idx) and (T.equal(a_, P(i)) or T.equal(a_, P(idx[axis]))):
                            return P(ofn0(*args))
                        bad.append(args)
                        return ZERO
                    g2 = T.map_apps(g, name, repl)
                    g = None if (bad or mentions(g2, name)) else g2
        if g is None:
            continue
        guard = GUARD[0]
        ofn2 = orig.fn

        def fn(*jj, g=g, axis=axis):
            mp = {nm: P(j) for nm, j in zip(names, jj)}
            mp[iname] = P(jj[axis])
            v = T.subst(g, mp)
            if guard is not None:
                # only the selected positions are visited: the others keep their value
                return T.mk_ite(guard(P(jj[axis])), v, P(ofn2(*jj)))
            return v
        return Arr(orig.shape, fn, orig.dtype, out.kind, origin=orig.origin)
    raise ModelError("loop-carried array '%s' matches neither the fold nor the indexed-store rule" % what)


def exec_for(I, s, env):
    it = I.ev(s.iter, env)
    if isinstance(it, dict):
        it = list(it)
    if type(it).__name__ == "CountIter":
        if not isinstance(s.target, ast.Name):
            raise ModelError("itertools.count with a structured loop target")
        # an unbounded counter loop is a while loop:  x = start - step; while True: x += step; <body>
        nm = s.target.id
        I.assign(s.target, I.binop(ast.Sub, it.start, it.step), env)
        inc = ast.AugAssign(target=ast.Name(id=nm, ctx=ast.Store()), op=ast.Add(), value=ast.Constant(value=it.step if isinstance(it.step, int) else 1))
        if not isinstance(it.step, int):
            raise ModelError("itertools.count with a symbolic step")
        w = ast.While(test=ast.Constant(value=True), body=[inc] + list(s.body), orelse=list(s.orelse))
        ast.copy_location(w, s)
        ast.fix_missing_locations(w)
        return exec_while(I, w, env)
    f_ = getattr(env, "func", None)
    if type(it).__name__ == "SRange" and isinstance(s.target, ast.Name) and f_ is not None and I.loop_hooks.get(f_.qualname) is not None \
            and (s.orelse or _has_break(s.body)):
        # a counted loop of the function a loop contract is registered for (for step in range(max_steps): ...) is the while loop
        #   x = start - 1; while x + 1 < stop: x += 1; <body>      (else-clause kept)
        nm = s.target.id
        hidden = "__range_stop_%d" % getattr(env, "loop_ordinal", 0)
        env.local[hidden] = it.stop
        I.assign(s.target, I.binop(ast.Sub, it.start, 1), env)
        inc = ast.AugAssign(target=ast.Name(id=nm, ctx=ast.Store()), op=ast.Add(), value=ast.Constant(value=1))
        test = ast.Compare(left=ast.BinOp(left=ast.Name(id=nm, ctx=ast.Load()), op=ast.Add(), right=ast.Constant(value=1)),
                           ops=[ast.Lt()], comparators=[ast.Name(id=hidden, ctx=ast.Load())])
        w = ast.While(test=test, body=[inc] + list(s.body), orelse=list(s.orelse))
        ast.copy_location(w, s)
        ast.fix_missing_locations(w)
        return exec_while(I, w, env)
    if isinstance(it, (list, tuple, range, set)):
        broke = False
        for x in it:
            I.assign(s.target, x, env)
            try:
                I.exec_block(s.body, env)
            except T_Break:
                broke = True
                break
            except T_Continue:
                continue
        if not broke:
            I.exec_block(s.orelse, env)
        return
    it = I.as_symbolic_iter(it)
    n = it.slen() if isinstance(it, SList) else it.length
    if isinstance(it, SList) and it.filt is not None:
        raise ModelError("loop over a filtered list")
    symbolic_for(I, s, env, it, n)


from .interp import _Break as T_Break, _Continue as T_Continue  # noqa: E402


def _has_break(body):
    """a break that belongs to THIS loop (not to a loop nested in it): such a loop has no summary by the fold rules"""
    stack = list(body)
    while stack:
        n = stack.pop()
        if isinstance(n, ast.Break):
            return True
        if isinstance(n, (ast.For, ast.While, ast.FunctionDef, ast.Lambda, ast.ClassDef)):
            continue
        stack.extend(ast.iter_child_nodes(n))
    return False


def _target_names(t):
    return [n.id for n in ast.walk(t) if isinstance(n, ast.Name)]


def _stored_through(body, nm):
    """is the name written in place (subscript store / augmented assignment) in the body?"""
    for n in ast.walk(ast.Module(body=body, type_ignores=[])):
        tg = []
        if isinstance(n, ast.Assign):
            tg = n.targets
        elif isinstance(n, ast.AugAssign):
            tg = [n.target]
            if isinstance(n.target, ast.Name) and n.target.id == nm:
                return True
        for t in tg:
            b = t
            sub_ = False
            while isinstance(b, ast.Subscript):
                b, sub_ = b.value, True
            if sub_ and isinstance(b, ast.Name) and b.id == nm:
                return True
    return False


def _rows_written(I, s, env, it, i):
    """[(target name, position in the element tuple or None, parent array, names bound to the parent)] for loop variables
    that are row views of an array (for row in X / for k, row in enumerate(X)) and are written in place in the body"""
    tn = [nm for nm in _target_names(s.target) if _stored_through(s.body, nm)]
    if not tn:
        return []
    saved_side = T.SIDE
    T.SIDE = None            # a probe: no side conditions are recorded for it
    try:
        probe = it.elem(i)
    except Exception:
        return []
    finally:
        T.SIDE = saved_side
    out = []
    items = list(probe) if isinstance(probe, tuple) else [probe]
    tnames = _target_names(s.target)
    for pos, v in enumerate(items):
        rv = getattr(v, "rowview_of", None) if isinstance(v, Arr) else None
        if rv is None or not T.equal(P(rv[1]), P(i)):
            continue
        if pos >= len(tnames) or tnames[pos] not in tn:
            continue
        parent = rv[0]
        bound = []
        e = env
        while e is not None:
            bound += [k for k, val in e.local.items() if val is parent]
            e = e.parent
        if not bound:
            raise ModelError("in-place write through a row of an array that no local name refers to")
        out.append((tnames[pos], pos if isinstance(probe, tuple) else None, parent, bound))
    if len(out) != len(tn):
        raise ModelError("loop variable written in place is not a row view of a named array")
    return out


def symbolic_for(I, s, env, it, n):
    names, attrs, appends = written_locations(s.body)
    i = T.fresh("i")
    iname = T.symname(i)
    rows = _rows_written(I, s, env, it, i)
    for _t, _p, _par, bound in rows:
        names |= set(bound)
    # ---- install placeholders
    saved = {}
    ph = {}
    for nm in sorted(names):
        try:
            v = env.lookup(nm)
        except KeyError:
            continue
        if nm in appends and isinstance(v, (list, SList)):
            rec = LoopList(v)
            saved[("n", nm)] = v
            set_name(env, nm, rec)
            ph[("n", nm)] = (rec, None)
            continue
        p, pname = placeholder_like(v, nm)
        if p is not None:
            saved[("n", nm)] = v
            set_name(env, nm, p.view() if isinstance(p, Arr) else p)
            ph[("n", nm)] = (p, pname)
    for ch in sorted(attrs):
        try:
            node = ast.parse(ch, mode="eval").body
            o = I.ev(node.value, env)
        except (PyRaise, ModelError):
            continue
        if not isinstance(o, Obj):
            continue
        fld = node.attr
        if fld not in o.fields:
            # property with backing field
            if ("_" + fld) in o.fields:
                fld = "_" + fld
            else:
                continue
        v = o.fields[fld]
        p, pname = placeholder_like(v, "%s.%s#%d" % (ch, fld, o.oid))
        if p is not None:
            saved[("a", o.oid, fld)] = (o, v)
            o.fields[fld] = p.view() if isinstance(p, Arr) else p
            ph[("a", o.oid, fld)] = (p, pname)
    # ---- run the body once
    guard = getattr(it, "guard", None)
    I.assumed.add(T.cmp_cond("<=", ZERO, i))
    I.assumed.add(T.cmp_cond("<", i, n))
    if guard is not None:
        I.assumed.add(guard(i))
    elem = it.elem(i)
    for tname, pos, parent, bound in rows:
        # the row variable views the loop-carried (placeholder) state of its array
        cur = env.lookup(bound[0])
        row = cur[i]
        row.loop_row = True
        if pos is None:
            elem = row
        else:
            elem = tuple(row if k == pos else x for k, x in enumerate(elem))
    I.assign(s.target, elem, env)
    # leading `if <cond>: continue` statements select the iterations that do anything: a guard on the loop index
    body = list(s.body)
    ph_names = [pn for (_p, pn) in ph.values() if pn]
    while body and isinstance(body[0], ast.If) and not body[0].orelse and len(body[0].body) == 1 and isinstance(body[0].body[0], ast.Continue):
        cv = I.ev(body[0].test, env)
        if isinstance(cv, (Cond, Poly)) and C(cv).const() is None:
            cc = C(cv)
            if any(mentions(cc, pn) for pn in ph_names):
                raise ModelError("skip condition of a summarised loop depends on loop-carried state")
            neg = T.c_not(cc)
            prev = guard
            guard = (lambda j, neg=neg, prev=prev: T.c_and(T.subst(neg, {iname: P(j)}), prev(j)) if prev is not None
                     else T.subst(neg, {iname: P(j)}))
            I.assumed.add(neg)
        elif I.truth(cv):
            body = []                 # every iteration is skipped
            break
        body.pop(0)
    pathlen = len(I.path)
    if rows:
        try:
            I.exec_block(body, env)
        except T_Continue:
            pass
        except T_Break:
            raise ModelError("break inside a summarised loop")
        if len(I.path) != pathlen:
            raise ModelError("data-dependent branch inside a summarised loop that writes through row views")
    else:
        _run_body_merging(I, body, env, ph, saved, ph_names, pathlen)
    for tname, pos, parent, bound in rows:
        # write the row back: X[i] = row   (then summarised by the indexed-store rule)
        rowv = env.lookup(tname)
        if not isinstance(rowv, Arr):
            raise ModelError("row variable '%s' rebound to a non-array" % tname)
        cur = env.lookup(bound[0])
        new = cur.setitem((i,), rowv.view())
        for b in bound:
            set_name(env, b, new)
    # ---- summarise
    GUARD[0] = guard
    try:
        _summarise_all(I, s, env, ph, saved, i, iname, n, names)
    finally:
        GUARD[0] = None
    I.exec_block(s.orelse, env)


def _install(env, ph, saved):
    """(re-)install the placeholder state of the written locations"""
    for key, (p, pname) in ph.items():
        if key[0] == "n":
            nm = key[1]
            if isinstance(p, LoopList):
                p.appended[:] = []
                set_name(env, nm, p)
            else:
                set_name(env, nm, p.view() if isinstance(p, Arr) else p)
        else:
            o, _orig = saved[key]
            o.fields[key[2]] = p.view() if isinstance(p, Arr) else p


def _capture(env, ph, saved):
    out = {}
    for key, (p, pname) in ph.items():
        if key[0] == "n":
            if isinstance(p, LoopList):
                if env.lookup(key[1]) is not p:
                    raise ModelError("list '%s' is rebound inside the loop" % key[1])
                out[key] = list(p.appended)
            else:
                v = env.lookup(key[1])
                out[key] = v.copy() if isinstance(v, Arr) else v
        else:
            o, _orig = saved[key]
            v = o.fields[key[2]]
            out[key] = v.copy() if isinstance(v, Arr) else v
    return out


def _ite_value(c, a, b, what):
    if isinstance(a, Arr) and isinstance(b, Arr):
        if a.ndim != b.ndim or not all(A.dim_eq(x, y) for x, y in zip(a.shape, b.shape)):
            raise ModelError("branches of a summarised loop give '%s' different shapes" % what)
        af, bf = a.fn, b.fn
        return Arr(a.shape, lambda *idx: T.mk_ite(c, P(af(*idx)), P(bf(*idx))), a.dtype if a.dtype == b.dtype else "real", a.kind)
    if isinstance(a, (Poly, int, float)) and isinstance(b, (Poly, int, float)) and not isinstance(a, bool) and not isinstance(b, bool):
        return T.mk_ite(c, P(a), P(b))
    if a is b:
        return a
    raise ModelError("branches of a summarised loop give '%s' values that cannot be merged" % what)


def _run_body_merging(I, body, env, ph, saved, ph_names, pathlen):
    """execute the loop body once per data-dependent path (if / else on a condition of the loop index), every path from
    the same placeholder state, and merge the written locations with if-then-else terms"""
    outer = (I.decisions, I.pos)
    base_path, base_assumed = list(I.path), set(I.assumed)
    local = []
    results = []
    try:
        while True:
            I.decisions, I.pos = local, 0
            I.path, I.assumed = list(base_path), set(base_assumed)
            _install(env, ph, saved)
            try:
                I.exec_block(body, env)
            except T_Continue:
                pass
            except T_Break:
                raise ModelError("break inside a summarised loop")
            conds = list(I.path[pathlen:])
            if len(results) >= 8:
                raise ModelError("too many data-dependent paths inside a summarised loop")
            for c in conds:
                if any(mentions(C(c), pn) for pn in ph_names):
                    raise ModelError("branch condition of a summarised loop depends on loop-carried state")
            results.append((conds, _capture(env, ph, saved)))
            d = local[:I.pos]
            while d and d[-1] is False:
                d.pop()
            if not d:
                break
            d[-1] = False
            local = d
    finally:
        I.decisions, I.pos = outer
        I.path, I.assumed = base_path, base_assumed
    if len(results) == 1:
        # a single path: the state left by the run is the result (nothing to merge)
        return
    # merge, last path as the default
    merged = results[-1][1]
    for conds, state in reversed(results[:-1]):
        c = T.c_and(*[C(x) for x in conds]) if conds else T.TRUE
        new = {}
        for key in state:
            a, b = state[key], merged[key]
            if isinstance(a, list) or isinstance(b, list):
                if not (isinstance(a, list) and isinstance(b, list) and len(a) == len(b)):
                    raise ModelError("branches of a summarised loop append a different number of items")
                new[key] = [_ite_value(c, x, y, str(key)) for x, y in zip(a, b)]
            else:
                new[key] = _ite_value(c, a, b, str(key))
        merged = new
    # write the merged state back
    for key, (p, pname) in ph.items():
        v = merged[key]
        if key[0] == "n":
            if isinstance(p, LoopList):
                p.appended[:] = v
                set_name(env, key[1], p)
            else:
                set_name(env, key[1], v)
        else:
            o, _orig = saved[key]
            o.fields[key[2]] = v


def _summarise_all(I, s, env, ph, saved, i, iname, n, names):
    guard = GUARD[0]
    for key, (p, pname) in ph.items():
        if key[0] == "n":
            nm = key[1]
            orig = saved[key]
            out = env.lookup(nm)
            if isinstance(p, LoopList):
                if out is not p:
                    raise ModelError("list '%s' is rebound inside the loop" % nm)
                if len(p.appended) != 1:
                    raise ModelError("list '%s': %d appends per iteration" % (nm, len(p.appended)))
                val = p.appended[0]
                base_len = P(len(orig)) if isinstance(orig, list) else orig.length
                origl = orig

                def elem_fn(j, val=val, base_len=base_len, origl=origl):
                    if not base_len.is_zero():
                        raise ModelError("append to a non-empty list in a summarised loop")
                    return subst_value(val, {iname: P(j)})
                if guard is not None:
                    if not base_len.is_zero():
                        raise ModelError("append to a non-empty list in a loop over a selection")
                    set_name(env, nm, SList(n, elem_fn, filt=guard, base_len=n))
                else:
                    set_name(env, nm, SList(base_len + n, elem_fn))
                continue
            if isinstance(p, Arr):
                res = summarise_arr(orig, p, pname, out, i, iname, n, nm)
                if res is not orig and isinstance(orig, Arr) and res.ndim == orig.ndim and all(A.dim_eq(x, y) for x, y in zip(res.shape, orig.shape)) \
                        and nm in inplace_names(s.body):
                    orig.assign_from(res)       # accumulated in place: the object the caller may alias is updated
                    res = orig
                set_name(env, nm, res)
            else:
                if isinstance(out, Arr):
                    # acc = 0; acc += array_i   -- a broadcast scalar start
                    set_name(env, nm, summarise_scalar_to_arr(orig, p, pname, out, i, iname, n, nm))
                else:
                    set_name(env, nm, summarise_scalar(orig, p, pname, out, i, iname, n, nm))
        else:
            _, oid, fld = key
            o, orig = saved[key]
            out = o.fields[fld]
            if isinstance(p, Arr):
                o.fields[fld] = summarise_arr(orig, p, pname, out, i, iname, n, "%s.%s" % (o, fld))
            else:
                o.fields[fld] = summarise_scalar(orig, p, pname, out, i, iname, n, "%s.%s" % (o, fld))
    # temporaries assigned in the body keep the last iteration's value
    for nm in names:
        if ("n", nm) in ph:
            continue
        if nm in env.local:
            try:
                env.local[nm] = subst_value(env.local[nm], {iname: n - 1})
            except ModelError:
                env.local.pop(nm, None)


def set_name(env, nm, v):
    e = env
    while e is not None:
        if nm in e.local:
            e.local[nm] = v
            return
        e = e.parent
    env.local[nm] = v


def subst_value(v, mp):
    if isinstance(v, (Poly, Cond)):
        return T.subst(v, mp)
    if isinstance(v, Arr):
        mask = None
        if v.mask is not None:
            mf = v.mask[1]
            mask = (v.mask[0], (lambda k, mf=mf: T.subst(mf(k), mp)), T.subst(v.mask[2], mp))
        return Arr(tuple(T.subst(d, mp) for d in v.shape),
                   lambda *idx, v=v: T.subst(v.fn(*idx), mp), v.dtype, v.kind, mask)
    if isinstance(v, tuple):
        return tuple(subst_value(x, mp) for x in v)
    if isinstance(v, list):
        return [subst_value(x, mp) for x in v]
    if isinstance(v, SList):
        return SList(T.subst(v.length, mp), lambda j, v=v: subst_value(v.elem(j), mp))
    if isinstance(v, Obj):
        o = Obj(v.cls)
        o.fields = {k: subst_value(x, mp) for k, x in v.fields.items()}
        return o
    if isinstance(v, Delayed):
        d = Delayed(v.func, subst_value(tuple(v.args), mp), {k: subst_value(x, mp) for k, x in v.kwargs.items()})
        return d
    return v


def exec_while(I, s, env):
    f = getattr(env, "func", None)
    key = (f.qualname if f else "?", "while", env.loop_ordinal if hasattr(env, "loop_ordinal") else 0)
    if hasattr(env, "loop_ordinal"):
        env.loop_ordinal += 1
    hook = I.loop_hooks.get(key[0])
    if hook is not None:
        return hook(I, s, env)
    # concrete execution (terminates only when the guard becomes concretely false)
    count = 0
    while True:
        t = I.ev(s.test, env)
        if isinstance(t, (Cond, Poly)) and C(t).const() is None:
            raise ModelError("while loop with a symbolic guard and no invariant (%s)" % key[0])
        if not I.truth(t):
            I.exec_block(s.orelse, env)
            return
        count += 1
        if count > 64:
            raise ModelError("while loop does not terminate concretely")
        try:
            I.exec_block(s.body, env)
        except T_Break:
            return
        except T_Continue:
            continue


def fold_objects(I, xs, start, inplace):
    """start (+)= xs[0] (+)= xs[1] ...  for statistics objects: the object's own
    __iadd__/__add__ body is executed once on (placeholder accumulator, xs[i])
    and each field is summarised with the additive rule."""
    if not isinstance(start, Obj):
        raise ModelError("fold of objects from a non-object start")
    n = xs.slen()
    i = T.fresh("i")
    iname = T.symname(i)
    acc = start if inplace else Obj(start.cls, dict(start.fields))
    # placeholders for every array/scalar field
    ph = {}
    saved = dict(acc.fields)
    probe = xs.elem(i)
    invariant = {}
    for fld, v in list(acc.fields.items()):
        if isinstance(v, Poly) and isinstance(probe, Obj) and isinstance(probe.fields.get(fld), Poly) \
                and T.equal(v, probe.fields[fld]) and iname not in v.syms:
            invariant[fld] = v      # e.g. shape fields: equal in the accumulator and in every element
            continue
        p, pname = placeholder_like(v, "acc.%s#%d" % (fld, acc.oid))
        if p is not None and not isinstance(v, bool):
            ph[fld] = (p, pname)
            acc.fields[fld] = p.view() if isinstance(p, Arr) else p
    I.assumed.add(T.cmp_cond("<=", ZERO, i))
    I.assumed.add(T.cmp_cond("<", i, n))
    pathlen = len(I.path)
    el = probe
    res = I.binop(ast.Add, acc, el, inplace=inplace)
    if len(I.path) != pathlen:
        # shape test of the elements against the accumulator: evaluate it once
        pass
    if not isinstance(res, Obj):
        raise ModelError("object addition returned a non-object")
    out = res
    final = acc if inplace else Obj(start.cls, dict(saved))
    for fld, v in invariant.items():
        if not (isinstance(out.fields.get(fld), Poly) and T.equal(out.fields[fld], v)):
            raise ModelError("field %s is not preserved by the object addition" % fld)
    for fld, v in out.fields.items():
        if fld in ph:
            p, pname = ph[fld]
            orig = saved[fld]
            if isinstance(p, Arr):
                final.fields[fld] = summarise_arr(orig, p, pname, v, i, iname, n, fld)
            else:
                final.fields[fld] = summarise_scalar(orig, p, pname, v, i, iname, n, fld)
        else:
            final.fields[fld] = saved.get(fld, v)
    if inplace and res is not acc:
        raise ModelError("__iadd__ did not return self")
    return final
