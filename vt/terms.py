"""Term language of the VC generator (pure stdlib, runs under both interpreters).

A *Poly* is a Laurent polynomial with rational coefficients over *atoms*.
Atoms are free symbols, bound variables, uninterpreted applications (array
elements ``A[i,j]``), binders (``sum`` / ``argmin`` / ``minred`` / ``maxred`` /
``lam``), ``exp``, ``log``, reciprocals of non-monomial polynomials, ``ite``,
``max``/``min``, ``abs`` and 0/1 indicators of conditions.

Binders are locally nameless with *height* canonicalisation: the variable
bound by a binder atom is ``BV(h)`` where ``h`` is the maximal height of the
binder atoms inside its body (and bound); open variables are ordinary symbols.
Two alpha-equivalent closed terms therefore have identical keys.
"""
from fractions import Fraction
import itertools
import math

BINDERS = ("sum", "argmin", "argmax", "minred", "maxred", "lam")

_intern = {}
_fresh = itertools.count()

# side conditions emitted by rewriting rules (positivity for log-splitting,
# non-zero for reciprocal) -- the engine installs a list here
SIDE = None


FP_RAISE = [0]     # > 0 inside `with np.errstate(divide/invalid/all="raise")`: every division / log is evaluated eagerly and must be defined


def side(kind, what, why=""):
    if SIDE is not None:
        SIDE.add(kind, what, ("[fp-raise] " + why) if FP_RAISE[0] and kind in ("pos", "nonzero") else why)


class SideLog:
    """collects definedness side conditions together with the context
    (location, path/loop-index assumptions) in which they were emitted"""

    def __init__(self, ctx=None):
        self.items = []
        self.ctx = ctx
        self.seen = set()

    def add(self, kind, what, why):
        loc, assumed = self.ctx() if self.ctx else ("?", ())
        k = (kind, _k(what) if not isinstance(what, tuple) else tuple(_k(w) for w in what), loc)
        if k in self.seen:
            return
        self.seen.add(k)
        self.items.append((kind, what, why, loc, tuple(assumed)))


class Atom:
    __slots__ = ("kind", "args", "sort", "key", "_hash", "height", "syms", "hasbv", "size")

    def __new__(cls, kind, args, sort="real"):
        key = (kind, sort) + tuple(_k(a) for a in args)
        a = _intern.get(key)
        if a is not None:
            return a
        a = object.__new__(cls)
        a.kind, a.args, a.sort, a.key = kind, tuple(args), sort, key
        a._hash = hash(key)
        h = 0
        syms = frozenset()
        hasbv = kind == "bv"
        a.size = 1 + sum(getattr(x, "size", 0) for x in args)
        for x in args:
            if isinstance(x, (Poly, Cond, Atom)):
                h = max(h, x.height)
                syms = syms | x.syms
                hasbv = hasbv or x.hasbv
        if kind in BINDERS:
            h += 1
        if kind == "sym":
            syms = frozenset([args[0]])
        a.height, a.syms, a.hasbv = h, syms, hasbv
        _intern[key] = a
        return a

    def __hash__(self):
        return self._hash

    def __eq__(self, o):
        return self is o

    def __repr__(self):
        return show_atom(self)


def _k(a):
    if isinstance(a, (Poly, Cond, Atom)):
        return a.key
    if isinstance(a, Fraction):
        return (a.numerator, a.denominator)
    return a


def _mono_key(m):
    return tuple((a.key, p) for a, p in m)


class Poly:
    __slots__ = ("terms", "key", "_hash", "height", "syms", "hasbv", "size")

    def __init__(self, d):
        items = [(m, c) for m, c in d.items() if c != 0]
        items.sort(key=lambda mc: _mono_key(mc[0]))
        self.terms = tuple(items)
        self.key = tuple((_mono_key(m), (c.numerator, c.denominator)) for m, c in items)
        self._hash = hash(self.key)
        h = 0
        syms = frozenset()
        hasbv = False
        for m, _ in items:
            for a, _p in m:
                if a.height > h:
                    h = a.height
                syms = syms | a.syms
                hasbv = hasbv or a.hasbv
        self.height, self.syms, self.hasbv = h, syms, hasbv
        self.size = sum(1 + sum(a.size for a, _p in m) for m, _ in items)

    # ---- constructors
    @staticmethod
    def const(c):
        c = to_frac(c)
        return Poly({(): c}) if c != 0 else ZERO

    @staticmethod
    def atom(a, p=1):
        return Poly({((a, p),): Fraction(1)})

    # ---- queries
    def is_const(self):
        return len(self.terms) == 0 or (len(self.terms) == 1 and self.terms[0][0] == ())

    def const_value(self):
        if not self.terms:
            return Fraction(0)
        assert self.is_const()
        return self.terms[0][1]

    def is_zero(self):
        return not self.terms

    def is_monomial(self):
        return len(self.terms) == 1

    def as_int(self):
        if self.is_const():
            c = self.const_value()
            if c.denominator == 1:
                return int(c)
        return None

    def atoms(self):
        s = set()
        for m, _ in self.terms:
            for a, _p in m:
                s.add(a)
        return s

    def __hash__(self):
        return self._hash

    def __eq__(self, o):
        if isinstance(o, Poly):
            return self.key == o.key
        if isinstance(o, (int, Fraction)):
            return self.is_const() and self.const_value() == o
        return NotImplemented

    def __ne__(self, o):
        r = self.__eq__(o)
        return r if r is NotImplemented else not r

    # ---- ring operations
    def __add__(self, o):
        o = P(o)
        if o is NotImplemented:
            return o
        d = dict(self.terms)
        for m, c in o.terms:
            d[m] = d.get(m, 0) + c
        return Poly(d)

    __radd__ = __add__

    def __neg__(self):
        return Poly({m: -c for m, c in self.terms})

    def __sub__(self, o):
        o = P(o)
        if o is NotImplemented:
            return o
        return self + (-o)

    def __rsub__(self, o):
        return P(o) + (-self)

    def __mul__(self, o):
        o = P(o)
        if o is NotImplemented:
            return o
        if not self.terms or not o.terms:
            return ZERO
        d = {}
        for m1, c1 in self.terms:
            for m2, c2 in o.terms:
                m = mono_mul(m1, m2)
                d[m] = d.get(m, 0) + c1 * c2
        return Poly(d)

    __rmul__ = __mul__

    def __truediv__(self, o):
        o = P(o)
        if o is NotImplemented:
            return o
        return self * recip(o)

    def __rtruediv__(self, o):
        return P(o) * recip(self)

    def __pow__(self, n):
        if isinstance(n, Poly):
            n = n.as_int() if n.as_int() is not None else n.const_value() if n.is_const() else n
        if isinstance(n, float) and n == int(n):
            n = int(n)
        if isinstance(n, Fraction) and n.denominator == 1:
            n = int(n)
        if isinstance(n, int):
            if n == 0:
                return ONE
            if n < 0:
                return recip(self) ** (-n)
            r = ONE
            b = self
            while n:
                if n & 1:
                    r = r * b
                b = b * b if n > 1 else b
                n >>= 1
            return r
        if n == Fraction(1, 2) or n == 0.5:
            return mk_sqrt(self)
        raise TypeError("unsupported power %r" % (n,))

    # numpy object-array ufunc hooks (Tier B)
    def log(self):
        return mk_log(self)

    def exp(self):
        return mk_exp(self)

    def sqrt(self):
        return mk_sqrt(self)

    def __abs__(self):
        return mk_abs(self)

    def __repr__(self):
        return show(self)

    # comparisons build conditions
    def __lt__(self, o):
        return cmp_cond("<", self, P(o))

    def __le__(self, o):
        return cmp_cond("<=", self, P(o))

    def __gt__(self, o):
        return cmp_cond("<", P(o), self)

    def __ge__(self, o):
        return cmp_cond("<=", P(o), self)

    def __bool__(self):
        if self.is_const():
            return self.const_value() != 0
        raise TypeError("truth value of a symbolic term")

    def __float__(self):
        if self.is_const():
            return float(self.const_value())
        raise TypeError("symbolic term is not a float")

    def __int__(self):
        v = self.as_int()
        if v is None:
            raise TypeError("symbolic term is not an int")
        return v

    __index__ = __int__


def to_frac(c):
    if isinstance(c, Fraction):
        return c
    if isinstance(c, bool):
        return Fraction(int(c))
    if isinstance(c, int):
        return Fraction(c)
    if isinstance(c, float):
        if math.isinf(c) or math.isnan(c):
            raise ValueError("non-finite constant")
        return Fraction(c)
    try:  # numpy scalars
        return Fraction(c.item())
    except Exception:
        raise TypeError("not a constant: %r" % (c,))


def P(x):
    if isinstance(x, Poly):
        return x
    if isinstance(x, (int, float, Fraction)):
        return Poly.const(x)
    if isinstance(x, Atom):
        return Poly.atom(x)
    if hasattr(x, "item") and getattr(x, "shape", None) == ():
        return Poly.const(x.item())
    return NotImplemented


def mono_mul(m1, m2):
    if not m1:
        return m2
    if not m2:
        return m1
    d = dict(m1)
    for a, p in m2:
        d[a] = d.get(a, 0) + p
    out = []
    for a, p in d.items():
        if p == 0:
            continue
        if a.kind == "ind" and p > 1:
            p = 1
        out.append((a, p))
    out.sort(key=lambda ap: ap[0].key)
    return tuple(out)


ZERO = Poly({})
ONE = Poly({(): Fraction(1)})


def sym(name, sort="real"):
    return Poly.atom(Atom("sym", (name,), sort))


def fresh(prefix="k", sort="int"):
    return sym("%s#%d" % (prefix, next(_fresh)), sort)


def symname(p):
    """name of a Poly that is a bare symbol, else None"""
    if len(p.terms) == 1:
        m, c = p.terms[0]
        if c == 1 and len(m) == 1 and m[0][1] == 1 and m[0][0].kind == "sym":
            return m[0][0].args[0]
    return None


def app(fname, *args, sort="real"):
    return Poly.atom(Atom("app", (fname,) + tuple(P(a) for a in args), sort))


def bv(h, sort="int"):
    return Poly.atom(Atom("bv", (h,), sort))


# ---------------------------------------------------------------- conditions
class Cond:
    """kind: 'true' | 'false' | 'cmp' (op in '>0','>=0','==0','!=0', poly) |
    'and' | 'or' | 'not'"""
    __slots__ = ("kind", "args", "key", "_hash", "height", "syms", "hasbv", "size")

    def __init__(self, kind, args):
        self.kind, self.args = kind, tuple(args)
        self.key = ("cond", kind) + tuple(_k(a) for a in args)
        self._hash = hash(self.key)
        h = 0
        syms = frozenset()
        hasbv = False
        for a in args:
            if isinstance(a, (Poly, Cond)):
                h = max(h, a.height)
                syms |= a.syms
                hasbv = hasbv or a.hasbv
        self.height, self.syms, self.hasbv = h, syms, hasbv
        self.size = 1 + sum(getattr(a, "size", 0) for a in args)

    def __hash__(self):
        return self._hash

    def __eq__(self, o):
        return isinstance(o, Cond) and self.key == o.key

    def __and__(self, o):
        return c_and(self, C(o))

    __rand__ = __and__

    def __or__(self, o):
        return c_or(self, C(o))

    __ror__ = __or__

    def __invert__(self):
        return c_not(self)

    def const(self):
        if self.kind == "true":
            return True
        if self.kind == "false":
            return False
        return None

    def __bool__(self):
        v = self.const()
        if v is None:
            raise TypeError("truth value of a symbolic condition")
        return v

    def __repr__(self):
        return show_cond(self)


TRUE = Cond("true", ())
FALSE = Cond("false", ())


def C(x):
    if isinstance(x, Cond):
        return x
    if isinstance(x, bool):
        return TRUE if x else FALSE
    if isinstance(x, Poly):
        if x.is_const():
            return TRUE if x.const_value() != 0 else FALSE
        return cmp_cond("!=", x, ZERO)
    raise TypeError("not a condition: %r" % (x,))


def _lead_positive(p):
    if p.terms and p.terms[0][1] < 0:
        return -p
    return p


def cmp_cond(op, a, b):
    """a op b with op in < <= == != > >="""
    a, b = P(a), P(b)
    if op == ">":
        return cmp_cond("<", b, a)
    if op == ">=":
        return cmp_cond("<=", b, a)
    d = b - a  # a < b  <=>  d > 0
    if op in ("==", "!="):
        d = simplify_eq_diff(d)
    if d.is_const():
        v = d.const_value()
        r = {"<": v > 0, "<=": v >= 0, "==": v == 0, "!=": v != 0}[op]
        return TRUE if r else FALSE
    if op == "<":
        return Cond("cmp", (">0", d))
    if op == "<=":
        return Cond("cmp", (">=0", d))
    d = _lead_positive(d)
    return Cond("cmp", ("==0" if op == "==" else "!=0", d))


def simplify_eq_diff(d):
    return d


def c_not(c):
    if c.kind == "true":
        return FALSE
    if c.kind == "false":
        return TRUE
    if c.kind == "not":
        return c.args[0]
    if c.kind == "cmp":
        op, p = c.args
        if op == ">0":
            return Cond("cmp", (">=0", -p))
        if op == ">=0":
            return Cond("cmp", (">0", -p))
        if op == "==0":
            return Cond("cmp", ("!=0", p))
        if op == "!=0":
            return Cond("cmp", ("==0", p))
    return Cond("not", (c,))


def c_and(*cs):
    out = []
    for c in cs:
        c = C(c)
        if c.kind == "false":
            return FALSE
        if c.kind == "true":
            continue
        if c.kind == "and":
            out.extend(c.args)
        else:
            out.append(c)
    uniq = sorted(set(out), key=lambda c: c.key)
    if not uniq:
        return TRUE
    if len(uniq) == 1:
        return uniq[0]
    return Cond("and", uniq)


def c_or(*cs):
    out = []
    for c in cs:
        c = C(c)
        if c.kind == "true":
            return TRUE
        if c.kind == "false":
            continue
        if c.kind == "or":
            out.extend(c.args)
        else:
            out.append(c)
    uniq = sorted(set(out), key=lambda c: c.key)
    if not uniq:
        return FALSE
    if len(uniq) == 1:
        return uniq[0]
    return Cond("or", uniq)


# ---------------------------------------------------------------- substitution
def subst(x, mp):
    """substitute free symbols (by name) with Polys; capture-free because
    binders are re-closed."""
    if not mp:
        return x
    names = frozenset(mp)
    return _subst(x, mp, names)


def _subst(x, mp, names):
    if isinstance(x, Poly):
        if not (x.syms & names):
            return x
        ck = (x.key, tuple(sorted((n_, mp[n_].key) for n_ in (x.syms & names))))
        r = _subst_cache.get(ck)
        if r is not None:
            return r
        acc = {}
        for m, c in x.terms:
            keep = []
            t = None
            for a, p in m:
                if a.syms & names:
                    f = _subst_atom(a, mp, names)
                    f = f ** p if p != 1 else f
                    t = f if t is None else t * f
                else:
                    keep.append((a, p))
            km = tuple(keep)
            if t is None:
                acc[km] = acc.get(km, 0) + c
            else:
                for m2, c2 in t.terms:
                    mm = mono_mul(km, m2)
                    acc[mm] = acc.get(mm, 0) + c * c2
        out = Poly(acc)
        if len(_subst_cache) > 200000:
            _subst_cache.clear()
        _subst_cache[ck] = out
        return out
    if isinstance(x, Cond):
        if not (x.syms & names):
            return x
        return rebuild_cond(x, lambda q: _subst(q, mp, names))
    return x


_subst_cache = {}
_open_cache = {}
_close_cache = {}


def rebuild_cond(c, f):
    if c.kind == "cmp":
        op, p = c.args
        q = f(p)
        return {">0": lambda: cmp_cond("<", ZERO, q),
                ">=0": lambda: cmp_cond("<=", ZERO, q),
                "==0": lambda: cmp_cond("==", q, ZERO),
                "!=0": lambda: cmp_cond("!=", q, ZERO)}[op]()
    if c.kind == "and":
        return c_and(*[rebuild_cond(a, f) for a in c.args])
    if c.kind == "or":
        return c_or(*[rebuild_cond(a, f) for a in c.args])
    if c.kind == "not":
        return c_not(rebuild_cond(c.args[0], f))
    return c


def _subst_atom(a, mp, names):
    k = a.kind
    if k == "sym":
        return mp[a.args[0]]
    if k in BINDERS:
        v, bound, body = open_binder(a)
        nb = _subst(bound, mp, names) if bound is not None else None
        nbody = _subst(body, mp, names)
        return close_binder(k, v, nb, nbody, a.sort)
    return rebuild_atom(a, lambda q: _subst(q, mp, names))


def reduce_rcp(x, depth=0):
    """canonical form modulo  q * rcp(q) = 1 : for every reciprocal atom R = rcp(q), q = c1 m1 + ... , every monomial divisible by
    m_lead * R is rewritten with  m_lead * R = (1 - (q - c_lead m_lead) R) / c_lead  (m_lead: the largest non-constant monomial
    of q).  n*rcp(n+r) and 1 - r*rcp(n+r) thereby get the same normal form.  Applied inside log / max / ite / binder bodies too.
    (q != 0 is the definedness side condition of the rcp atom, recorded where it was created.)"""
    if isinstance(x, Cond):
        return rebuild_cond(x, lambda q: reduce_rcp(q, depth + 1)) if depth < 6 else x
    if not isinstance(x, Poly) or depth > 6:
        return x
    # inside the atoms first
    acc = ZERO
    for m, c in x.terms:
        t = Poly.const(c)
        for a, pw in m:
            if a.kind in ("sym", "bv") or not any(isinstance(q, (Poly, Cond)) for q in a.args):
                r = Poly.atom(a, 1)
            elif a.kind in BINDERS:
                v, bound, body = open_binder(a)
                nb = reduce_rcp(bound, depth + 1) if bound is not None else None
                nbody = reduce_rcp(body, depth + 1)
                r = Poly.atom(a, 1) if (nbody is body and nb is bound) else close_binder(a.kind, v, nb, nbody, a.sort)
            elif a.kind == "rcp":
                na = reduce_rcp(a.args[0], depth + 1)
                r = Poly.atom(a, 1) if na is a.args[0] or equal(na, a.args[0]) else recip(na)
            elif a.kind == "log":
                # log of a rational expression: put it over its denominators first, log(N * rcp(q)^k) = log N - k log q
                A_ = reduce_rcp(a.args[0], depth + 1)
                r = ZERO
                for _i in range(4):
                    rs = sorted((b for b in A_.atoms() if b.kind == "rcp" and any(dict(m).get(b, 0) > 0 for m, _c in A_.terms)), key=lambda b: b.key)
                    if not rs:
                        break
                    R_ = rs[0]
                    q_ = P(R_.args[0])
                    k_ = max(dict(m).get(R_, 0) for m, _c in A_.terms)
                    num = ZERO
                    for m, c in A_.terms:
                        d = dict(m)
                        j_ = d.pop(R_, 0)
                        if j_ < 0:
                            num = None
                            break
                        rest = Poly.const(c)
                        for b, pw2 in d.items():
                            rest = rest * Poly.atom(b, pw2)
                        num = num + rest * (q_ ** (k_ - j_))
                    if num is None:
                        break
                    r = r - mk_log(q_) * k_
                    A_ = num
                r = r + mk_log(A_)
            else:
                try:
                    r = rebuild_atom(a, lambda q: reduce_rcp(q, depth + 1))
                except TypeError:
                    r = Poly.atom(a, 1)
            t = t * (r ** pw if pw != 1 else r)
        acc = acc + t
    p = acc
    for _ in range(12):
        changed = False
        for R in sorted((a for a in p.atoms() if a.kind == "rcp"), key=lambda a: a.key):
            q = P(R.args[0])
            cand = [(m, c) for m, c in q.terms if m and all(pw > 0 for _a, pw in m)]
            if len(q.terms) < 2 or not cand:
                continue
            # prefer a monomial that varies with an enclosing index (bound variable / array element) over a free symbol: a free
            # symbol factor is pulled out of sums by linearity and would hide the match
            lead_m, lead_c = max(cand, key=lambda mc: (any(a.hasbv for a, _p in mc[0]), any(a.kind == "app" for a, _p in mc[0]), _mono_key(mc[0])))
            new, hit = ZERO, False
            repl = (ONE - (q - Poly({lead_m: lead_c})) * Poly.atom(R, 1)) * Poly.const(Fraction(1) / lead_c)
            for m, c in p.terms:
                d = dict(m)
                if d.get(R, 0) >= 1 and all(d.get(a, 0) >= pw for a, pw in lead_m):
                    d[R] -= 1
                    for a, pw in lead_m:
                        d[a] -= pw
                    rest = Poly.const(c)
                    for a, pw in d.items():
                        if pw:
                            rest = rest * Poly.atom(a, pw)
                    new = new + rest * repl
                    hit = True
                else:
                    new = new + Poly({m: c})
            if hit:
                p, changed = new, True
        if not changed:
            break
    return p


def map_apps(x, name, f):
    """replace every application  name[args]  in x (also under binders) by f(*args)"""
    if isinstance(x, Poly):
        if not x.terms:
            return x
        acc = ZERO
        for m, c in x.terms:
            t = Poly.const(c)
            for a, pw in m:
                r = _map_apps_atom(a, name, f)
                t = t * (r ** pw if pw != 1 else r)
            acc = acc + t
        return acc
    if isinstance(x, Cond):
        return rebuild_cond(x, lambda q: map_apps(q, name, f))
    return x


def _map_apps_atom(a, name, f):
    k = a.kind
    if k == "app" and a.args[0] == name:
        return P(f(*[map_apps(q, name, f) if isinstance(q, (Poly, Cond)) else q for q in a.args[1:]]))
    if k in ("sym", "bv"):
        return Poly.atom(a, 1)
    if k in BINDERS:
        v, bound, body = open_binder(a)
        nb = map_apps(bound, name, f) if bound is not None else None
        return close_binder(k, v, nb, map_apps(body, name, f), a.sort)
    return rebuild_atom(a, lambda q: map_apps(q, name, f))


def rebuild_atom(a, f):
    """rebuild a non-binder atom after mapping f over its Poly/Cond args,
    re-applying the smart constructors."""
    k = a.kind
    if k == "app":
        if a.args[0] == "floordiv" and len(a.args) == 3:
            return mk_floordiv(f(a.args[1]), f(a.args[2]))
        if a.args[0] == "mod" and len(a.args) == 3:
            return mk_mod(f(a.args[1]), f(a.args[2]))
        return Poly.atom(Atom("app", (a.args[0],) + tuple(f(x) for x in a.args[1:]), a.sort))
    if k == "exp":
        return mk_exp(f(a.args[0]))
    if k == "log":
        return mk_log(f(a.args[0]))
    if k == "rcp":
        return recip(f(a.args[0]))
    if k == "sqrt":
        return mk_sqrt(f(a.args[0]))
    if k == "abs":
        return mk_abs(f(a.args[0]))
    if k == "max":
        return mk_max(f(a.args[0]), f(a.args[1]))
    if k == "min":
        return mk_min(f(a.args[0]), f(a.args[1]))
    if k == "ite":
        return mk_ite(f(a.args[0]), f(a.args[1]), f(a.args[2]))
    if k == "ind":
        return mk_ind(f(a.args[0]))
    if k in ("sym", "bv"):
        return Poly.atom(a)
    raise TypeError(k)


def _rename(x, leaf):
    """structure-preserving renaming of leaf atoms (sym <-> bv): no re-normalisation, so
    heights and the shape of nested binders are unchanged (only key-dependent orderings
    -- monomials, max/min arguments, orientation of ==/!= -- are redone)"""
    if isinstance(x, Poly):
        acc = {}
        changed = False
        for m, c in x.terms:
            nm = []
            for a, p in m:
                b = _rename_atom(a, leaf)
                if b is not a:
                    changed = True
                nm.append((b, p))
            nm.sort(key=lambda ap: ap[0].key)
            # merge equal atoms (cannot normally happen under an injective renaming)
            mm = []
            for a, p in nm:
                if mm and mm[-1][0] is a:
                    mm[-1] = (a, mm[-1][1] + p)
                else:
                    mm.append((a, p))
            km = tuple(mm)
            acc[km] = acc.get(km, 0) + c
        return Poly(acc) if changed else x
    if isinstance(x, Cond):
        if x.kind == "cmp":
            op, p = x.args
            q = _rename(p, leaf)
            if q is p:
                return x
            if op in ("==0", "!=0"):
                q = _lead_positive(q)
            return Cond("cmp", (op, q))
        if x.kind in ("and", "or"):
            args = [_rename(a, leaf) for a in x.args]
            return Cond(x.kind, sorted(set(args), key=lambda c: c.key))
        if x.kind == "not":
            return Cond("not", (_rename(x.args[0], leaf),))
        return x
    return x


def _rename_atom(a, leaf):
    k = a.kind
    if k in ("sym", "bv"):
        return leaf(a)
    new = tuple(_rename(y, leaf) if isinstance(y, (Poly, Cond)) else y for y in a.args)
    if all(n is o for n, o in zip(new, a.args)):
        return a
    if k in ("max", "min") and new[0].key > new[1].key:
        new = (new[1], new[0])
    return Atom(k, new, a.sort)


def _bvsubst(x, h, repl):
    """replace BV(h) by repl inside x (x is a body of a binder of var index h)."""
    if isinstance(x, Poly):
        if not x.hasbv:
            return x
        acc = {}
        for m, c in x.terms:
            keep = []
            t = None
            for a, p in m:
                if a.hasbv:
                    f = _bvsubst_atom(a, h, repl)
                    f = f ** p if p != 1 else f
                    t = f if t is None else t * f
                else:
                    keep.append((a, p))
            km = tuple(keep)
            if t is None:
                acc[km] = acc.get(km, 0) + c
            else:
                for m2, c2 in t.terms:
                    mm = mono_mul(km, m2)
                    acc[mm] = acc.get(mm, 0) + c * c2
        return Poly(acc)
    if isinstance(x, Cond):
        if not x.hasbv:
            return x
        return rebuild_cond(x, lambda q: _bvsubst(q, h, repl))
    return x


def _bvsubst_atom(a, h, repl):
    k = a.kind
    if k == "bv":
        return repl if a.args[0] == h else Poly.atom(a)
    if k in BINDERS:
        if a.height <= h:
            # cannot contain BV(h) bound by us?  it can (free occurrence), since
            # inner binders have smaller height than the binder of BV(h).
            pass
        v, bound, body = open_binder(a)
        nb = _bvsubst(bound, h, repl) if bound is not None else None
        nbody = _bvsubst(body, h, repl)
        return close_binder(k, v, nb, nbody, a.sort)
    return rebuild_atom(a, lambda q: _bvsubst(q, h, repl))


def open_binder(a):
    """returns (fresh symbol Poly, bound, body) with the bound variable opened"""
    assert a.kind in BINDERS
    r = _open_cache.get(a)
    if r is not None:
        return r
    bound, body = (a.args[0], a.args[1]) if a.kind != "lam" else (None, a.args[0])
    h = a.height - 1
    v = fresh("b")
    va = v.terms[0][0][0][0]
    nbody = _rename(body, lambda at: va if (at.kind == "bv" and at.args[0] == h) else at)
    if len(_open_cache) > 100000:
        _open_cache.clear()
    _open_cache[a] = (v, bound, nbody)
    return v, bound, nbody


def close_raw(kind, v, bound, body, sort="real"):
    """build the binder atom (no simplification); v is a symbol Poly."""
    name = symname(v)
    ck = (kind, name, bound.key if bound is not None else None, body.key, sort)
    r = _close_cache.get(ck)
    if r is not None:
        return r
    h = max(body.height, bound.height if bound is not None else 0)
    ba = bv(h).terms[0][0][0][0]
    cbody = _rename(body, lambda at: ba if (at.kind == "sym" and at.args[0] == name) else at)
    if kind == "lam":
        r = Poly.atom(Atom("lam", (cbody,), sort))
    else:
        r = Poly.atom(Atom(kind, (bound, cbody), sort))
    if len(_close_cache) > 200000:
        _close_cache.clear()
    _close_cache[ck] = r
    return r


def close_binder(kind, v, bound, body, sort="real"):
    if kind == "sum":
        return mk_sum(v, bound, body)
    if kind in ("minred", "maxred", "argmin", "argmax"):
        return mk_red(kind, v, bound, body)
    return close_raw(kind, v, bound, body, sort)


def instantiate(a, t):
    """body of binder atom a with its variable replaced by t"""
    body = a.args[1] if a.kind != "lam" else a.args[0]
    return _bvsubst(body, a.height - 1, P(t))


# ---------------------------------------------------------------- smart constructors
def split_mono(m, name):
    """split monomial into (part free of sym name, part depending on it)"""
    inn, out = [], []
    for a, p in m:
        (inn if name in a.syms else out).append((a, p))
    return tuple(out), tuple(inn)


def mk_sum(v, bound, body):
    """Σ_{v<bound} body  (v: symbol Poly).  Linearity, constant bodies,
    Kronecker-delta elimination, flattening of nested sums into one
    multi-index sum with a canonical variable order."""
    name = symname(v)
    bound = P(bound)
    body = P(body)
    assert name is not None
    if name not in body.syms:
        return bound * body
    # range shift: Σ_{i<B-1} g(i+1) = Σ_{h<B} g(h) - g(0)   (B >= 1; applied when it simplifies the indices)
    cst = dict(bound.terms).get((), Fraction(0))
    if cst == -1 and not bound.is_const():
        hv = fresh("k")
        shifted = subst(body, {name: hv - 1})
        if shifted.size < body.size:
            if name in VARBOUND:
                VARBOUND[symname(hv)] = bound + 1
            return mk_sum(hv, bound + 1, shifted) - subst(shifted, {symname(hv): ZERO})
    nb = bound.as_int()
    if nb is not None and (nb <= CONCRETE_UNROLL or nb <= 1):     # a one-element (or empty) axis is always written out
        out = ZERO
        for i in range(nb):
            out = out + subst(body, {name: Poly.const(i)})
        return out
    out = ZERO
    for m, c in body.terms:
        out = out + _multi_sum([(v, bound)], m) * c
    return out


PARTITIONS = {}   # tag -> (number of blocks, total length): consecutive blocks of an axis


def new_partition(total, prefix="blk"):
    """a fresh, arbitrary partition of range(total) into consecutive blocks;
    returns (tag, nblocks, size(b), offset(b))"""
    tag = "%s%d" % (prefix, next(_fresh))
    nb = sym("B_" + tag, "int")
    PARTITIONS[tag] = (nb, P(total))
    return tag, nb, (lambda b: app("csz:" + tag, b, sort="int")), (lambda b: app("coff:" + tag, b, sort="int"))


CONCRETE_UNROLL = 0  # Tier-A keeps even concrete bounds symbolic unless set


def _count_sums(a):
    """number of summation binders in a sum atom (itself and those nested in its body)"""
    n = 1
    for m, _c in a.args[1].terms:
        for b, _p in m:
            if b.kind == "sum":
                n += _count_sums(b)
    return n


def _multi_sum(vars_, mono):
    """Σ over all (v,bound) in vars_ of the monomial mono (coefficient 1)."""
    vars_ = list(vars_)
    names = [symname(v) for v, _ in vars_]
    # (a) flatten a nested sum that depends on our variables -- only when it is the single such
    #     factor: a product of several dependent sums is kept as a product of (canonical) atoms,
    #     otherwise the merged index set grows beyond what can be ordered canonically
    dep_sums = [a for a, p in mono if a.kind == "sum" and (a.syms & frozenset(names))]
    small = len(dep_sums) == 1 or (all(p == 1 for a, p in mono if a.kind == "sum" and (a.syms & frozenset(names)))
                                   and len(vars_) + sum(_count_sums(a) for a in dep_sums) <= 4)
    for a, p in mono:
        if a.kind == "sum" and p == 1 and (a.syms & frozenset(names)) and small:
            w, wb, wbody = open_binder(a)
            rest = Poly({tuple(x for x in mono if x[0] is not a): Fraction(1)})
            newbody = rest * wbody
            out = ZERO
            for m2, c2 in newbody.terms:
                out = out + _multi_sum(vars_ + [(w, wb)], m2) * c2
            return out
    # (a') partition collapse: Σ_b Σ_{j<size(b)} f(off(b)+j) = Σ_{s<total} f(s)
    for (vj, bj), nj in zip(vars_, names):
        if not (bj.is_monomial() and len(bj.terms[0][0]) == 1 and bj.terms[0][1] == 1):
            continue
        at, pw = bj.terms[0][0][0]
        if pw != 1 or at.kind != "app" or not str(at.args[0]).startswith("csz:"):
            continue
        tag = at.args[0][4:]
        nb = symname(at.args[1])
        if nb is None or nb not in names or tag not in PARTITIONS:
            continue
        nblocks, total = PARTITIONS[tag]
        vb, bb = vars_[names.index(nb)]
        if not equal(bb, nblocks):
            continue
        sv = fresh("s")
        off = app("coff:" + tag, vb, sort="int")
        m2 = subst(Poly({mono: Fraction(1)}), {nj: sv - off})
        if nb in m2.syms:
            continue
        others = [(v, b) for (v, b), n in zip(vars_, names) if n not in (nj, nb)]
        if any(nb in b.syms or nj in b.syms for _, b in others):
            continue
        out = ZERO
        for m3, c3 in m2.terms:
            out = out + _multi_sum(others + [(sv, total)], m3) * c3
        return out
    # (a'') a variable that occurs nowhere but whose bound depends on another variable:
    #       Σ_b Σ_{j<size(b)} t(b) = Σ_b size(b) t(b)
    nameset = frozenset(names)
    for (v, b), n in zip(vars_, names):
        if (b.syms & nameset) and not any(n in a.syms for a, _p in mono) \
                and not any(n in b2.syms for (_v2, b2) in vars_):
            others = [(v2, b2) for (v2, b2), n2 in zip(vars_, names) if n2 != n]
            out = ZERO
            for m3, c3 in (Poly({mono: Fraction(1)}) * b).terms:
                out = out + _multi_sum(others, m3) * c3
            return out
    # (b) variables that do not occur; factors independent of every variable
    nameset = frozenset(names)
    used = set()
    for a, p in mono:
        used |= (a.syms & nameset)
    for v, b in vars_:
        used |= (b.syms & nameset)
    factor = ONE
    keep = []
    for (v, b), n in zip(vars_, names):
        if n in used:
            keep.append((v, b, n))
        else:
            factor = factor * b
    if not keep:
        return factor * Poly({mono: Fraction(1)})
    nameset = frozenset(n for _, _, n in keep)
    outer = tuple(x for x in mono if not (x[0].syms & nameset))
    inner = tuple(x for x in mono if (x[0].syms & nameset))
    factor = factor * Poly({outer: Fraction(1)})
    if not inner:
        # only bounds depend on variables (e.g. Σ_b size(b)) -- keep as nested raw sums
        # order: a variable whose bound mentions another variable is summed first (inner)
        order = []
        rest = list(keep)
        ns = frozenset(n for _, _, n in keep)
        while rest:
            for it in rest:
                if not ((it[1].syms & ns) - frozenset(x[2] for x in order)):
                    order.append(it)
                    rest.remove(it)
                    break
            else:
                raise ValueError("cyclic bounds in nested sum")
        t = ONE
        for v, b, n in reversed(order):
            t = _sum_level(v, b, n, t)
        return factor * t
    # (b') Σ_{b<B} size(b) = total length of the partitioned axis
    if len(keep) == 1 and len(inner) == 1 and inner[0][1] == 1 and inner[0][0].kind == "app" \
            and str(inner[0][0].args[0]).startswith("csz:"):
        tag = inner[0][0].args[0][4:]
        if tag in PARTITIONS and symname(inner[0][0].args[1]) == keep[0][2] and equal(keep[0][1], PARTITIONS[tag][0]):
            return factor * PARTITIONS[tag][1]
    # (c) Kronecker delta
    for a, p in inner:
        if a.kind == "ind":
            for v, b, n in keep:
                e = _delta_target(a.args[0], n)
                if e is not None and not any(n in b2.syms for _, b2, _n in keep):
                    rest = Poly({tuple(x for x in inner if x[0] is not a): Fraction(1)})
                    val = subst(rest, {n: e})
                    side("delta-range", (e, b), "delta elimination")
                    others = [(v2, b2) for v2, b2, n2 in keep if n2 != n]
                    out = ZERO
                    for m2, c2 in val.terms:
                        out = out + (_multi_sum(others, m2) if others else Poly({m2: Fraction(1)})) * c2
                    return factor * out
    # (d) connected components
    comp = {n: n for _, _, n in keep}

    def find(x):
        while comp[x] != x:
            x = comp[x]
        return x

    def union(xs):
        xs = list(xs)
        for x in xs[1:]:
            comp[find(x)] = find(xs[0])

    for a, p in inner:
        union(a.syms & nameset)
    for v, b, n in keep:
        dep = b.syms & nameset
        if dep:
            union(list(dep) + [n])
    groups = {}
    for v, b, n in keep:
        groups.setdefault(find(n), []).append((v, b, n))
    result = factor
    for root, vs in groups.items():
        gn = frozenset(n for _, _, n in vs)
        gm = tuple(x for x in inner if (x[0].syms & gn))
        result = result * _close_chain(vs, gm)
    return result


def _sum_level(v, b, n, poly):
    """one summation level without flattening: linearity, pull-out, raw close"""
    out = ZERO
    for m, c in poly.terms:
        outer, inner = split_mono(m, n)
        if not inner:
            out = out + Poly({outer: c}) * b
        else:
            out = out + Poly({outer: c}) * close_raw("sum", v, b, Poly({inner: Fraction(1)}))
    return out


def _close_chain(vs, mono):
    """canonical nested raw sums over vs (list of (v,bound,name)) of mono"""
    best = None
    perms = itertools.permutations(vs) if len(vs) <= 4 else [tuple(vs)]
    for perm in perms:
        ok = True
        seen = set()
        for v, b, n in perm:
            # the bound of a variable may only depend on variables bound outside it
            if (b.syms & frozenset(x[2] for x in vs)) - seen:
                ok = False
                break
            seen.add(n)
        if not ok:
            continue
        t = Poly({mono: Fraction(1)})
        for v, b, n in reversed(perm):
            t = _sum_level(v, b, n, t)
        if best is None or (t.size, t.key) < (best.size, best.key):
            best = t
    if best is None:
        raise ValueError("cyclic bounds in nested sum")
    return best


def _delta_target(c, name):
    """if c is (v - e == 0) with e free of v return e"""
    if c.kind != "cmp" or c.args[0] != "==0":
        return None
    p = c.args[1]
    vcoef = None
    rest = ZERO
    for m, co in p.terms:
        if len(m) == 1 and m[0][1] == 1 and m[0][0].kind == "sym" and m[0][0].args[0] == name:
            vcoef = co
        else:
            rest = rest + Poly({m: co})
    if vcoef is None or name in rest.syms or abs(vcoef) != 1:
        return None
    return rest * (-1 / vcoef)


def mk_red(kind, v, bound, body):
    """min/max/argmin/argmax over v<bound of body"""
    name = symname(v)
    sort = "int" if kind.startswith("arg") else "real"
    if name not in body.syms and kind in ("minred", "maxred"):
        return body
    if kind in ("minred", "maxred"):
        # additive parts and positive-constant factors could be pulled out; keep opaque
        pass
    return close_raw(kind, v, bound, body, sort)


def poly_content(p):
    """p = c * m * q with q having leading coefficient 1 and no common atom
    factor; returns (c, m, q)"""
    if not p.terms:
        return Fraction(0), (), ZERO
    common = None
    for m, _ in p.terms:
        d = dict(m)
        if common is None:
            common = d
        else:
            nc = {}
            for a, pw in common.items():
                if a in d:
                    q = d[a]
                    if (pw > 0) == (q > 0):
                        nc[a] = min(pw, q) if pw > 0 else max(pw, q)
            common = nc
        if not common:
            break
    cm = tuple(sorted(common.items(), key=lambda ap: ap[0].key)) if common else ()
    inv = tuple((a, -pw) for a, pw in cm)
    lead = None
    d = {}
    for m, c in p.terms:
        d[mono_mul(m, inv)] = c
    q = Poly(d)
    lead = q.terms[0][1]
    q = Poly({m: c / lead for m, c in q.terms})
    return lead, cm, q


def recip(p):
    p = P(p)
    if p.is_zero():
        raise ZeroDivisionError("reciprocal of the zero term")
    if p.is_monomial():
        m, c = p.terms[0]
        return Poly({tuple((a, -pw) for a, pw in m): 1 / c})
    c, m, q = poly_content(p)
    r = Poly.atom(Atom("rcp", (q,)))
    return r * Poly({tuple((a, -pw) for a, pw in m): 1 / c})


def mk_exp(p):
    p = P(p)
    out = ONE
    for m, c in p.terms:
        if len(m) == 1 and m[0][1] == 1 and m[0][0].kind == "log" and c.denominator == 1:
            side("pos", m[0][0].args[0], "exp(log t) = t")
            out = out * (m[0][0].args[0] ** int(c))
            continue
        if not m:
            # constant: exp(c); keep exp(1)^c canonical for integers else atom
            a = Atom("exp", (Poly.const(abs(c)),))
            out = out * Poly.atom(a, 1 if c > 0 else -1)
            continue
        num, den = c.numerator, c.denominator
        a = Atom("exp", (Poly({m: Fraction(1, den)}),))
        out = out * Poly.atom(a, num)
    return out


def mk_log(p):
    """log of a term.  Normal form: log(c * Π f_i^k_i * q) = log c + Σ k_i log|f_i| + log|q|
    -- valid whenever the whole argument is positive (the one side condition
    emitted); a ``log`` atom therefore denotes log|.|."""
    p = P(p)
    if p.is_zero():
        side("pos", p, "log of zero")
        return Poly.atom(Atom("log", (p,)))
    if not p.is_const():
        side("pos", p, "log argument")
    c, m, q = poly_content(p)
    out = ZERO
    if abs(c) != 1:
        out = out + Poly.atom(Atom("log", (Poly.const(abs(c)),)))
    if c < 0 and p.is_const():
        side("pos", p, "log of a negative constant")
    for a, pw in m:
        if a.kind == "exp":
            out = out + a.args[0] * pw
        else:
            out = out + Poly.atom(Atom("log", (Poly.atom(a),))) * pw
    if not (q == ONE):
        out = out + Poly.atom(Atom("log", (q,)))
    return out


def mk_sqrt(p):
    p = P(p)
    if p.is_const():
        c = p.const_value()
        if c >= 0:
            n, d = math.isqrt(c.numerator), math.isqrt(c.denominator)
            if n * n == c.numerator and d * d == c.denominator:
                return Poly.const(Fraction(n, d))
    return Poly.atom(Atom("sqrt", (p,)))


def mk_abs(p):
    p = P(p)
    if p.is_const():
        return Poly.const(abs(p.const_value()))
    q = _lead_positive(p)
    return Poly.atom(Atom("abs", (q,)))


def _single_atom(p, kind):
    if len(p.terms) == 1:
        m, c = p.terms[0]
        if c == 1 and len(m) == 1 and m[0][1] == 1 and m[0][0].kind == kind:
            return m[0][0]
    return None


def mk_max(a, b):
    a, b = P(a), P(b)
    d = a - b
    if d.is_const():
        return a if d.const_value() >= 0 else b
    for x, y in ((a, b), (b, a)):
        at = _single_atom(x, "max")      # max(y, max(y, z)) = max(y, z)
        if at is not None and (at.args[0] == y or at.args[1] == y):
            return x
    if a.key > b.key:
        a, b = b, a
    return Poly.atom(Atom("max", (a, b)))


def mk_min(a, b):
    a, b = P(a), P(b)
    d = a - b
    if d.is_const():
        return b if d.const_value() >= 0 else a
    if a.key > b.key:
        a, b = b, a
    return Poly.atom(Atom("min", (a, b)))


def simplify_under(x, cond, truth, depth=0):
    """rewrite term x assuming cond has the given truth value: nested ite/max/min
    atoms decided by cond collapse (used when building ite branches)"""
    if not isinstance(x, Poly) or depth > 6:
        return x
    changed = False
    out = ZERO
    for m, c in x.terms:
        t = Poly.const(c)
        for a, p in m:
            r = _simp_atom(a, cond, truth, depth)
            if r is not None:
                changed = True
                t = t * (r ** p)
            else:
                t = t * Poly.atom(a, p)
        out = out + t
    return out if changed else x


def _decides(cond, truth, d):
    """sign information about poly d from (cond == truth): returns '+', '0+', '-', '0-' or None"""
    if cond.kind != "cmp":
        return None
    op, p = cond.args
    if op not in (">0", ">=0"):
        return None
    for sgn, q in ((1, d), (-1, -d)):
        if q == p:
            if truth:
                s = "+" if op == ">0" else "0+"
            else:
                s = "0-" if op == ">0" else "-"
            if sgn == -1:
                s = {"+": "-", "0+": "0-", "-": "+", "0-": "0+"}[s]
            return s
    return None


def _simp_atom(a, cond, truth, depth):
    k = a.kind
    if k == "ite":
        c2 = a.args[0]
        if c2 == cond:
            return simplify_under(a.args[1] if truth else a.args[2], cond, truth, depth + 1)
        if c_not(c2) == cond:
            return simplify_under(a.args[2] if truth else a.args[1], cond, truth, depth + 1)
    if k in ("max", "min"):
        s = _decides(cond, truth, a.args[0] - a.args[1])
        if s is not None:
            first_ge = s in ("+", "0+")
            pick = a.args[0] if (first_ge == (k == "max")) else a.args[1]
            return simplify_under(pick, cond, truth, depth + 1)
    if k in ("rcp", "exp", "log", "sqrt", "abs", "max", "min", "ite") and any(
            isinstance(x, Poly) for x in a.args):
        new = rebuild_atom(a, lambda q: simplify_under(q, cond, truth, depth + 1) if isinstance(q, Poly) else q)
        if not (len(new.terms) == 1 and new.terms[0][0] == ((a, 1),) and new.terms[0][1] == 1):
            return new
    return None


def mk_ite(c, a, b):
    c = C(c)
    a, b = P(a), P(b)
    k = c.const()
    if k is not None:
        return a if k else b
    a = simplify_under(a, c, True)
    b = simplify_under(b, c, False)
    if a == b:
        return a
    # a zero branch: ite(c, 0, X) = [not c] X -- polynomial in the indicator, so that
    # sums and products distribute over it (the indicator factor keeps the guard visible)
    if a.is_zero():
        return mk_ind(c_not(c)) * b
    if b.is_zero():
        return mk_ind(c) * a
    # ite(x<y, y, x) = max(x,y) ; ite(x<y, x, y) = min(x,y)  (also <=)
    if c.kind == "cmp" and c.args[0] in (">0", ">=0"):
        d = c.args[1]  # d > 0
        if (a - b) == d:       # a - b > 0 ? a : b  -> max
            return mk_max(a, b)
        if (b - a) == d:       # b - a > 0 ? a : b  -> min
            return mk_min(a, b)
    if c.kind == "not":
        return mk_ite(c.args[0], b, a)
    # ite(x == y, x, y) = y ; ite(x != y, x, y) = x   (the branches agree where the condition selects the other one)
    if c.kind == "cmp" and c.args[0] in ("==0", "!=0") and ((a - b) == c.args[1] or (b - a) == c.args[1]):
        return b if c.args[0] == "==0" else a
    return Poly.atom(Atom("ite", (c, a, b)))


def mk_ind(c):
    c = C(c)
    k = c.const()
    if k is not None:
        return ONE if k else ZERO
    return Poly.atom(Atom("ind", (c,)))


VARBOUND = {}     # index symbol name -> exclusive upper bound (set when index variables are created)
EXTENDED = set()  # names of scalar symbols that may denote +-inf (np.isfinite on them is an undetermined condition)

PRODUCTS = []     # ordered pairs (major, minor) of dimension terms whose product is a row-major compound axis


def bounded_var(bound, prefix="k"):
    v = fresh(prefix)
    VARBOUND[symname(v)] = P(bound)
    return v


def split_dim(dim):
    dim = P(dim)
    for a, b in PRODUCTS:
        if equal(dim, a * b):
            return a, b
    return None


def _divide_terms(p, B):
    """p = q*B + r with q collecting the terms whose monomial is divisible by the monomial B"""
    if not (B.is_monomial() and B.terms[0][1] == 1):
        return None
    bm = dict(B.terms[0][0])
    q, r = {}, {}
    for m, c in p.terms:
        d = dict(m)
        if all(d.get(a, 0) >= pw for a, pw in bm.items()):
            for a, pw in bm.items():
                d[a] -= pw
            mm = tuple(sorted(((a, pw) for a, pw in d.items() if pw), key=lambda ap: ap[0].key))
            q[mm] = q.get(mm, 0) + c
        else:
            r[m] = c
    return Poly(q), Poly(r)


def in_range(r, B):
    """is 0 <= r < B known (from the bounds of index variables)?"""
    r, B = P(r), P(B)
    if r.is_zero():
        return True
    n = symname(r)
    if n is not None and n in VARBOUND and equal(VARBOUND[n], B):
        return True
    cands = []
    sp = split_dim(B)
    if sp is not None:
        cands.append(sp)
    if B.is_monomial() and B.terms[0][1] == 1 and sum(pw for _a, pw in B.terms[0][0]) >= 2:
        for a_, pw in B.terms[0][0]:
            b2 = Poly.atom(a_)
            cands.append((B * recip(b2), b2))
    for b1, b2 in cands:
        dv = _divide_terms(r, b2)
        if dv is not None and not dv[0].is_zero():
            a, b = dv
            if in_range(a, b1) and in_range(b, b2):
                return True
    return False


def mk_floordiv(p, B):
    p, B = P(p), P(B)
    if p.is_const() and B.is_const():
        return Poly.const(p.const_value() // B.const_value())
    dv = _divide_terms(p, B)
    if dv is not None and in_range(dv[1], B):
        return dv[0]
    return app("floordiv", p, B, sort="int")


def mk_mod(p, B):
    p, B = P(p), P(B)
    if p.is_const() and B.is_const():
        return Poly.const(p.const_value() % B.const_value())
    dv = _divide_terms(p, B)
    if dv is not None and in_range(dv[1], B):
        return dv[1]
    return app("mod", p, B, sort="int")


def sum_over(dim, f, prefix="k"):
    """Σ over an axis of size dim; a registered compound axis major*minor is
    summed as Σ_major Σ_minor f(major_index*minor + minor_index)"""
    sp = split_dim(dim)
    if sp is None:
        return Sum(dim, f, prefix)
    a, b = sp

    def outer(i):
        def inner(j):
            VARBOUND[symname(j)] = b
            return f(i * b + j)
        return Sum(b, inner, prefix)
    return Sum(a, outer, prefix)


def generic_index(dim, prefix="q"):
    sp = split_dim(dim)
    if sp is None:
        if P(dim).as_int() == 1:
            return ZERO
        return bounded_var(dim, prefix)
    a, b = sp
    return bounded_var(a, prefix) * b + bounded_var(b, prefix)


def Sum(bound, f, prefix="k"):
    """Σ_{k<bound} f(k) with f a Python function of the index Poly"""
    if P(bound).as_int() == 1:
        return P(f(ZERO))           # a one-element axis: its only index is 0
    v = bounded_var(bound, prefix)
    return mk_sum(v, P(bound), P(f(v)))


def LSE(bound, f, prefix="k"):
    return mk_log(Sum(bound, lambda k: mk_exp(P(f(k))), prefix))


def Red(kind, bound, f, prefix="k"):
    v = bounded_var(bound, prefix)
    return mk_red(kind, v, P(bound), P(f(v)))


# ---------------------------------------------------------------- deciding equality
def clear_rcp(p):
    """multiply p by the powers of denominators needed to remove every top-level
    rcp atom (exact for deciding p == 0 when denominators are non-zero)."""
    for _ in range(50):
        tgt = None
        for a in p.atoms():
            if a.kind == "rcp":
                tgt = a
                break
        if tgt is None:
            return p
        k = 0
        for m, _c in p.terms:
            for a, pw in m:
                if a is tgt and pw > k:
                    k = pw
        if k == 0:
            # only negative powers of an rcp atom: rcp^-1 = q
            k = 0
        q = tgt.args[0]
        out = ZERO
        for m, c in p.terms:
            pw = dict(m).get(tgt, 0)
            rest = tuple(x for x in m if x[0] is not tgt)
            out = out + Poly({rest: c}) * (q ** (k - pw))
        p = out
    return p


def equal(a, b):
    d = P(a) - P(b)
    if d.is_zero():
        return True
    return clear_rcp(d).is_zero()


# ---------------------------------------------------------------- printing
def show_atom(a):
    k = a.kind
    if k == "sym":
        return a.args[0]
    if k == "bv":
        return "_%d" % a.args[0]
    if k == "app":
        return "%s[%s]" % (a.args[0], ",".join(show(x) for x in a.args[1:]))
    if k in BINDERS:
        if k == "lam":
            return "(λ_%d. %s)" % (a.height - 1, show(a.args[0]))
        name = {"sum": "Σ", "argmin": "argmin", "argmax": "argmax", "minred": "min", "maxred": "max"}[k]
        return "%s(_%d<%s. %s)" % (name, a.height - 1, show(a.args[0]), show(a.args[1]))
    if k == "ind":
        return "[%s]" % show_cond(a.args[0])
    if k == "ite":
        return "ite(%s, %s, %s)" % (show_cond(a.args[0]), show(a.args[1]), show(a.args[2]))
    return "%s(%s)" % (k, ", ".join(show(x) if isinstance(x, Poly) else repr(x) for x in a.args))


def show(p, limit=2000):
    if not p.terms:
        return "0"
    parts = []
    for m, c in p.terms:
        fs = []
        for a, pw in m:
            s = show_atom(a)
            fs.append(s if pw == 1 else "%s^%d" % (s, pw))
        body = "*".join(fs)
        if c == 1 and body:
            parts.append(body)
        elif c == -1 and body:
            parts.append("-" + body)
        else:
            cs = str(c) if c.denominator == 1 or len(str(c)) < 12 else repr(float(c))
            parts.append(cs + ("*" + body if body else ""))
    s = " + ".join(parts).replace("+ -", "- ")
    return s if len(s) <= limit else s[:limit] + "…"


def show_cond(c):
    if c.kind in ("true", "false"):
        return c.kind
    if c.kind == "cmp":
        return "%s %s" % (show(c.args[1]), {">0": "> 0", ">=0": ">= 0", "==0": "== 0", "!=0": "!= 0"}[c.args[0]])
    if c.kind == "not":
        return "not(%s)" % show_cond(c.args[0])
    return (" %s " % c.kind).join("(%s)" % show_cond(a) for a in c.args)


# ---------------------------------------------------------------- numeric evaluation
class EvalEnv:
    """syms: name -> number; funcs: name -> callable(*ints/floats) -> number"""

    def __init__(self, syms=None, funcs=None, default=None):
        self.syms = dict(syms or {})
        self.funcs = dict(funcs or {})
        self.default = default  # callable(kind, name, args) for unknowns
        self.special = {"minv": _eval_matfun, "chol_lower": _eval_matfun, "chol_upper": _eval_matfun,
                        "trunc": lambda a, env, bvs: float(math.trunc(evalf(a.args[1], env, bvs)))}


_bvidx_cache = {}


def _bv_indices(x):
    """indices of the bound-variable atoms occurring anywhere in x (cached per term)"""
    r = _bvidx_cache.get(x)
    if r is not None:
        return r
    out = set()
    stack = [x]
    while stack:
        y = stack.pop()
        if isinstance(y, Poly):
            if not y.hasbv:
                continue
            for m, _c in y.terms:
                for at, _p in m:
                    stack.append(at)
        elif isinstance(y, Cond):
            if y.hasbv:
                stack.extend(q for q in y.args if isinstance(q, (Poly, Cond)))
        elif isinstance(y, Atom):
            if y.kind == "bv":
                out.add(y.args[0])
            else:
                stack.extend(q for q in y.args if isinstance(q, (Poly, Cond, Atom)))
    r = frozenset(out)
    if len(_bvidx_cache) > 50000:
        _bvidx_cache.clear()
    _bvidx_cache[x] = r
    return r


def _bv_indices_atom(a):
    r = _bvidx_cache.get(a)
    if r is None:
        r = frozenset().union(*[_bv_indices(q) for q in a.args if isinstance(q, (Poly, Cond))]) if a.hasbv else frozenset()
        _bvidx_cache[a] = r
    return r


def _eval_matfun(a, env, bvs):
    """minv / cholesky atoms: app(name, n, lam(lam(body)), i, j) -- evaluated with numpy"""
    import numpy as np
    name = a.args[0]
    n = int(round(evalf(a.args[1], env, bvs)))
    lam = a.args[2]
    i = int(round(evalf(a.args[3], env, bvs)))
    j = int(round(evalf(a.args[4], env, bvs)))
    # the matrix depends only on the enclosing bound variables that occur in it (an enclosing binder is higher than everything
    # bound inside the matrix expression, so restricting the environment to the occurring indices is exact)
    rel = _bv_indices(lam)
    key = ("mat", name, lam, tuple(sorted((k, v) for k, v in bvs.items() if k in rel)))
    cache = env.__dict__.setdefault("_matcache", {})
    if key not in cache:
        outer = lam.terms[0][0][0][0]
        M = np.zeros((n, n))
        for r in range(n):
            inner_p = instantiate(outer, Poly.const(r))
            inner = inner_p.terms[0][0][0][0]
            for c in range(n):
                M[r, c] = evalf(instantiate(inner, Poly.const(c)), env, bvs)
        if name == "minv":
            R = np.linalg.inv(M)
        else:
            R = np.linalg.cholesky(M)
            if name == "chol_upper":
                R = R.T
        cache[key] = R
    return float(cache[key][i, j])


def evalf(x, env, bvs=None):
    bvs = bvs or {}
    if isinstance(x, Cond):
        return _evalc(x, env, bvs)
    tot = 0.0
    for m, c in x.terms:
        t = float(c)
        # an indicator factor guards the rest of its monomial ([c] * X is X only where c holds)
        dead = False
        for a, p in m:
            if a.kind == "ind" and not _evalc(a.args[0], env, bvs):
                dead = True
                break
        if dead:
            continue
        for a, p in m:
            v = _evala(a, env, bvs)
            t *= v ** p
        tot += t
    return tot


def _evalc(c, env, bvs):
    k = c.kind
    if k == "true":
        return True
    if k == "false":
        return False
    if k == "cmp":
        v = evalf(c.args[1], env, bvs)
        return {">0": v > 0, ">=0": v >= 0, "==0": v == 0, "!=0": v != 0}[c.args[0]]
    if k == "and":
        return all(_evalc(a, env, bvs) for a in c.args)
    if k == "or":
        return any(_evalc(a, env, bvs) for a in c.args)
    return not _evalc(c.args[0], env, bvs)


def _evala(a, env, bvs):
    k = a.kind
    if k == "sym":
        n = a.args[0]
        if n in env.syms:
            return env.syms[n]
        if env.default:
            return env.default("sym", n, ())
        raise KeyError(n)
    if k == "bv":
        return bvs[a.args[0]]
    if k == "app" and a.args[0] in getattr(env, "special", {}):
        return env.special[a.args[0]](a, env, bvs)
    if k == "app" and a.args[0] in ("floordiv", "mod") and len(a.args) == 3:
        x_, y_ = int(round(evalf(a.args[1], env, bvs))), int(round(evalf(a.args[2], env, bvs)))
        return x_ // y_ if a.args[0] == "floordiv" else x_ % y_
    if k == "app":
        args = [evalf(x, env, bvs) for x in a.args[1:]]
        f = env.funcs.get(a.args[0])
        if f is None:
            if env.default:
                return env.default("app:int" if a.sort == "int" else "app", a.args[0], tuple(args))
            raise KeyError(a.args[0])
        return f(*[int(round(v)) if float(v).is_integer() else v for v in args])
    if k in BINDERS and k != "lam":
        # memo per evaluation point: a reduction nested in other reductions is asked for again and again with the same
        # values of the enclosing variables IT depends on
        memo = env.__dict__.setdefault("_redcache", {})
        rel = _bv_indices_atom(a)
        mk_ = (a, tuple(sorted((q, v) for q, v in bvs.items() if q in rel))) if a.size > 6 else None
        if mk_ is not None and mk_ in memo:
            return memo[mk_]
        n = int(round(evalf(a.args[0], env, bvs)))
        h = a.height - 1
        vals = []
        for i in range(n):
            b2 = dict(bvs)
            b2[h] = i
            vals.append(evalf(a.args[1], env, b2))
        if k == "sum":
            r_ = math.fsum(vals)
        elif k == "minred":
            r_ = min(vals)
        elif k == "maxred":
            r_ = max(vals)
        elif k == "argmin":
            r_ = vals.index(min(vals))
        else:
            r_ = vals.index(max(vals))
        if mk_ is not None:
            memo[mk_] = r_
        return r_
    if k == "exp":
        return math.exp(evalf(a.args[0], env, bvs))
    if k == "log":
        return math.log(abs(evalf(a.args[0], env, bvs)))
    if k == "sqrt":
        return math.sqrt(evalf(a.args[0], env, bvs))
    if k == "rcp":
        return 1.0 / evalf(a.args[0], env, bvs)
    if k == "abs":
        return abs(evalf(a.args[0], env, bvs))
    if k == "max":
        return max(evalf(a.args[0], env, bvs), evalf(a.args[1], env, bvs))
    if k == "min":
        return min(evalf(a.args[0], env, bvs), evalf(a.args[1], env, bvs))
    if k == "ite":
        return evalf(a.args[1], env, bvs) if _evalc(a.args[0], env, bvs) else evalf(a.args[2], env, bvs)
    if k == "ind":
        return 1.0 if _evalc(a.args[0], env, bvs) else 0.0
    raise TypeError("cannot evaluate atom kind %s" % k)
