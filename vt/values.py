"""Non-array runtime values of the symbolic interpreter."""
from . import terms as T
from .terms import Poly, P, ZERO, ONE
from .arr import Arr, ModelError, ShapeError


class ClassInfo:
    def __init__(self, name, module, node, bases):
        self.name, self.module, self.node, self.bases = name, module, node, bases
        self.methods = {}      # name -> FunctionDef
        self.getters = {}      # property name -> FunctionDef
        self.cached = {}       # functools.cached_property name -> FunctionDef (value kept in the instance __dict__ under that name)
        self.setters = {}
        self.classmethods = set()
        self.staticmethods = set()

    def __repr__(self):
        return "<class %s.%s>" % (self.module, self.name)

    def find(self, table, name, classes):
        if name in getattr(self, table):
            return getattr(self, table)[name], self
        for b in self.bases:
            bi = classes.get(b)
            if bi is not None:
                r = bi.find(table, name, classes)
                if r is not None:
                    return r
        return None


class Obj:
    _ids = 0

    def __init__(self, cls, fields=None):
        self.cls = cls
        self.fields = dict(fields or {})
        Obj._ids += 1
        self.oid = Obj._ids

    def __repr__(self):
        return "<%s#%d>" % (self.cls.name if self.cls else "?", self.oid)


class SList:
    """list of symbolic length; elem(i) -> value; optional filter for filtered
    comprehensions ``[g(c) for c in range(n) if cond(c)]``"""

    def __init__(self, length, elem, filt=None, base_len=None):
        self.length = P(length)
        self.elem = elem
        self.filt = filt          # cond fn over the *unfiltered* index
        self.base_len = base_len  # unfiltered length when filt is set

    def slen(self):
        if self.filt is not None:
            return T.Sum(self.base_len, lambda i: T.mk_ind(self.filt(i)))
        return self.length + len(getattr(self, "extra", ()))

    def append(self, v):
        """append to a symbolic list: kept as a concrete tail"""
        if not hasattr(self, "extra"):
            self.extra = []
        self.extra.append(v)

    def getitem(self, k):
        if self.filt is not None:
            raise ModelError("indexing a filtered list")
        if isinstance(k, slice):
            start = P(0 if k.start is None else k.start)
            stop = self.length if k.stop is None else P(k.stop)
            if k.step not in (None, 1):
                raise ModelError("strided list slice")
            return SList(stop - start, lambda i: self.elem(i + start))
        extra = getattr(self, "extra", [])
        if isinstance(k, int) and k < 0 and extra:
            if -k <= len(extra):
                return extra[k]
            k = self.length + (k + len(extra))
        elif isinstance(k, int) and k < 0:
            k = self.length + k
        return self.elem(P(k))

    def setitem(self, k, v):
        """lst[k] = v with a symbolic index: later reads at an index syntactically equal to k see v; reads at an index
        that cannot be told apart from k are outside the subset"""
        if self.filt is not None:
            raise ModelError("store into a filtered list")
        from .terms import P as _P, equal as _eq
        k = _P(k)
        old = self.elem

        def elem(j, k=k, v=v, old=old):
            j = _P(j)
            if _eq(j, k):
                return v
            kj, kk_ = j.as_int(), k.as_int()
            if kj is not None and kk_ is not None and kj != kk_:
                return old(j)
            raise ModelError("read of a list element at an index that may or may not be the stored one")
        self.elem = elem

    def store_rows(self, a, masks, kept, fixed):
        """X[mask] = [g(c) for c in range(n) if cond(c)]  -- rows where the mask
        holds receive the list elements in order; requires mask == filter."""
        if self.filt is None or len(masks) != 1 or fixed or masks[0][0] != 0:
            raise ModelError("list store into an array")
        ax, mk = masks[0]
        k = T.fresh("r")
        from .terms import C
        if not (C(mk.fn(k)) == C(self.filt(k))) or not T.equal(self.base_len, a.shape[0]):
            raise ModelError("masked store whose mask differs from the list filter")
        el = self.elem
        afn, mkfn = a.fn, mk.fn        # snapshots: `a` itself is updated in place with this result

        def fn(*idx):
            v = el(idx[0])
            if not isinstance(v, Arr):
                raise ModelError("list elements are not arrays")
            return T.mk_ite(C(mkfn(idx[0])), v.fn(*idx[1:]), afn(*idx))
        return Arr(a.shape, fn, a.dtype, a.kind, a.mask)

    def __repr__(self):
        return "SList(len=%r)" % (self.length,)


class Bag:
    """dask.bag.Bag of statistics: npart partitions of sizes size(p) holding the
    elements elem(p, j) (trusted contract, DESIGN §3: to_delayed() yields the
    partitions in order, map_partitions(len).compute() their lengths in the same order)"""
    is_bag = True

    def __init__(self, npart, size, elem):
        self.npart, self.size, self.elem = P(npart), size, elem

    def to_delayed(self):
        return SList(self.npart, lambda p: SList(self.size(p), lambda j: self.elem(p, j)))

    def persist(self):
        return self

    def map_partitions(self, f):
        return BagMap(self, f)


class BagMap:
    def __init__(self, bag, f):
        self.bag, self.f = bag, f

    def compute(self):
        return self


class SRange:
    def __init__(self, start, stop):
        self.start, self.stop = P(start), P(stop)

    @property
    def length(self):
        return self.stop - self.start

    def elem(self, i):
        return self.start + i


class Delayed:
    """dask.delayed(f)(*args, **kw)  (not yet computed)"""

    def __init__(self, func, args, kwargs):
        self.func, self.args, self.kwargs = func, args, kwargs
        self.value = None
        self.done = False

    def persist(self):
        return self


class FuncVal:
    def __init__(self, node, module, cls=None, name=None, closure=None):
        self.node, self.module, self.cls = node, module, cls
        self.name = name or node.name
        self.closure = closure

    @property
    def qualname(self):
        short = self.module.split(".")[-1]
        return "%s.%s%s" % (short, (self.cls.name + ".") if self.cls else "", self.name)

    def __repr__(self):
        return "<function %s>" % self.qualname


class BoundMethod:
    def __init__(self, obj, func):
        self.obj, self.func = obj, func

    def __repr__(self):
        return "<bound %r of %r>" % (self.func, self.obj)


class PyRaise(Exception):
    """the modelled code raises a Python exception"""

    def __init__(self, exc_type, msg=""):
        Exception.__init__(self, "%s: %s" % (exc_type, msg))
        self.exc_type, self.msg = exc_type, msg


class Opaque:
    """an opaque value we never look into (logger, RandomState, ...)"""

    def __init__(self, name):
        self.name = name

    def __getattr__(self, n):
        if n.startswith("__"):
            raise AttributeError(n)
        return Opaque(self.name + "." + n)

    def __call__(self, *a, **k):
        return None

    def __repr__(self):
        return "<opaque %s>" % self.name
