"""Thorough-tier self-test (DESIGN §1.6): every seeded breaking change recorded under /verif/seeded for this
property is applied to a scratch copy of the repository source (outside /repo and /verif) and must be
REFUTED by this property's check; every semantics-preserving rewrite under /verif/seeded/benign must
leave the check green.  The scratch copy is removed afterwards."""
import glob
import json
import os
import shutil
import subprocess
import sys
import tempfile

ROOT = os.path.dirname(os.path.dirname(os.path.abspath(__file__)))


def _scratch(patch):
    repo = os.environ.get("VERIF_REPO", "/repo")
    d = tempfile.mkdtemp(prefix="verif_selftest_")
    shutil.copytree(os.path.join(repo, "src"), os.path.join(d, "src"))
    r = subprocess.run(["patch", "-p1", "-s", "-d", d, "-i", patch], capture_output=True, text=True)
    if r.returncode != 0:
        shutil.rmtree(d, ignore_errors=True)
        return None, (r.stdout + r.stderr)[-300:]
    return d, ""


def _check(prop, repo_dir, seed):
    out = tempfile.mkdtemp(prefix="verif_selftest_out_")
    env = dict(os.environ, VERIF_REPO=repo_dir, VERIF_NO_SELFTEST="1", VERIF_EVIDENCE_DIR=out, VERIF_REPLAY_DIR=out, VERIF_SEED=str(seed))
    try:
        p = subprocess.run([sys.executable, "-m", "vt.main", prop, "--tier", "quick"], cwd=ROOT, env=env, capture_output=True, text=True, timeout=3000)
        lines = [l for l in p.stdout.splitlines() if l.startswith(("VIOLATION", "UNDECIDED", "CHECKER-ERROR", "CONTROL-FAILED"))]
        return p.returncode, lines[:4]
    finally:
        shutil.rmtree(out, ignore_errors=True)


def run(prop, seed=0):
    res = {"mutants": [], "benign": [], "missed": [], "false_alarms": [], "skipped": []}
    for meta in sorted(glob.glob(os.path.join(ROOT, "seeded", "C*", "meta.json"))):
        m = json.load(open(meta))
        sid = os.path.basename(os.path.dirname(meta))
        props = set([m.get("property", sid)]) | set(m.get("also_breaks", []))
        if prop not in props:
            continue
        d, err = _scratch(os.path.join(os.path.dirname(meta), "patch.diff"))
        if d is None:
            res["skipped"].append({"seed": sid, "why": "patch no longer applies: " + err})
            continue
        try:
            rc, lines = _check(prop, d, seed)
        finally:
            shutil.rmtree(d, ignore_errors=True)
        res["mutants"].append({"seed": sid, "exit": rc, "lines": lines})
        if rc != 1:
            res["missed"].append(sid)
    for patch in sorted(glob.glob(os.path.join(ROOT, "seeded", "benign", "*.diff"))):
        d, err = _scratch(patch)
        if d is None:
            res["skipped"].append({"seed": os.path.basename(patch), "why": "patch no longer applies: " + err})
            continue
        try:
            rc, lines = _check(prop, d, seed)
        finally:
            shutil.rmtree(d, ignore_errors=True)
        res["benign"].append({"patch": os.path.basename(patch), "exit": rc, "lines": lines})
        if rc != 0:
            res["false_alarms"].append(os.path.basename(patch))
    return res
