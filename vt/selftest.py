"""Thorough-tier self-test (DESIGN §1.6): every seeded breaking change recorded under /verif/seeded for this
property is applied to a scratch copy of the repository source (outside /repo and /verif) and must be
REFUTED by this property's check; every semantics-preserving rewrite under /verif/seeded/benign must
leave the check green.  The scratch copy is removed afterwards."""
import glob
import json
import os
import shutil
import subprocess
import sys
import tempfile

ROOT = os.path.dirname(os.path.dirname(os.path.abspath(__file__)))


def _scratch(patch):
    repo = os.environ.get("VERIF_REPO", "/repo")
    d = tempfile.mkdtemp(prefix="verif_selftest_")
    shutil.copytree(os.path.join(repo, "src"), os.path.join(d, "src"))
    r = subprocess.run(["patch", "-p1", "-s", "-d", d, "-i", patch], capture_output=True, text=True)
    if r.returncode != 0:
        shutil.rmtree(d, ignore_errors=True)
        return None, (r.stdout + r.stderr)[-300:]
    return d, ""


def _check(prop, repo_dir, seed):
    out = tempfile.mkdtemp(prefix="verif_selftest_out_")
    env = dict(os.environ, VERIF_REPO=repo_dir, VERIF_NO_SELFTEST="1", VERIF_EVIDENCE_DIR=out, VERIF_REPLAY_DIR=out, VERIF_SEED=str(seed))
    try:
        p = subprocess.run([sys.executable, "-m", "vt.main", prop, "--tier", "quick"], cwd=ROOT, env=env, capture_output=True, text=True, timeout=3000)
        lines = [l for l in p.stdout.splitlines() if l.startswith(("VIOLATION", "UNDECIDED", "CHECKER-ERROR", "CONTROL-FAILED"))]
        return p.returncode, lines[:4]
    finally:
        shutil.rmtree(out, ignore_errors=True)


def run(prop, seed=0):
    """exit 1 on a benign rewrite (a VIOLATION line) or exit 3 (a checker fault) is a false alarm; exit 2 on a benign rewrite
    is recorded as 'undecided' (the check says so itself and raises no violation)"""
    from concurrent.futures import ThreadPoolExecutor
    res = {"mutants": [], "benign": [], "missed": [], "false_alarms": [], "undecided_benign": [], "skipped": []}
    jobs = []
    for meta in sorted(glob.glob(os.path.join(ROOT, "seeded", "C*", "meta.json"))):
        m = json.load(open(meta))
        sid = os.path.basename(os.path.dirname(meta))
        props = set([m.get("property", sid)]) | set(m.get("also_breaks", []))
        if prop in props:
            jobs.append(("seed", sid, os.path.join(os.path.dirname(meta), "patch.diff")))
    for patch in sorted(glob.glob(os.path.join(ROOT, "seeded", "benign", "*.diff"))):
        jobs.append(("benign", os.path.basename(patch), patch))

    def one(job):
        kind, name, patch = job
        d, err = _scratch(patch)
        if d is None:
            return kind, name, None, "patch no longer applies: " + err
        try:
            rc, lines = _check(prop, d, seed)
        finally:
            shutil.rmtree(d, ignore_errors=True)
        return kind, name, rc, lines
    with ThreadPoolExecutor(max_workers=int(os.environ.get("VERIF_SELFTEST_JOBS", "6"))) as ex:
        out = list(ex.map(one, jobs))
    for kind, name, rc, lines in out:
        if rc is None:
            res["skipped"].append({"seed": name, "why": lines})
        elif kind == "seed":
            res["mutants"].append({"seed": name, "exit": rc, "lines": lines})
            if rc != 1:
                res["missed"].append(name)
        else:
            res["benign"].append({"patch": name, "exit": rc, "lines": lines})
            if rc == 2:
                res["undecided_benign"].append(name)
            elif rc != 0:
                res["false_alarms"].append(name)
    return res
