"""Model of the library entry points the repository calls (trusted; DESIGN §3).

Each function takes/returns interpreter values (Arr, Poly, python scalars,
lists, SList).  Anything outside the model raises ModelError => 'undecided'.
"""
import math
from fractions import Fraction
from . import terms as T
from .terms import Poly, Cond, P, C, ZERO, ONE
from . import arr as A
from .arr import Arr, ModelError, ShapeError, ewise, is_scalar
from .values import SList, SRange, Obj, Delayed, Opaque, PyRaise

USED = set()   # entry points exercised in this run (reported in evidence)


def used(name):
    USED.add(name)


class TypeMarker:
    def __init__(self, name):
        self.name = name

    def __repr__(self):
        return "<type %s>" % self.name

    def __eq__(self, other):
        if isinstance(other, TypeMarker):
            return self.name == other.name
        if other is float:
            return self.name == "float64"
        return NotImplemented

    def __ne__(self, other):
        r = self.__eq__(other)
        return r if r is NotImplemented else not r

    def __hash__(self):
        return hash(("TypeMarker", self.name))

    _DT = {"float64": ("f", "<f8", 8), "int64": ("i", "<i8", 8), "int32": ("i", "<i4", 4), "bool": ("b", "|b1", 1)}

    @property
    def kind(self):
        if self.name in self._DT:
            return self._DT[self.name][0]
        raise ModelError("dtype.kind of %s" % self.name)

    @property
    def str(self):
        if self.name in self._DT:
            return self._DT[self.name][1]
        raise ModelError("dtype.str of %s" % self.name)

    @property
    def itemsize(self):
        if self.name in self._DT:
            return self._DT[self.name][2]
        raise ModelError("dtype.itemsize of %s" % self.name)

    def __call__(self, *a, **k):
        if self.name in ("float", "float64"):
            return to_scalar(a[0])
        if self.name in ("int", "int32", "int64"):
            return to_scalar(a[0])
        raise ModelError("call of type %s" % self.name)


def to_scalar(x):
    if isinstance(x, Arr):
        if x.ndim == 0:
            return x.fn()
        raise PyRaise("TypeError", "only size-1 arrays can be converted to Python scalars")
    return x


def aslist(x):
    if isinstance(x, (list, tuple)):
        return list(x)
    return x


def lift(x):
    """python nested list / scalar -> Arr or scalar"""
    if isinstance(x, Arr) or is_scalar(x):
        return x
    if isinstance(x, (list, tuple, SList)):
        if isinstance(x, (list, tuple)):
            x = [lift(e) for e in x]
        return A.stack_list(x)
    raise ModelError("cannot convert %s to an array" % type(x).__name__)


def _axis(kw, default=None):
    ax = kw.pop("axis", default)
    if isinstance(ax, Poly):
        ax = ax.as_int()
    return ax


def _has_exp(p):
    stack = [p]
    while stack:
        y = stack.pop()
        if isinstance(y, Poly):
            for m, _ in y.terms:
                for a, _p in m:
                    if a.kind == "exp" and not a.args[0].is_const():
                        return True
                    stack.extend(x for x in a.args if isinstance(x, Poly))
    return False


def _user_log(a):
    """np.log called by the code under verification: a log of exponentials is
    an underflow hazard (float model, DESIGN §2.4) unless it is the trusted
    np.logaddexp.reduce"""
    a = P(a)
    if _has_exp(a):
        T.side("underflow", a, "log of a sum of exponentials")
    return T.mk_log(a)


class NPLinalg:
    def inv(self, m):
        used("np.linalg.inv")
        return minv(lift(m))

    def det(self, m):
        """uninterpreted determinant (congruent in the matrix)"""
        used("np.linalg.det")
        m = lift(m)
        if not isinstance(m, Arr) or m.ndim < 2:
            raise ShapeError("determinant of a non-matrix")
        n, nb = m.shape[-1], m.ndim - 2

        def fn(*idx):
            vi, vj = T.bounded_var(n, "mi"), T.bounded_var(n, "mj")
            body = P(m.fn(*(list(idx) + [vi, vj])))
            lam = T.close_raw("lam", vi, None, T.close_raw("lam", vj, None, body))
            return T.app("det", n, lam)
        return Arr(m.shape[:-2], fn, "real", m.kind) if nb else fn()

    def solve(self, a, b):
        used("np.linalg.solve")
        a, b = lift(a), lift(b)
        return A.matmul(minv(a), b)


_SYMCACHE = {}


def minv(m):
    """uninterpreted matrix inverse of the last two axes; congruent in M"""
    if not isinstance(m, Arr) or m.ndim < 2:
        raise ShapeError("inverse of a non-matrix")
    if not A.dim_eq(m.shape[-1], m.shape[-2]):
        raise PyRaise("LinAlgError", "Last 2 dimensions of the array must be square")
    n = m.shape[-1]
    nb = m.ndim - 2

    def fn(*idx):
        b = list(idx[:nb])
        i, j = idx[nb], idx[nb + 1]
        vi, vj = T.bounded_var(n, "mi"), T.bounded_var(n, "mj")
        if P(n).as_int() == 1:
            body = P(m.fn(*(b + [ZERO, ZERO])))
        else:
            body = P(m.fn(*(b + [vi, vj])))
        # (c M)^-1 = c^-1 M^-1 for a scalar c: a factor common to every entry (free of the two matrix indices) is pulled out
        scale = ONE
        if P(n).as_int() != 1 and body.terms:
            bound_names = set(vi.syms) | set(vj.syms)
            common = None
            for mono, _c in body.terms:
                d = {a_: p_ for a_, p_ in mono if not (a_.syms & bound_names) and not a_.hasbv and a_.kind in ("sym", "app")}
                common = d if common is None else {a_: p_ for a_, p_ in common.items() if d.get(a_) == p_}
            for a_, p_ in (common or {}).items():
                f_ = Poly.atom(a_) ** p_
                scale = scale * f_
                body = body * (Poly.atom(a_) ** (-p_))
        if scale is not ONE:
            inner = Arr(m.shape, lambda *ix: T.subst(T.subst(body, {list(vi.syms)[0]: P(ix[nb])}), {list(vj.syms)[0]: P(ix[nb + 1])}) if nb == 0 else None, "real", m.kind)
            if nb == 0:
                return P(minv(inner).fn(i, j)) * (scale ** -1)
            body = body * scale
        lam = T.close_raw("lam", vi, None, T.close_raw("lam", vj, None, body))
        if P(n).as_int() != 1:
            # the inverse of a symmetric matrix is symmetric (trusted): canonical order of the two indices
            key = ("sym", lam.key)
            sym_ = _SYMCACHE.get(key)
            if sym_ is None:
                sym_ = T.equal(body, P(m.fn(*(b + [vj, vi]))))
                _SYMCACHE[key] = sym_
            if sym_ and not T.equal(P(i), P(j)):
                # symmetric in (i, j) by construction, whatever the names of the index variables
                return (T.app("minv", n, lam, i, j) + T.app("minv", n, lam, j, i)) * Fraction(1, 2)
        return T.app("minv", n, lam, i, j)
    return Arr(m.shape, fn, "real", m.kind)


class NPRandom:
    """NumPy's global generator as an abstract stream state: ("caller", k) -- whatever the caller left, advanced by k draws --
    or ("seeded", s, k) -- seed(s) followed by k draws; get_state / set_state save and restore it"""
    count = 0
    STATE = ("caller", 0)

    def seed(self, s=None):
        used("np.random.seed")
        EFFECTS.append(("np.random.seed", s))
        NPRandom.STATE = ("seeded", s, 0)

    def get_state(self, *a, **k):
        used("np.random.get_state")
        return ("<rng-state>", NPRandom.STATE)

    def set_state(self, st):
        used("np.random.set_state")
        if not (isinstance(st, tuple) and len(st) == 2 and st[0] == "<rng-state>"):
            raise ModelError("np.random.set_state with a state that does not come from get_state")
        NPRandom.STATE = st[1]
        EFFECTS.append(("np.random.set_state", st[1]))

    def normal(self, loc=0.0, scale=1.0, size=None):
        used("np.random.normal")
        NPRandom.count += 1
        EFFECTS.append(("np.random.normal", NPRandom.count, NPRandom.STATE))
        NPRandom.STATE = NPRandom.STATE[:-1] + (NPRandom.STATE[-1] + 1,)
        name = "rand%d" % NPRandom.count
        if size is None:
            return T.sym(name)
        if not isinstance(size, (tuple, list)):
            size = (size,)
        return A.input_arr(name, size)

    def RandomState(self, *a, **k):
        return Opaque("RandomState")


EFFECTS = []   # global side effects observed (RNG)


class LogAddExp:
    def reduce(self, a, axis=0, keepdims=False, initial=None, **kw):
        """trusted: log-sum-exp along axis, computed stably (DESIGN §3)"""
        used("np.logaddexp.reduce")
        a = lift(a)
        if not isinstance(a, Arr):
            return a
        if initial is not None and not (isinstance(initial, float) and initial == -math.inf):
            raise ModelError("logaddexp.reduce with a finite initial")
        e = ewise(lambda x: T.mk_exp(P(x)), a)
        s = A.reduce_arr(e, "sum", axis, keepdims)
        if isinstance(s, Arr):
            return ewise(lambda x: T.mk_log(P(x)), s)
        return T.mk_log(P(s))


class _UFunc:
    """binary ufunc stand-in: callable, with .outer"""

    def __init__(self, f, name):
        self.f, self.name = f, name
        self.np = getattr(f, "__self__", None)

    def __call__(self, *a, **k):
        return self.f(*a, **k)

    def reduce(self, x, axis=0, **kw):
        if self.name != "add":
            raise ModelError("np.%s.reduce" % self.name)
        used("np.add.reduce")
        return self.np.sum(x, axis=axis)

    def outer(self, a, b, **kw):
        used("np.%s.outer" % self.name)
        a, b = lift(a), lift(b)
        if not isinstance(a, Arr) or not isinstance(b, Arr):
            return self.f(a, b)
        a2 = A.getitem(a, (Ellipsis,) + (None,) * b.ndim)
        return self.f(a2, b)


class _NS:
    def __init__(self, **kw):
        self.__dict__.update(kw)


class FInfo:
    def __init__(self, t=None):
        self.eps = 2.220446049250313e-16
        self.max = 1.7976931348623157e308
        self.tiny = 2.2250738585072014e-308


class NP:
    """model of the numpy namespace (also serves dask.array: same values)"""

    def __init__(self, kind="numpy"):
        self._kind = kind
        self.linalg = NPLinalg()
        self.random = NPRandom()
        self.logaddexp = LogAddExp()
        self.pi = math.pi
        self.inf = math.inf
        self.nan = math.nan
        self.newaxis = None
        self.ndarray = TypeMarker("ndarray")
        self.float64 = TypeMarker("float64")
        self.int32 = TypeMarker("int32")
        self.int64 = TypeMarker("int64")
        self.intp = TypeMarker("intp")
        self.float32 = TypeMarker("float32")
        self.integer = TypeMarker("integer")       # np.integer: NumPy integer scalars (Python ints are not instances)
        self.Array = TypeMarker("daarray")      # dask.array.Array
        self.AxisError = TypeMarker("AxisError")
        self.core = _NS(Array=self.Array)       # dask.array.core.Array
        for nm_ in ("multiply", "add", "subtract"):
            setattr(self, nm_, _UFunc(getattr(self, nm_), nm_))

    def finfo(self, t=None):
        return FInfo(t)

    def reduction(self, x, chunk, aggregate, axis=None, dtype=None, keepdims=False, **kw):
        """dask.array.reduction (trusted contract, DESIGN §3): ``aggregate`` over
        the concatenation, along ``axis``, of ``chunk`` applied to every block of
        an arbitrary partition of that axis into consecutive blocks."""
        used("da.reduction")
        I = self._interp
        x = lift(x)
        if axis is None or not isinstance(axis, int):
            raise ModelError("da.reduction over several axes")
        axis = axis % x.ndim
        if axis != 0:
            raise ModelError("da.reduction along a non-leading axis")
        tag, nb, sz, off = T.new_partition(x.shape[0], "red")
        rest = x.shape[1:]

        def block(b):
            return Arr((sz(b),) + rest, lambda j, *r: x.fn(off(b) + j, *r), x.dtype, "numpy")
        bsym = T.fresh("b")
        bname = T.symname(bsym)
        part = I.call(chunk, [block(bsym)], {"axis": axis, "keepdims": True})
        if not isinstance(part, Arr) or not A.is_one(part.shape[0]):
            raise ModelError("da.reduction: chunk result does not keep a unit axis")
        stacked = Arr((nb,) + rest, lambda b, *r: T.subst(P(part.fn(ZERO, *r)), {bname: P(b)}), "real", "numpy")
        res = I.call(aggregate, [stacked], {"axis": axis, "keepdims": keepdims})
        if isinstance(res, Arr):
            res.kind = "dask"
        return res

    # ---- constructors
    def _mk(self, shape, val, like=None, dtype=None):
        if isinstance(shape, (int, Poly)):
            shape = (shape,)
        kind = like.kind if isinstance(like, Arr) else self._kind
        if kind not in ("numpy", "dask"):
            kind = "numpy"
        return A.const_arr(tuple(shape), val, kind)

    def zeros(self, shape, dtype=None, like=None, **kw):
        used("np.zeros")
        return self._mk(shape, 0, like)

    def ones(self, shape, dtype=None, like=None, **kw):
        used("np.ones")
        return self._mk(shape, 1, like)

    def full(self, shape, fill_value, dtype=None, like=None, **kw):
        used("np.full")
        return self._mk(shape, to_scalar(fill_value), like)

    def zeros_like(self, a, dtype=None, **kw):
        used("np.zeros_like")
        a = lift(a)
        return A.const_arr(a.shape, 0, a.kind, dtype=a.dtype if (dtype is None and a.dtype == "int") else "real")

    def ones_like(self, a, dtype=None, **kw):
        used("np.ones_like")
        a = lift(a)
        return A.const_arr(a.shape, 1, a.kind, dtype=a.dtype if (dtype is None and a.dtype == "int") else "real")

    def eye(self, n, m=None, **kw):
        used("np.eye")
        return A.eye(n, m)

    def array(self, x, dtype=None, like=None, **kw):
        used("np.array")
        r = lift(x)
        if isinstance(r, Arr):
            r = r.copy()
            if A.floaty(dtype):
                r.dtype = "real"
            elif dtype is not None and A.is_int_type(dtype) and r.dtype == "real":
                r = r.astype(dtype)
            if isinstance(like, Arr):
                r.kind = like.kind
            elif self._kind == "dask":
                r.kind = "dask"
        return r

    def asarray(self, x, dtype=None, **kw):
        used("np.asarray")
        r = lift(x)
        if isinstance(r, Arr) and A.floaty(dtype) and r.dtype != "real":
            r = r.astype(float)
        elif isinstance(r, Arr) and dtype is not None and A.is_int_type(dtype) and r.dtype == "real":
            r = r.astype(dtype)
        return r

    def atleast_2d(self, x):
        used("np.atleast_2d")
        x = lift(x)
        if isinstance(x, Arr) and x.ndim == 0:
            x = x.fn()
        if is_scalar(x):
            v = P(x)
            return Arr((ONE, ONE), lambda i, j: v)
        if x.ndim == 1:
            return A.getitem(x, (None, slice(None)))
        return x

    def squeeze(self, x, axis=None):
        used("np.squeeze")
        x = lift(x)
        if not isinstance(x, Arr):
            return x
        keep = [k for k, d in enumerate(x.shape) if not A.is_one(d)]
        return A.reshape(x, [x.shape[k] for k in keep])

    def expand_dims(self, x, axis):
        used("np.expand_dims")
        x = lift(x)
        axis = axis % (x.ndim + 1)
        key = [slice(None)] * x.ndim
        key.insert(axis, None)
        return A.getitem(x, tuple(key))

    # ---- elementwise
    def log(self, x):
        used("np.log")
        if isinstance(x, (int, float)) and not isinstance(x, bool):
            if x <= 0:
                T.side("pos", Poly.const(0), "log of a non-positive constant")
                return -math.inf
            return math.log(x)   # constants are evaluated by CPython
        x = lift(x)
        if getattr(x, "lse", None) == ("safe",):
            # log Σ_k exp(a_k - max_k a_k): the sum is >= 1 (the term at the maximum is exp(0)), no underflow hazard
            return ewise(lambda a: T.mk_log(P(a)), x)
        return ewise(_user_log, x)

    def exp(self, x):
        used("np.exp")
        x = lift(x)
        r = ewise(lambda a: T.mk_exp(P(a)), x)
        tag = getattr(x, "lse", None)
        if tag and tag[0] == "shifted" and isinstance(r, Arr):
            r.lse = ("expshift", tag[1])
        return r

    def sqrt(self, x):
        used("np.sqrt")
        return ewise(lambda a: T.mk_sqrt(P(a)), lift(x))

    def abs(self, x):
        used("np.abs")
        return ewise(lambda a: T.mk_abs(P(a)), lift(x))

    absolute = abs

    def _cmp_ufunc(self, name, op, a, b):
        used("np." + name)
        a, b = lift(a), lift(b)
        if not isinstance(a, Arr) and not isinstance(b, Arr):
            return T.cmp_cond(op, P(a), P(b))
        if not isinstance(a, Arr):
            flip = {"<": ">", "<=": ">=", ">": "<", ">=": "<=", "==": "==", "!=": "!="}[op]
            return self._cmp_ufunc(name, flip, b, a)
        import operator as _o
        return {"<": _o.lt, "<=": _o.le, ">": _o.gt, ">=": _o.ge, "==": _o.eq, "!=": _o.ne}[op](a, b)

    def less(self, a, b):
        return self._cmp_ufunc("less", "<", a, b)

    def less_equal(self, a, b):
        return self._cmp_ufunc("less_equal", "<=", a, b)

    def greater(self, a, b):
        return self._cmp_ufunc("greater", ">", a, b)

    def greater_equal(self, a, b):
        return self._cmp_ufunc("greater_equal", ">=", a, b)

    def equal(self, a, b):
        return self._cmp_ufunc("equal", "==", a, b)

    def not_equal(self, a, b):
        return self._cmp_ufunc("not_equal", "!=", a, b)

    def reciprocal(self, x, dtype=None, **kw):
        used("np.reciprocal")
        x = lift(x)
        if isinstance(x, Arr) and x.dtype == "int" and not A.floaty(dtype):
            raise ModelError("np.reciprocal of an integer array (integer division) is not modelled")
        return ewise(lambda a: A._div(ONE, a), x, dtype="real")

    def square(self, x, dtype=None, **kw):
        used("np.square")
        return ewise(lambda a: P(a) * P(a), lift(x), arith="square", dtype="real" if A.floaty(dtype) else None)

    def power(self, x, n, dtype=None, **kw):
        used("np.power")
        return ewise(lambda a: A._pow(a, to_scalar(n)), lift(x), arith="power", dtype="real" if A.floaty(dtype) else None)

    def multiply(self, a, b, dtype=None, **kw):
        used("np.multiply")
        return ewise(lambda x, y: P(x) * P(y), lift(a), lift(b), arith="multiply", dtype="real" if A.floaty(dtype) else None)

    def add(self, a, b, dtype=None, **kw):
        used("np.add")
        return ewise(lambda x, y: P(x) + P(y), lift(a), lift(b), arith="add", dtype="real" if A.floaty(dtype) else None)

    def subtract(self, a, b, dtype=None, **kw):
        used("np.subtract")
        if isinstance(a, Arr) and isinstance(b, Arr) and dtype is None and not kw:
            return a - b
        return ewise(lambda x, y: P(x) - P(y), lift(a), lift(b), arith="subtract", dtype="real" if A.floaty(dtype) else None)

    def divide(self, a, b):
        used("np.divide")
        return ewise(A._div, lift(a), lift(b))

    true_divide = divide

    def maximum(self, a, b):
        used("np.maximum")
        return ewise(lambda x, y: T.mk_max(P(x), P(y)), lift(a), lift(b))

    def minimum(self, a, b):
        used("np.minimum")
        return ewise(lambda x, y: T.mk_min(P(x), P(y)), lift(a), lift(b))

    def clip(self, a, a_min=None, a_max=None, **kw):
        used("np.clip")
        r = lift(a)
        if a_min is not None:
            r = ewise(lambda x, y: T.mk_max(P(x), P(y)), r, lift(a_min))
        if a_max is not None:
            r = ewise(lambda x, y: T.mk_min(P(x), P(y)), r, lift(a_max))
        return r

    def where(self, cond, x=None, y=None):
        used("np.where")
        cond = lift(cond)
        if x is None and y is None:
            if not isinstance(cond, Arr) or cond.ndim != 1:
                raise ModelError("np.where(cond) on a non-1-d condition")
            cc = cond
            return (A.IndexSet(lambda i: T.mk_ind(C(cc.fn(i))), cond.shape[0]),)
        return ewise(lambda c, a, b: T.mk_ite(C(c), P(a), P(b)), cond, lift(x), lift(y), dtype="real")

    def count_nonzero(self, x, axis=None, **kw):
        used("np.count_nonzero")
        x = lift(x)
        if not isinstance(x, Arr):
            return T.mk_ind(T.cmp_cond("!=", P(x), ZERO)) if isinstance(x, Poly) else (T.mk_ind(C(x)) if isinstance(x, T.Cond) else int(bool(x)))
        xf, isb = x.fn, x.dtype == "bool"
        ind = Arr(x.shape, lambda *idx: T.mk_ind(C(xf(*idx)) if isb else T.cmp_cond("!=", P(xf(*idx)), ZERO)), "int", x.kind)
        return ind.sum(axis=axis)

    def nonzero(self, x):
        """np.nonzero of a 1-d array: the tuple holding the selected positions (as np.where(cond))"""
        used("np.nonzero")
        x = lift(x)
        if not isinstance(x, Arr) or x.ndim != 1:
            raise ModelError("np.nonzero on a non-1-d array")
        return (self.flatnonzero(x),)

    def result_type(self, *args):
        """the common dtype: float64 as soon as one operand is floating (all the code base asks for)"""
        used("np.result_type")
        for a in args:
            if A.floaty(a) or (isinstance(a, Arr) and a.dtype == "real") or isinstance(a, (float, Poly)):
                return self.float64
        if all((isinstance(a, Arr) and a.dtype in ("int", "bool")) or a is int or isinstance(a, int) for a in args):
            return self.int64
        raise ModelError("np.result_type of %s" % ", ".join(type(a).__name__ for a in args))

    def flatnonzero(self, x):
        used("np.flatnonzero")
        x = lift(x)
        if not isinstance(x, Arr) or x.ndim != 1:
            raise ModelError("np.flatnonzero on a non-1-d array")
        xf = x.fn
        return A.IndexSet(lambda i: T.mk_ind(C(xf(i)) if x.dtype == "bool" else T.cmp_cond("!=", P(xf(i)), ZERO)), x.shape[0])

    def identity(self, n, dtype=None, **kw):
        used("np.identity")
        return A.eye(n, None)

    # ---- reductions
    def sum(self, x, axis=None, keepdims=False, **kw):
        used("np.sum")
        x = lift(x)
        if not isinstance(x, Arr):
            return x
        return x.sum(axis=axis, keepdims=keepdims)

    def prod(self, x, axis=None, keepdims=False, **kw):
        """product along an axis, for positive factors: exp(Σ log x).  Float model (DESIGN §2.4): a product over an
        axis of symbolic length leaves the float64 range for ordinary inputs (64 variances of 1e-6 -> 0) although the
        mathematical value is finite -- a 'floatrange' hazard is emitted"""
        used("np.prod")
        x = lift(x)
        if not isinstance(x, Arr):
            return x
        if keepdims:
            raise ModelError("np.prod keepdims")
        ax = axis
        if isinstance(ax, Poly):
            ax = ax.as_int()
        if ax is None:
            if x.ndim != 1:
                raise ModelError("np.prod over all axes")
            ax = 0
        ax = ax % x.ndim
        if P(x.shape[ax]).as_int() is None:
            T.side("floatrange", "prod", "product over an axis of symbolic length")
        xf = x.fn

        def lg(*idx):
            v = P(xf(*idx))
            T.side("pos", v, "factor of a product (modelled as exp of a sum of logs)")
            return T.mk_log(v)
        logs = Arr(x.shape, lg, "real", x.kind)
        s = logs.sum(axis=ax)
        return ewise(lambda a: T.mk_exp(P(a)), s) if isinstance(s, Arr) else T.mk_exp(P(s))

    def mean(self, x, axis=None, keepdims=False, **kw):
        used("np.mean")
        x = lift(x)
        if not isinstance(x, Arr):
            return x
        return x.mean(axis=axis, keepdims=keepdims)

    def min(self, x, axis=None, keepdims=False, **kw):
        used("np.min")
        return lift(x).min(axis=axis, keepdims=keepdims)

    def max(self, x, axis=None, keepdims=False, **kw):
        used("np.max")
        return lift(x).max(axis=axis, keepdims=keepdims)

    amin, amax = min, max

    def argmin(self, x, axis=None, **kw):
        used("np.argmin")
        return lift(x).argmin(axis=axis)

    def argmax(self, x, axis=None, **kw):
        used("np.argmax")
        return lift(x).argmax(axis=axis)

    def bincount(self, idx, weights=None, minlength=0):
        used("np.bincount")
        if isinstance(idx, Concat):
            if weights is not None:
                raise ModelError("bincount of a concatenation with weights")
            return idx.bincount(minlength)
        idx = lift(idx)
        if weights is not None:
            w = lift(weights)
            if not isinstance(idx, Arr) or idx.ndim != 1 or not isinstance(w, Arr) or w.ndim != 1:
                raise ShapeError("bincount: object too deep / weights not 1-d")
            if not A.dim_eq(idx.shape[0], w.shape[0]):
                raise PyRaise("ValueError", "The weights and list don't have the same length.")
            n_, ifn, wfn = idx.shape[0], idx.fn, w.fn
            return Arr((P(minlength),), lambda k: T.Sum(n_, lambda s: T.mk_ind(T.cmp_cond("==", ifn(s), k)) * P(wfn(s)), "s"), "real", idx.kind)
        if not isinstance(idx, Arr) or idx.ndim != 1:
            raise ShapeError("bincount: object too deep / not 1-d")
        n = idx.shape[0]
        # trusted: result length is max(minlength, max(idx)+1); the callers pass
        # indices < minlength (argmin over minlength rows), obligation emitted
        return Arr((P(minlength),), lambda k: T.Sum(n, lambda s: T.mk_ind(T.cmp_cond("==", idx.fn(s), k)), "s"), "int", idx.kind)

    def diagonal(self, x, offset=0, axis1=0, axis2=1):
        used("np.diagonal")
        x = lift(x)
        a1, a2 = axis1 % x.ndim, axis2 % x.ndim
        if offset != 0:
            raise ModelError("diagonal with offset")
        if not A.dim_eq(x.shape[a1], x.shape[a2]):
            raise ModelError("diagonal of a non-square matrix")
        rest = [k for k in range(x.ndim) if k not in (a1, a2)]
        shape = tuple(x.shape[k] for k in rest) + (x.shape[a1],)

        def fn(*idx):
            full = [None] * x.ndim
            for p, k in enumerate(rest):
                full[k] = idx[p]
            full[a1] = full[a2] = idx[-1]
            return x.fn(*full)
        return Arr(shape, fn, x.dtype, x.kind)

    # ---- shape
    def asanyarray(self, x, dtype=None, **kw):
        used("np.asanyarray")
        return self.asarray(x, dtype=dtype)

    def isscalar(self, x):
        used("np.isscalar")
        if isinstance(x, Arr):
            return False
        if isinstance(x, (list, tuple, dict, set, SList)) or x is None:
            return False
        return is_scalar(x) or isinstance(x, (int, float, bool, str, Poly))

    def stack(self, xs, axis=0, **kw):
        used("np.stack")
        if axis != 0:
            raise ModelError("np.stack along an axis other than 0")
        if isinstance(xs, (list, tuple)):
            xs = [lift(x) for x in xs]
            if not xs:
                raise PyRaise("ValueError", "need at least one array to stack")
            if all(isinstance(x, Arr) for x in xs) or all(is_scalar(x) for x in xs):
                return A.stack_list(xs)
            raise ModelError("np.stack of mixed operands")
        if isinstance(xs, SList):
            return A.stack_list(xs)
        raise ModelError("np.stack of %s" % type(xs).__name__)

    def vstack(self, xs):
        used("np.vstack")
        if isinstance(xs, (list, tuple)):
            xs = [lift(x) for x in xs]
            if all(isinstance(x, Arr) and x.ndim == 1 for x in xs):
                return A.stack_list(xs)
            if all(is_scalar(x) for x in xs):
                return A.getitem(A.stack_list(xs), (slice(None), None))
            raise ModelError("vstack of non-1-d arrays")
        if isinstance(xs, SList):
            probe = xs.elem(T.fresh("p"))
            if isinstance(probe, Arr) and probe.ndim == 1:
                return A.stack_list(xs)
            if is_scalar(probe):
                return A.getitem(A.stack_list(xs), (slice(None), None))
            raise ModelError("vstack of non-1-d arrays")
        raise ModelError("vstack of %s" % type(xs).__name__)

    def concatenate(self, xs, axis=0):
        used("np.concatenate")
        if isinstance(xs, SList):
            return Concat(xs)
        if isinstance(xs, (list, tuple)) and len(xs) == 1:
            return lift(xs[0])
        raise ModelError("concatenate of a concrete list of several arrays")

    def transpose(self, x, axes=None):
        used("np.transpose")
        x = lift(x)
        return x.transpose(*(axes or ()))

    def moveaxis(self, x, source, destination):
        used("np.moveaxis")
        x = lift(x)
        if not isinstance(source, int) or not isinstance(destination, int):
            raise ModelError("np.moveaxis with several axes")
        n = x.ndim
        src, dst = source % n, destination % n
        order = [i for i in range(n) if i != src]
        order.insert(dst, src)
        return x.transpose(*order)

    def swapaxes(self, x, a, b):
        used("np.swapaxes")
        return lift(x).swapaxes(a, b)

    def reshape(self, x, shape):
        used("np.reshape")
        return A.reshape(lift(x), shape if isinstance(shape, (tuple, list)) else (shape,))

    def repeat(self, x, n, axis=None):
        used("np.repeat")
        return A.repeat(lift(x), n, axis)

    def broadcast_to(self, x, shape):
        used("np.broadcast_to")
        x = lift(x)
        shape = tuple(P(d) for d in shape)
        A.bshape([x.shape, shape])
        mp = A._bidx(x, len(shape))
        return Arr(shape, lambda *idx: x.fn(*mp(idx)), x.dtype, x.kind, origin=x.origin)

    # ---- products
    def dot(self, a, b):
        used("np.dot")
        a, b = lift(a), lift(b)
        if is_scalar(a) or is_scalar(b):
            return a * b
        if a.ndim <= 2 and b.ndim <= 2:
            return A.matmul(a, b)
        raise ModelError("np.dot of >2-d arrays")

    def matmul(self, a, b):
        used("np.matmul")
        return A.matmul(lift(a), lift(b))

    def outer(self, a, b):
        used("np.outer")
        a, b = lift(a), lift(b)
        if a.ndim != 1 or b.ndim != 1:
            raise ModelError("outer of non-vectors")
        return Arr((a.shape[0], b.shape[0]), lambda i, j: P(a.fn(i)) * P(b.fn(j)))

    def einsum(self, spec, *ops, **kw):
        used("np.einsum")
        return A.einsum(spec, *[lift(o) for o in ops])

    def tensordot(self, a, b, axes=2):
        used("np.tensordot")
        return A.tensordot(lift(a), lift(b), axes)

    def cov(self, x, **kw):
        used("np.cov")
        x = lift(x)  # rows = variables, columns = observations
        if A.is_one(x.shape[0]):
            # a single variable: NumPy returns a 0-d array
            n = x.shape[1]
            m = x.mean(axis=1, keepdims=True)
            xc = x - m
            T.side("nonzero", n - 1, "covariance of a single observation")
            return Arr((), lambda: P((A.matmul(xc, xc.T) / (n - 1)).fn(ZERO, ZERO)))
        n = x.shape[1]
        m = x.mean(axis=1, keepdims=True)
        xc = x - m
        T.side("nonzero", n - 1, "covariance of a single observation")
        return A.matmul(xc, xc.T) / (n - 1)

    # ---- comparisons used by __eq__ helpers
    def array_equal(self, a, b, **kw):
        """same shape and every element equal"""
        used("np.array_equal")
        a, b = lift(a), lift(b)
        if not isinstance(a, Arr) or not isinstance(b, Arr):
            if isinstance(a, Arr) or isinstance(b, Arr):
                raise ModelError("np.array_equal of an array and a scalar")
            return T.cmp_cond("==", P(a), P(b))
        if a.ndim != b.ndim or not all(A.dim_eq(x, y) for x, y in zip(a.shape, b.shape)):
            return False
        if a.ndim == 0:
            return T.cmp_cond("==", P(a.fn()), P(b.fn()))
        diff = ewise(lambda x, y: T.mk_ind(T.cmp_cond("!=", P(x), P(y))), a, b, dtype="real")
        tot = diff.sum()
        return T.cmp_cond("==", P(tot if not isinstance(tot, Arr) else tot.fn()), ZERO)

    def allclose(self, a, b, rtol=1e-05, atol=1e-08, equal_nan=False):
        """every element within atol + rtol*|b|"""
        used("np.allclose")
        c = self.isclose(a, b, rtol=rtol, atol=atol)
        if not isinstance(c, Arr):
            return c
        if c.ndim == 0:
            return C(c.fn())
        bad = ewise(lambda x: T.mk_ind(T.c_not(C(x))), c, dtype="real").sum()
        return T.cmp_cond("==", P(bad if not isinstance(bad, Arr) else bad.fn()), ZERO)

    def isclose(self, a, b, rtol=1e-05, atol=1e-08, equal_nan=False):
        used("np.isclose")
        rt, at = P(rtol), P(atol)
        return ewise(lambda x, y: T.cmp_cond("<=", T.mk_abs(P(x) - P(y)), at + rt * T.mk_abs(P(y))), lift(a), lift(b), dtype="bool")

    def any(self, x, axis=None, **kw):
        used("np.any")
        x = lift(x)
        if not isinstance(x, Arr):
            return T.cmp_cond("!=", P(x), ZERO) if isinstance(x, Poly) else (C(x) if isinstance(x, T.Cond) else bool(x))
        return x.any(axis=axis)

    def all(self, x, axis=None, **kw):
        used("np.all")
        x = lift(x)
        if not isinstance(x, Arr):
            return T.cmp_cond("!=", P(x), ZERO) if isinstance(x, Poly) else (C(x) if isinstance(x, T.Cond) else bool(x))
        return x.all(axis=axis)

    def isfinite(self, x):
        """real-valued terms denote finite numbers; the floats inf / nan are the only non-finite values of the model;
        a symbol declared 'maybe infinite' (T.EXTENDED) gives an undetermined condition"""
        used("np.isfinite")
        x = lift(x)

        def fin(v):
            if isinstance(v, float):
                return v == v and v not in (float("inf"), float("-inf"))
            if isinstance(v, Poly):
                ext = [n for n in v.syms if n in T.EXTENDED]
                if ext:
                    return T.cmp_cond("==", T.app("isfinite", v, sort="int"), ONE)
            return True
        if isinstance(x, Arr):
            return ewise(lambda v: C(fin(v)), x, dtype="bool")
        return fin(x)


class Concat:
    """np.concatenate of a symbolic list of 1-d integer arrays (ragged)."""

    def __init__(self, lst):
        self.lst = lst

    def slen(self):
        lst = self.lst

        def blen(b):
            blk = lst.elem(b)
            if not isinstance(blk, Arr) or blk.ndim != 1:
                raise ModelError("concatenate of non-1-d blocks")
            return P(blk.shape[0])
        return T.Sum(lst.length, blen, "b")

    @property
    def shape(self):
        return (self.slen(),)

    def bincount(self, minlength):
        lst = self.lst

        def fn(k):
            def per_block(b):
                blk = lst.elem(b)
                if not isinstance(blk, Arr) or blk.ndim != 1:
                    raise ModelError("concatenate of non-1-d blocks")
                return T.Sum(blk.shape[0], lambda s: T.mk_ind(T.cmp_cond("==", blk.fn(s), k)), "s")
            return T.Sum(lst.length, per_block, "b")
        return Arr((P(minlength),), fn, "int")


class Scipy:
    class spatial:
        class distance:
            @staticmethod
            def cdist(a, b, metric="euclidean"):
                used("scipy.cdist")
                if metric != "sqeuclidean":
                    raise ModelError("cdist metric %s" % metric)
                a, b = lift(a), lift(b)
                if a.ndim != 2 or b.ndim != 2:
                    raise PyRaise("ValueError", "XA must be a 2-dimensional array.")
                if not A.dim_eq(a.shape[1], b.shape[1]):
                    raise PyRaise("ValueError", "XA and XB must have the same number of columns")
                return Arr((a.shape[0], b.shape[0]),
                           lambda i, j: T.Sum(a.shape[1], lambda d: (P(a.fn(i, d)) - P(b.fn(j, d))) ** 2, "d"))
