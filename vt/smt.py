"""Back ends: sign analysis, z3 (python API), cvc5 (binary) for the residual
quantifier-free goals.  Atoms that are not arithmetic are abstracted by fresh
reals/ints together with the axioms of their kind (sound for proving)."""
import subprocess
import tempfile
import time
import os
from fractions import Fraction

try:
    import z3
except ImportError:      # the repository's own venv has no z3: only Facts / sign analysis are used there
    z3 = None

from . import terms as T
from .terms import Poly, Cond, P, C, ZERO, ONE

STATS = {"z3_calls": 0, "z3_s": 0.0, "cvc5_calls": 0, "cvc5_s": 0.0, "normaliser": 0, "sign": 0}


class Facts:
    """assumptions available to a proof: families of positive array elements,
    positive / non-negative symbols, integer dimension symbols (>= 1) and
    ground conditions"""

    def __init__(self, pos_apps=(), nonneg_apps=(), pos_syms=(), nonneg_syms=(), conds=(), dims=()):
        self.pos_apps = set(pos_apps)
        self.nonneg_apps = set(nonneg_apps)
        self.pos_syms = set(pos_syms) | set(dims)
        self.nonneg_syms = set(nonneg_syms)
        self.conds = list(conds)
        self.dims = set(dims)
        self.pos_terms = set()   # Poly keys known positive
        self.lower = {}          # app name -> fn(*index terms) -> Poly lower bound (e.g. variances >= floors)
        self.int_apps = {}
        self.samplers = {}       # numeric refutation only: app name -> fn(args, env) giving structured sample values
        self.dim_values = {}     # numeric refutation only: dimension symbol -> list of values to sample from

    def extend(self, conds=()):
        f = Facts(self.pos_apps, self.nonneg_apps, self.pos_syms - self.dims, self.nonneg_syms,
                  self.conds + list(conds), self.dims)
        f.pos_terms = set(self.pos_terms)
        f.lower = dict(self.lower)
        f.pos_preds = list(getattr(self, "pos_preds", ()))
        f.upper = dict(getattr(self, "upper", {}))
        f.int_apps = dict(self.int_apps)
        f.samplers = dict(self.samplers)
        f.dim_values = dict(self.dim_values)
        if conds:
            derive_bounds(f, conds)
        return f


def equality_substitutions(F):
    """ground hypotheses  symbol == constant  (a path taken only for one sample, one component, ...): the symbol can be
    replaced by the constant everywhere"""
    mp = {}
    for h in F.conds:
        h = C(h)
        if h.kind != "cmp" or h.args[0] != "==0":
            continue
        d = h.args[1]
        syms = [(m, co) for m, co in d.terms if len(m) == 1 and m[0][1] == 1 and m[0][0].kind == "sym"]
        rest = [(m, co) for m, co in d.terms if m]
        if len(syms) == 1 and len(rest) == 1:
            m, co = syms[0]
            const = d - Poly({m: co})
            if const.is_const():
                name = m[0][0].args[0]
                if "#" not in name and name not in mp:
                    mp[name] = Poly.const(-const.const_value() / co)
    return mp


def derive_bounds(F, conds):
    """a hypothesis `np.all(a <= b)` arrives as  Σ_idx [a[idx] - b > 0] == 0 : for an array a indexed by exactly the summed
    variables and b free of them this IS the elementwise bound a[...] <= b (resp. >=): recorded as a bound fact, which the
    max/min simplifier and the z3 translation both know how to use"""
    for h in conds:
        h = C(h)
        if h.kind != "cmp" or h.args[0] != "==0":
            continue
        d = h.args[1]
        if len(d.terms) != 1 or d.terms[0][1] not in (1, -1):
            continue
        mono = d.terms[0][0]
        if len(mono) != 1 or mono[0][1] != 1:
            continue
        atom, bvars = mono[0][0], []
        ok = True
        while atom.kind == "sum":
            v, bnd, body = T.open_binder(atom)
            bvars.append(T.symname(v))
            if len(body.terms) != 1 or body.terms[0][1] != 1 or len(body.terms[0][0]) != 1 or body.terms[0][0][0][1] != 1:
                ok = False
                break
            atom = body.terms[0][0][0][0]
        if not ok or not bvars or atom.kind != "ind":
            continue
        c = atom.args[0]
        if c.kind != "cmp" or c.args[0] not in (">0", ">=0", "!=0"):
            continue
        both = c.args[0] == "!=0"       # `not np.any(a)`: [a != 0] is 0 for every index: a == 0 everywhere
        e = c.args[1]           # [e > 0] is 0 for every index:  e <= 0 everywhere
        hits = [(m, co) for m, co in e.terms if any(n in bvars for a, _ in m for n in a.syms)]
        # the bounded array: an element indexed by distinct summed variables covering every summed variable the
        # condition mentions; the rest may depend on (a subset of) those indices:  thr[c, d] >= new[d]
        used_b = {n for m, _ in hits for a, _p in m for n in a.syms if n in bvars}
        for m, co in hits:
            if len(m) != 1 or m[0][1] != 1 or m[0][0].kind != "app" or co not in (1, -1):
                continue
            a = m[0][0]
            idx = a.args[1:]
            names = [T.symname(i) if isinstance(i, Poly) else None for i in idx]
            if None in names or len(names) != len(set(names)) or not set(names) <= set(bvars) or not used_b <= set(names):
                continue
            rest = e - Poly({m: co})
            if a.args[0] in {x.args[0] for mm, _c in rest.terms for x, _p in mm if x.kind == "app"}:
                continue
            # co * a + rest <= 0
            bound = (ZERO - rest) if co == 1 else rest
            if getattr(F, "upper", None) is None:
                F.upper = {}
            fn = (lambda *ix, bound=bound, names=names: T.subst(bound, {n: P(i) for n, i in zip(names, ix)}) if len(ix) == len(names) else (_ for _ in ()).throw(TypeError("rank")))
            tables = [F.upper, F.lower] if both else [F.upper if co == 1 else F.lower]
            done = False
            for table in tables:
                if a.args[0] not in table:
                    table[a.args[0]] = fn
                    done = True
            if done:
                break


# ---------------------------------------------------------------- sign analysis
# returns one of '+', '0+', '-', '0-', '0', '?'
def _mul_sign(a, b):
    if a == "0" or b == "0":
        return "0"
    if a == "?" or b == "?":
        return "?"
    neg = (a[-1] == "-") != (b[-1] == "-")
    strict = a in "+-" and b in "+-"
    return ("-" if neg else "+") if strict else ("0-" if neg else "0+")


def _add_sign(a, b):
    if a == "0":
        return b
    if b == "0":
        return a
    if a == "?" or b == "?":
        return "?"
    if a[-1] != b[-1]:
        return "?"
    s = a[-1]
    return s if (a in "+-" or b in "+-") else "0" + s


def _pow_sign(s, p):
    if p % 2 == 0:
        if s in "+-":
            return "+"
        return "0+" if p > 0 else "?"
    if p > 0:
        return s
    return s if s in "+-" else "?"


def sign_atom(a, F):
    k = a.kind
    if k == "sym":
        n = a.args[0]
        if n in F.pos_syms:
            return "+"
        if n in F.nonneg_syms:
            return "0+"
        if a.sort == "int" and n.split("#")[0] in ("i", "k", "s", "d", "j", "b", "c", "p", "q", "r", "m", "mi", "mj"):
            return "0+"  # index variables range over 0..bound-1
        return "?"
    if k == "bv":
        return "0+"
    if k == "app":
        n = a.args[0]
        if n in F.pos_apps or str(n).startswith("csz:"):
            # blocks of a partition are taken non-empty (an empty block contributes
            # log 0 = -inf, which the stable log-add-exp absorbs) -- listed assumption
            return "+"
        if str(n).startswith("coff:"):
            return "0+"
        if n in F.nonneg_apps:
            return "0+"
        return "?"
    if k == "exp":
        return "+"
    if k == "sum":
        s = sign_poly(a.args[1], F)
        bs = sign_poly(a.args[0], F)
        if s == "+":
            return "+" if bs == "+" else "0+"
        if s in ("0+", "0"):
            return "0+"
        if s == "-":
            return "-" if bs == "+" else "0-"
        if s == "0-":
            return "0-"
        return "?"
    if k == "rcp":
        s = sign_poly(a.args[0], F)
        return s if s in "+-" else "?"
    if k == "sqrt":
        s = sign_poly(a.args[0], F)
        return "+" if s == "+" else "0+"
    if k == "abs":
        s = sign_poly(a.args[0], F)
        return "+" if s in "+-" else "0+"
    if k == "ind":
        return "0+"
    if k == "max":
        s1, s2 = sign_poly(a.args[0], F), sign_poly(a.args[1], F)
        if "+" in (s1, s2):
            return "+"
        if "0+" in (s1, s2):
            return "0+"
        if s1 in ("-", "0-") and s2 in ("-", "0-"):
            return "0-" if "0-" in (s1, s2) else "-"
        return "?"
    if k == "min":
        s1, s2 = sign_poly(a.args[0], F), sign_poly(a.args[1], F)
        if s1 == "+" and s2 == "+":
            return "+"
        if s1 in ("+", "0+") and s2 in ("+", "0+"):
            return "0+"
        if "-" in (s1, s2):
            return "-"
        return "?"
    if k == "ite":
        s1, s2 = sign_poly(a.args[1], F), sign_poly(a.args[2], F)
        if s1 == s2:
            return s1
        if s1 in ("+", "0+") and s2 in ("+", "0+"):
            return "0+"
        return "?"
    if k in ("minred", "maxred"):
        return sign_poly(a.args[1], F)
    if k in ("argmin", "argmax"):
        return "0+"
    return "?"


def sign_poly(p, F):
    p = P(p)
    if p.key in F.pos_terms:
        return "+"
    for pred in getattr(F, "pos_preds", ()):
        if pred(p):
            return "+"
    tot = "0"
    for m, c in p.terms:
        s = "+" if c > 0 else "-"
        for a, pw in m:
            s = _mul_sign(s, _pow_sign(sign_atom(a, F), pw))
            if s == "?":
                return "?"
        tot = _add_sign(tot, s)
        if tot == "?":
            return "?"
    return tot


def simplify_facts(p, F, depth=0):
    """use the lower/upper-bound facts on array elements to collapse max/min atoms anywhere in a term
    (also under binders, where z3 sees only an opaque atom):  max(v[i], thr) = v[i] when v >= thr is a fact"""
    if not isinstance(p, Poly) or depth > 8 or not (F.lower or getattr(F, "upper", None)):
        return p

    def bound_ok(x, y, table, ge):
        # is x (an element of a bounded array) known >= y (ge) / <= y ?
        at = T._single_atom(x, "app")
        if at is None or at.args[0] not in table:
            return False
        try:
            b = P(table[at.args[0]](*at.args[1:]))
        except TypeError:
            return False
        # chains of stated bounds:  x >= b1 >= b2 ...  and  y <= u1 <= u2 ...  (for ge; mirrored otherwise); linked when a
        # member of one chain equals a member of the other, or a ground hypothesis relates them
        other = (getattr(F, "upper", None) or {}) if ge else F.lower

        def chain(start, tbl):
            out_, cur = [start], start
            for _ in range(3):
                at_ = T._single_atom(cur, "app")
                if at_ is None or at_.args[0] not in tbl:
                    break
                try:
                    cur = P(tbl[at_.args[0]](*at_.args[1:]))
                except TypeError:
                    break
                out_.append(cur)
            return out_
        bs, ys = chain(b, table), chain(y, other)
        for b2 in bs:
            for y2 in ys:
                if T.equal(b2, y2):
                    return True
                if b2.hasbv or y2.hasbv:
                    continue
                need = T.cmp_cond("<=", y2, b2) if ge else T.cmp_cond("<=", b2, y2)
                if need.const() is True:
                    return True
                strict = T.cmp_cond("<", y2, b2) if ge else T.cmp_cond("<", b2, y2)
                if any(C(c) == need or C(c) == strict for c in F.conds):
                    return True
        return False

    def fix_atom(a):
        k = a.kind
        if k in ("max", "min"):
            x, y = simplify_facts(a.args[0], F, depth + 1), simplify_facts(a.args[1], F, depth + 1)
            for u, w in ((x, y), (y, x)):
                if bound_ok(u, w, F.lower, True):
                    return u if k == "max" else w
                if bound_ok(u, w, getattr(F, "upper", {}), False):
                    return w if k == "max" else u
            return T.mk_max(x, y) if k == "max" else T.mk_min(x, y)
        if k in T.BINDERS:
            v, bnd, body = T.open_binder(a)
            nb = simplify_facts(body, F, depth + 1)
            if nb is body:
                return None
            return T.close_binder(k, v, bnd, nb, a.sort)
        if k in ("sym", "bv"):
            return None
        if k == "app" and a.args[0] in F.lower and a.args[0] in (getattr(F, "upper", None) or {}):
            # an element pinned by equal bounds from both sides (`not np.any(n)`: n == 0 everywhere)
            try:
                lo_, up_ = P(F.lower[a.args[0]](*a.args[1:])), P(F.upper[a.args[0]](*a.args[1:]))
                if T.equal(lo_, up_):
                    return lo_
            except TypeError:
                pass
        new = T.rebuild_atom(a, lambda q: simplify_facts(q, F, depth + 1) if isinstance(q, Poly) else q)
        if len(new.terms) == 1 and new.terms[0][0] == ((a, 1),) and new.terms[0][1] == 1:
            return None
        return new
    out = ZERO
    changed = False
    for m, c in p.terms:
        t = Poly.const(c)
        for a, pw in m:
            r = fix_atom(a)
            if r is None:
                t = t * Poly.atom(a, pw)
            else:
                changed = True
                t = t * (r ** pw)
        out = out + t
    return out if changed else p


# ---------------------------------------------------------------- z3 translation
class Tr:
    def __init__(self, F):
        self.F = F
        self.cache = {}
        self.axioms = []
        self.n = 0
        self.names = {}

    def fresh(self, sort, atom):
        self.n += 1
        nm = "a%d" % self.n
        self.names[nm] = atom
        return z3.Int(nm) if sort == "int" else z3.Real(nm)

    def poly(self, p):
        p = P(p)
        tot = None
        for m, c in p.terms:
            t = z3.RealVal(str(c)) if c.denominator != 1 else z3.IntVal(int(c))
            first = True
            for a, pw in m:
                v = self.atom(a)
                if pw < 0:
                    v = self.inverse(a, v)
                    pw = -pw
                for _ in range(pw):
                    t = t * v
            tot = t if tot is None else tot + t
        return tot if tot is not None else z3.IntVal(0)

    def inverse(self, a, v):
        key = ("inv", a)
        if key in self.cache:
            return self.cache[key]
        r = self.fresh("real", ("inv", a))
        # 1/x as a TOTAL function, unspecified at 0: asserting x * r == 1 outright would assert x != 0 globally and make
        # every case guarded by x == 0 (np.where / if branches) vacuous; definedness is a separate obligation
        vr = z3.ToReal(v) if z3.is_int(v) else v
        self.axioms.append(z3.Implies(vr != 0, vr * r == 1))
        s = sign_atom(a, self.F)
        if s == "+":
            self.axioms.append(r > 0)
        self.cache[key] = r
        return r

    def atom(self, a):
        if a in self.cache:
            return self.cache[a]
        k = a.kind
        F = self.F
        if k == "sym":
            v = z3.Int("s_" + a.args[0]) if a.sort == "int" else z3.Real("s_" + a.args[0])
            self.names[str(v)] = a
        else:
            v = self.fresh(a.sort if a.sort in ("int",) else "real", a)
        self.cache[a] = v
        s = sign_atom(a, F)
        if s == "+":
            self.axioms.append(v > 0)
        elif s == "0+":
            self.axioms.append(v >= 0)
        elif s == "-":
            self.axioms.append(v < 0)
        elif s == "0-":
            self.axioms.append(v <= 0)
        if k == "app" and a.args[0] in F.lower:
            try:
                lb = F.lower[a.args[0]](*a.args[1:])
                self.axioms.append(v >= self.poly(lb))
            except TypeError:
                pass
        if k == "app" and a.args[0] in getattr(F, "upper", {}):
            self.axioms.append(v <= self.poly(F.upper[a.args[0]](*a.args[1:])))
        if k == "app" and a.args[0] in ("floordiv", "mod") and len(a.args) == 3:
            # integer floor division / remainder by a positive divisor: y*q <= x < y*q + y ; r = x - y*q, 0 <= r < y
            x, y = self.poly(a.args[1]), self.poly(a.args[2])
            if a.args[0] == "floordiv":
                self.axioms.append(z3.Implies(y > 0, z3.And(y * v <= x, x < y * v + y)))
            else:
                self.axioms.append(z3.Implies(y > 0, z3.And(v >= 0, v < y)))
                q = self.atom(T.mk_floordiv(a.args[1], a.args[2]).terms[0][0][0][0]) if T.mk_floordiv(a.args[1], a.args[2]).terms and \
                    len(T.mk_floordiv(a.args[1], a.args[2]).terms) == 1 and len(T.mk_floordiv(a.args[1], a.args[2]).terms[0][0]) == 1 else None
                if q is not None:
                    self.axioms.append(z3.Implies(y > 0, v == x - y * q))
        if k == "max":
            x, y = self.poly(a.args[0]), self.poly(a.args[1])
            self.axioms += [v >= x, v >= y, z3.Or(v == x, v == y)]
        elif k == "min":
            x, y = self.poly(a.args[0]), self.poly(a.args[1])
            self.axioms += [v <= x, v <= y, z3.Or(v == x, v == y)]
        elif k == "abs":
            x = self.poly(a.args[0])
            self.axioms += [v >= 0, z3.Or(v == x, v == -x), v >= x, v >= -x]
        elif k in ("argmin", "argmax") and not a.args[0].hasbv:
            # an index attaining the extremum over range(bound): 0 <= v < bound
            self.axioms += [v >= 0, v < self.poly(a.args[0])]
        elif k == "ite":
            c = self.cond(a.args[0])
            self.axioms.append(v == z3.If(c, self.poly(a.args[1]), self.poly(a.args[2])))
        elif k == "ind":
            c = self.cond(a.args[0])
            self.axioms.append(v == z3.If(c, z3.RealVal(1), z3.RealVal(0)))
        elif k == "rcp":
            x = self.poly(a.args[0])
            self.axioms.append(z3.Implies(x != 0, x * v == 1))
        elif k == "sqrt":
            x = self.poly(a.args[0])
            self.axioms += [v >= 0, z3.Implies(x >= 0, v * v == x)]     # total, unspecified on negatives
        elif k == "exp":
            self.axioms.append(v > 0)
        return v

    def cond(self, c):
        c = C(c)
        k = c.kind
        if k == "true":
            return z3.BoolVal(True)
        if k == "false":
            return z3.BoolVal(False)
        if k == "cmp":
            op, p = c.args
            x = self.poly(p)
            return {">0": x > 0, ">=0": x >= 0, "==0": x == 0, "!=0": x != 0}[op]
        if k == "and":
            return z3.And(*[self.cond(a) for a in c.args])
        if k == "or":
            return z3.Or(*[self.cond(a) for a in c.args])
        return z3.Not(self.cond(c.args[0]))


def prove(goal, F, hyps=(), timeout_ms=10000, want_model=False, extra=None):
    """is (facts ∧ hyps) ⇒ goal valid?  returns (status, info) with status in
    'proved' | 'refuted' | 'unknown'"""
    goal = C(goal)
    if goal.const() is True:
        STATS["normaliser"] += 1
        return "proved", {"backend": "normaliser"}
    tr = Tr(F)
    g = tr.cond(goal)
    hs = [tr.cond(h) for h in list(F.conds) + list(hyps)]
    if extra:
        hs += extra(tr)
    s = z3.Solver()
    s.set("timeout", timeout_ms)
    for h in hs + tr.axioms:
        s.add(h)
    s.add(z3.Not(g))
    t0 = time.time()
    r = s.check()
    dt = time.time() - t0
    STATS["z3_calls"] += 1
    STATS["z3_s"] += dt
    if r == z3.unsat:
        return "proved", {"backend": "z3", "s": dt}
    if r == z3.sat:
        mdl = s.model()
        info = {"backend": "z3", "s": dt,
                "model": {str(d): str(mdl[d]) for d in mdl.decls()},
                "names": {k: (T.show_atom(v) if isinstance(v, T.Atom) else str(v)) for k, v in tr.names.items()}}
        return "refuted", info
    # unknown: try cvc5 on the same problem
    st, dt2 = cvc5_check(s)
    if st == "unsat":
        return "proved", {"backend": "cvc5", "s": dt2}
    if st == "sat":
        return "refuted", {"backend": "cvc5", "s": dt2, "model": {}}
    return "unknown", {"backend": "z3+cvc5", "s": dt + dt2, "reason": s.reason_unknown()}


def cvc5_check(solver, timeout_s=20):
    txt = "(set-logic ALL)\n" + solver.to_smt2()
    t0 = time.time()
    try:
        with tempfile.NamedTemporaryFile("w", suffix=".smt2", delete=False) as f:
            f.write(txt)
            path = f.name
        out = subprocess.run(["/usr/bin/cvc5", "--tlimit=%d" % (timeout_s * 1000), path],
                             capture_output=True, text=True, timeout=timeout_s + 5).stdout.strip()
    except Exception:
        out = "unknown"
    finally:
        try:
            os.unlink(path)
        except Exception:
            pass
    dt = time.time() - t0
    STATS["cvc5_calls"] += 1
    STATS["cvc5_s"] += dt
    first = out.splitlines()[0] if out else "unknown"
    return (first if first in ("sat", "unsat") else "unknown"), dt


def merge_sums(p):
    """p = Σ_i coef_i * Σ_{k<n} body_i(k)  with one common bound n and
    coefficients free of binders  ->  (n, k, Σ_i coef_i body_i(k)); else None"""
    bound = None
    k = T.fresh("k")
    body = ZERO
    for m, c in p.terms:
        sums = [(a, pw) for a, pw in m if a.kind == "sum"]
        if len(sums) != 1 or sums[0][1] != 1:
            return None
        a = sums[0][0]
        if bound is None:
            bound = a.args[0]
        elif not T.equal(bound, a.args[0]):
            return None
        rest = Poly({tuple(x for x in m if x[0] is not a): c})
        body = body + rest * T.instantiate(a, k)
    if bound is None:
        return None
    return bound, k, body


def strict_sign(q, F, hyps, depth=0):
    """'+' / '-' / None for a polynomial, using sign analysis, z3, and the summand rule"""
    sg = sign_poly(q, F)
    if sg in ("+", "-"):
        return sg
    for s_, goal in (("+", T.cmp_cond("<", ZERO, q)), ("-", T.cmp_cond("<", q, ZERO))):
        st, _ = prove(goal, F, hyps, timeout_ms=4000)
        if st == "proved":
            return s_
    ms = merge_sums(q)
    if ms is not None and sign_poly(ms[0], F) == "+" and depth < 2:
        bound, k, body = ms
        h2 = list(hyps) + [T.cmp_cond("<=", ZERO, k), T.cmp_cond("<", k, bound)]
        return strict_sign(body, F, h2, depth + 1)
    return None


def factor_sign(p, F, hyps):
    """sign of p = c * Π atoms^k * q from the signs of its factors"""
    if not p.terms:
        return None
    c, m, q = T.poly_content(p)
    neg = c < 0
    for a, pw in m:
        if a.kind == "rcp":
            sg = strict_sign(a.args[0], F, hyps)
        else:
            sg = sign_atom(a, F)
            if sg not in ("+", "-"):
                sg = strict_sign(Poly.atom(a), F, hyps)
        if sg not in ("+", "-"):
            return None
        if sg == "-" and pw % 2:
            neg = not neg
    if not (q == ONE):
        sg = strict_sign(q, F, hyps)
        if sg is None:
            return None
        if sg == "-":
            neg = not neg
    return "-" if neg else "+"


def prove_side(kind, what, F, hyps=()):
    """discharge a definedness side condition"""
    if kind in ("pos", "nonzero"):
        p = P(what)
        sg = sign_poly(p, F)
        if sg == "+" or (kind == "nonzero" and sg == "-"):
            STATS["sign"] += 1
            return "proved", {"backend": "sign"}
        goal = T.cmp_cond("<", ZERO, p) if kind == "pos" else T.cmp_cond("!=", p, ZERO)
        st, info = prove(goal, F, hyps)
        if st == "proved":
            return st, info
        sg2 = factor_sign(p, F, hyps)
        if sg2 == "+" or (kind == "nonzero" and sg2 == "-"):
            return "proved", {"backend": "z3(factors)"}
        ms = merge_sums(p)
        if ms is not None and sign_poly(ms[0], F) == "+":
            bound, k, body = ms
            h2 = list(hyps) + [T.cmp_cond("<=", ZERO, k), T.cmp_cond("<", k, bound)]
            st2, info2 = prove(T.cmp_cond("<", ZERO, body), F, h2)
            if st2 == "proved":
                info2["backend"] += "(summand)"
                return st2, info2
            if kind == "nonzero":
                st2, info2 = prove(T.cmp_cond("<", body, ZERO), F, h2)
                if st2 == "proved":
                    info2["backend"] += "(summand)"
                    return st2, info2
        return st, info
    if kind == "range":
        e, n = what
        g = T.c_and(T.cmp_cond("<=", ZERO, e), T.cmp_cond("<", e, n))
        if g.const() is True:
            return "proved", {"backend": "normaliser"}
        return prove(g, F, hyps)
    return "unknown", {"reason": "side condition kind " + kind}
