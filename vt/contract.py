"""Contracts: an executable specification in the term language per function.

``check_function`` runs the *real* body (parsed from /repo) on symbolic inputs
of a scenario, runs the specification on structurally identical inputs, and
compares the whole result and the whole reachable input state (so the frame is
part of every postcondition: a field the contract does not mention must be
unchanged).  At call sites inside other functions the specification is applied
instead of the callee's body (modular verification)."""
import time
import traceback

from . import terms as T
from .terms import Poly, Cond, P, C, ZERO, ONE
from .arr import Arr, ModelError, ShapeError
from .values import Obj, SList, PyRaise, FuncVal, BoundMethod
from . import verify as V
from .verify import Clause
from .interp import Interp, PathsExceeded, Unsupported


class SpecUndetermined(Exception):
    pass


class SpecCtx:
    """what a specification may ask about the current path"""

    def __init__(self, assumed):
        self.assumed = set(assumed)

    def holds(self, cond):
        cond = C(cond)
        k = cond.const()
        if k is not None:
            return k
        if cond in self.assumed:
            return True
        if T.c_not(cond) in self.assumed:
            return False
        # conjunction / disjunction of decided atoms
        if cond.kind == "and":
            vals = [self._try(a) for a in cond.args]
            if all(v is True for v in vals):
                return True
            if any(v is False for v in vals):
                return False
        if cond.kind == "or":
            vals = [self._try(a) for a in cond.args]
            if any(v is True for v in vals):
                return True
            if all(v is False for v in vals):
                return False
        raise SpecUndetermined(repr(cond))

    def _try(self, c):
        try:
            return self.holds(c)
        except SpecUndetermined:
            return None


def check_function(I, target, build, spec, F, name, result_name="result", state_names=None,
                   drop_contracts=(), merge_defs=True, structural=True, assume=(), force_sides=False):
    """target: qualname of a function/method in the repo or a callable thunk
    taking the built inputs.  build() -> (args list, kwargs dict) of fresh
    symbolic inputs (called several times; must be deterministic).
    spec(ctx, *args, **kwargs) -> expected return value, mutating its args as
    the contract says.  Returns list[Clause]."""
    out = []
    t0 = time.time()
    saved_nc = I.no_contract
    I.no_contract = frozenset(drop_contracts) | ({target} if isinstance(target, str) else frozenset())
    holder = {}

    def thunk():
        args, kwargs = build()
        holder["ins"] = (args, kwargs)
        if isinstance(target, str):
            f = lookup(I, target)
            return I.call(f, args, kwargs)
        return target(I, *args, **kwargs)
    log = T.SideLog(I.side_ctx)
    T.SIDE = log
    try:
        paths = []
        # run_paths re-runs thunk; capture the inputs of each path
        def thunk2():
            r = thunk()
            return (holder["ins"], r)

        def thunk_raise_capture():
            try:
                return ("ok",) + thunk2()
            except PyRaise as e:
                return ("raise", holder.get("ins"), e)
        results = I.run_paths(thunk_raise_capture, base_assumptions=assume)
    except (ModelError, PathsExceeded) as e:
        T.SIDE = None
        I.no_contract = saved_nc
        return [Clause(name, "undecided", "", "%s at %s: %s" % (type(e).__name__, I.loc, e), secs=time.time() - t0)]
    except ShapeError as e:
        T.SIDE = None
        I.no_contract = saved_nc
        return [Clause(name + ".shape", "refuted", "npsym", "the code raises a shape error for generic shapes at %s: %s" % (I.loc, e),
                       secs=time.time() - t0)]
    finally:
        T.SIDE = None
    I.no_contract = saved_nc
    # arrays are lazy: force the code's results (and the final state of its inputs) NOW, with the side-condition log open and
    # the path assumed, so that a division / log / index whose operand later cancels out of the normal form is still checked
    # (opt-in: an operand that cancels inside an UNSELECTED np.where branch -- alpha * (S / n) with alpha = n/(n+r) -- would be
    # flagged although the selected value is defined; used where the code under contract has no such guarded divisions)
    for pc, (_k, payload) in results:
        if payload[0] != "ok" or not force_sides:
            continue
        saved_assumed = I.assumed
        I.assumed = set(pc) | set(assume)
        T.SIDE = log
        try:
            V.force_value(payload[2])
            V.force_value(list(payload[1][0]) + list(payload[1][1].values()))
        finally:
            T.SIDE = None
            I.assumed = saved_assumed
    for pi, (pc, (_k, payload)) in enumerate(results):
        kind, ins, res = payload
        suffix = "" if len(results) == 1 else ".path%d" % pi
        ctx = SpecCtx(list(pc) + list(assume))
        sargs, skwargs = build()
        try:
            saved_assumed = I.assumed
            I.assumed = set(pc) | set(assume)
            try:
                exp = ("ok", spec(ctx, *sargs, **skwargs))
            finally:
                I.assumed = saved_assumed
        except PyRaise as e:
            exp = ("raise", e)
        except SpecUndetermined as e:
            out.append(Clause(name + suffix, "undecided", "", "the code branches on %s, which the contract does not determine (path %s)" % (e, pc)))
            continue
        except (ModelError, ShapeError) as e:
            out.append(Clause(name + suffix, "undecided", "", "specification not evaluable: %s" % e))
            continue
        Fp = F.extend(pc)
        if kind != exp[0]:
            if kind == "raise":
                d = "the code raises %s on path %s where the contract requires a result" % (res, pc)
            else:
                d = "the code returns normally on path %s where the contract requires %s" % (pc, exp[1])
            out.append(Clause(name + suffix + ".raises", "refuted", "npsym", d, witness={"path": [repr(c) for c in pc]}))
            continue
        if kind == "raise":
            ok = res.exc_type == exp[1].exc_type
            out.append(Clause(name + suffix + ".raises", "discharged" if ok else "refuted", "npsym",
                              "" if ok else "raises %s, contract says %s" % (res.exc_type, exp[1].exc_type)))
            continue
        V.compare(res, exp[1], Fp, name + suffix + "." + result_name if result_name else name + suffix, out)
        # frame + effects on the inputs
        args, kwargs = ins
        names = state_names or {}
        for k, (a, b) in enumerate(zip(args, sargs)):
            if isinstance(a, (Obj, list)):
                V.compare(a, b, Fp, "%s%s.%s" % (name, suffix, names.get(k, "arg%d" % k)), out)
        for kk in kwargs:
            if isinstance(kwargs[kk], (Obj, list)):
                V.compare(kwargs[kk], skwargs[kk], Fp, "%s%s.%s" % (name, suffix, kk), out)
    finals = []
    for pc, (_k, payload) in results:
        if payload[0] == "ok":
            finals.append(payload[2])
            finals.append(list(payload[1][0]) + list(payload[1][1].values()))
    V.check_sides(log, F, name, out, final_values=finals if structural else None)
    if merge_defs:
        out = V.merge_def(out, name)
    return out


def lookup(I, qualname):
    parts = qualname.split(".")
    mod = I.modules[parts[0]]
    v = mod.globals[parts[1]]
    for p in parts[2:]:
        ci = v
        r = ci.find("methods", p, I.classes) or ci.find("getters", p, I.classes) or ci.find("setters", p, I.classes)
        if r is None:
            raise KeyError(qualname)
        fd, owner = r
        v = FuncVal(fd, owner.module, owner)
    return v


def lookup_accessor(I, qualname, which):
    """property getter/setter FunctionDef as FuncVal"""
    parts = qualname.split(".")
    ci = I.modules[parts[0]].globals[parts[1]]
    r = ci.find(which, parts[2], I.classes)
    if r is None:
        raise KeyError(qualname)
    fd, owner = r
    return FuncVal(fd, owner.module, owner, name=parts[2] + ("" if which == "getters" else ".setter"))


def as_contract(spec, pre=None):
    """turn a specification into a call-site contract for the interpreter"""
    def apply(I, args, kwargs):
        ctx = CallCtx(I)
        saved = T.SIDE
        T.SIDE = None      # definedness inside the callee is the callee's own obligation
        try:
            return spec(ctx, *args, **kwargs)
        finally:
            T.SIDE = saved
    return apply


class CallCtx:
    """at a call site conditions the specification asks about are decided by
    the interpreter (forking if necessary)"""

    def __init__(self, I):
        self.I = I

    def holds(self, cond):
        return self.I.decide(C(cond))
