"""Contracts: an executable specification in the term language per function.

``check_function`` runs the *real* body (parsed from /repo) on symbolic inputs
of a scenario, runs the specification on structurally identical inputs, and
compares the whole result and the whole reachable input state (so the frame is
part of every postcondition: a field the contract does not mention must be
unchanged).  At call sites inside other functions the specification is applied
instead of the callee's body (modular verification)."""
import time
import traceback

from . import terms as T
from .terms import Poly, Cond, P, C, ZERO, ONE
from .arr import Arr, ModelError, ShapeError
from .values import Obj, SList, PyRaise, FuncVal, BoundMethod
from . import verify as V
from .verify import Clause
from .interp import Interp, PathsExceeded, Unsupported


class SpecUndetermined(Exception):
    pass


class SpecCtx:
    """what a specification may ask about the current path"""

    def __init__(self, assumed):
        self.assumed = set(assumed)

    def holds(self, cond):
        cond = C(cond)
        k = cond.const()
        if k is not None:
            return k
        if cond in self.assumed:
            return True
        if T.c_not(cond) in self.assumed:
            return False
        # conjunction / disjunction of decided atoms
        if cond.kind == "and":
            vals = [self._try(a) for a in cond.args]
            if all(v is True for v in vals):
                return True
            if any(v is False for v in vals):
                return False
        if cond.kind == "or":
            vals = [self._try(a) for a in cond.args]
            if any(v is True for v in vals):
                return True
            if all(v is False for v in vals):
                return False
        raise SpecUndetermined(repr(cond))

    def _try(self, c):
        try:
            return self.holds(c)
        except SpecUndetermined:
            return None


def check_function(I, target, build, spec, F, name, result_name="result", state_names=None,
                   drop_contracts=(), merge_defs=True, structural=True, assume=(), force_sides=False, caller_owned=()):
    """target: qualname of a function/method in the repo or a callable thunk
    taking the built inputs.  build() -> (args list, kwargs dict) of fresh
    symbolic inputs (called several times; must be deterministic).
    spec(ctx, *args, **kwargs) -> expected return value, mutating its args as
    the contract says.  Returns list[Clause]."""
    out = []
    t0 = time.time()
    saved_nc = I.no_contract
    I.no_contract = frozenset(drop_contracts) | ({target} if isinstance(target, str) else frozenset())
    holder = {}

    def thunk():
        args, kwargs = build()
        holder["ins"] = (args, kwargs)
        del I.writes[:]
        I.complete_fixture([args, kwargs])
        if isinstance(target, str):
            f = lookup(I, target)
            return I.call(f, args, kwargs)
        return target(I, *args, **kwargs)
    log = T.SideLog(I.side_ctx)
    T.SIDE = log
    try:
        paths = []
        # run_paths re-runs thunk; capture the inputs of each path
        def thunk2():
            r = thunk()
            return (holder["ins"], r)

        def thunk_raise_capture():
            try:
                r_ = ("ok",) + thunk2()
            except PyRaise as e:
                r_ = ("raise", holder.get("ins"), e)
            holder.setdefault("wlist", []).append(list(I.writes))
            return r_
        results = I.run_paths(thunk_raise_capture, base_assumptions=assume)
        for k_, w_ in enumerate(holder.get("wlist", [])):
            holder["writes%d" % k_] = w_
    except (ModelError, PathsExceeded) as e:
        T.SIDE = None
        I.no_contract = saved_nc
        return [Clause(name, "undecided", "", "%s at %s: %s" % (type(e).__name__, I.loc, e), secs=time.time() - t0)]
    except ShapeError as e:
        T.SIDE = None
        I.no_contract = saved_nc
        if any(t in str(e) for t in ("Σ(", "[", "ite(", "argm")):
            # a shape that depends on the DATA (the number of rows a boolean mask selects, ...): the shape algebra of the model does
            # not cover it -- undecided, not a shape error of the code
            return [Clause(name + ".shape", "undecided", "npsym", "data-dependent shapes at %s are outside the shape model: %s" % (I.loc, e), secs=time.time() - t0)]
        return [Clause(name + ".shape", "refuted", "npsym", "the code raises a shape error for generic shapes at %s: %s" % (I.loc, e),
                       secs=time.time() - t0)]
    finally:
        T.SIDE = None
    I.no_contract = saved_nc
    # arrays are lazy: force the code's results (and the final state of its inputs) NOW, with the side-condition log open and
    # the path assumed, so that a division / log / index whose operand later cancels out of the normal form is still checked
    # (opt-in: an operand that cancels inside an UNSELECTED np.where branch -- alpha * (S / n) with alpha = n/(n+r) -- would be
    # flagged although the selected value is defined; used where the code under contract has no such guarded divisions)
    for pc, (_k, payload) in results:
        if payload[0] != "ok" or not force_sides:
            continue
        saved_assumed = I.assumed
        I.assumed = set(pc) | set(assume)
        T.SIDE = log
        try:
            V.force_value(payload[2])
            V.force_value(list(payload[1][0]) + list(payload[1][1].values()))
        finally:
            T.SIDE = None
            I.assumed = saved_assumed
    for pi, (pc, (_k, payload)) in enumerate(results):
        kind, ins, res = payload
        suffix = "" if len(results) == 1 else ".path%d" % pi
        ctx = SpecCtx(list(pc) + list(assume))
        sargs, skwargs = build()
        try:
            saved_assumed = I.assumed
            I.assumed = set(pc) | set(assume)
            try:
                exp = ("ok", spec(ctx, *sargs, **skwargs))
            finally:
                I.assumed = saved_assumed
        except PyRaise as e:
            exp = ("raise", e)
        except SpecUndetermined as e:
            out.append(Clause(name + suffix, "undecided", "", "the code branches on %s, which the contract does not determine (path %s)" % (e, pc)))
            continue
        except (ModelError, ShapeError) as e:
            out.append(Clause(name + suffix, "undecided", "", "specification not evaluable: %s" % e))
            continue
        Fp = F.extend(pc)
        if kind != exp[0]:
            if kind == "raise":
                d = "the code raises %s on path %s where the contract requires a result" % (res, pc)
            else:
                d = "the code returns normally on path %s where the contract requires %s" % (pc, exp[1])
            out.append(Clause(name + suffix + ".raises", "refuted", "npsym", d, witness={"path": [repr(c) for c in pc]}))
            continue
        if kind == "raise":
            ok = res.exc_type == exp[1].exc_type
            out.append(Clause(name + suffix + ".raises", "discharged" if ok else "refuted", "npsym",
                              "" if ok else "raises %s, contract says %s" % (res.exc_type, exp[1].exc_type)))
            continue
        V.compare(res, exp[1], Fp, name + suffix + "." + result_name if result_name else name + suffix, out)
        # frame + effects on the inputs
        args, kwargs = ins
        names = state_names or {}
        for k, (a, b) in enumerate(zip(args, sargs)):
            if isinstance(a, (Obj, list)):
                V.compare(a, b, Fp, "%s%s.%s" % (name, suffix, names.get(k, "arg%d" % k)), out)
        for kk in kwargs:
            if isinstance(kwargs[kk], (Obj, list)):
                V.compare(kwargs[kk], skwargs[kk], Fp, "%s%s.%s" % (name, suffix, kk), out)
        cache_coherence(I, [args, kwargs], Fp, pc, assume, name + suffix, out)
        # caller-owned arrays handed in directly (not through an object the contract speaks about) are never written in place
        if pi == len(results) - 1 or True:
            names_ = state_names or {}
            direct = [(names_.get(k, "arg%d" % k), a) for k, a in enumerate(args) if isinstance(a, Arr)] + \
                     [(kk, a) for kk, a in kwargs.items() if isinstance(a, Arr)]
            for nm_, a in direct:
                if nm_ not in caller_owned:
                    continue        # (some functions take output arrays: the obligation names the arguments that are the caller's data)
                hit = [w for w in holder.get("writes%d" % pi, []) if w[1] & a.origin]
                if hit:
                    out.append(Clause("%s%s.%s.written-in-place" % (name, suffix, nm_), "refuted", "effects",
                                      "the array passed as %s is written in place at %s (%s): the caller's array changes" % (nm_, hit[0][0], hit[0][2])))
    finals = []
    for pc, (_k, payload) in results:
        if payload[0] == "ok":
            finals.append(payload[2])
            finals.append(list(payload[1][0]) + list(payload[1][1].values()))
    V.check_sides(log, F, name, out, final_values=finals if structural else None)
    if merge_defs:
        out = V.merge_def(out, name)
    return out


def cache_coherence(I, values, Fp, pc, assume, name, out):
    """post-state of the private fields the fixtures do not know (Interp.complete_fixture): each is as __init__ leaves
    it, or equals what the class's lazy filler computes from the POST-state's visible fields"""
    from .interp import _MISSING
    seen = set()

    def walk(v):
        if isinstance(v, Obj):
            if id(v) in seen:
                return
            seen.add(id(v))
            for f, (v0, filler) in getattr(v, "cf", {}).items():
                fin = v.fields.get(f, _MISSING)
                if type(fin).__name__ == "PendingCache":
                    continue        # never looked at since a callee established coherence (or since the pre-state)
                if fin is v0 or (fin is not _MISSING and not isinstance(fin, (Arr, Poly, Obj, tuple, list)) and fin == v0) or \
                        (fin is _MISSING and type(v0).__name__ == "object"):
                    continue
                cname = "%s.cache.%s.%s" % (name, v.cls.name, f)
                if filler is None or fin is _MISSING:
                    out.append(Clause(cname, "undecided", "", "private field %s holds a value and the class has no lazy filler to compare it with" % f))
                    continue
                saved = I.assumed
                I.assumed = set(pc) | set(assume)
                try:
                    exp = I.lazy_value(v, f, v0, filler)
                finally:
                    I.assumed = saved
                if exp is _MISSING:
                    out.append(Clause(cname, "undecided", "", "the lazy filler of %s cannot be evaluated in the post-state" % f))
                    continue
                n0 = len(out)
                V.compare(fin, exp, Fp, cname, out)
                for c in out[n0:]:
                    if c.status != "discharged":
                        c.detail = ("cache %s.%s after the call is not what %s() computes from the object's current state "
                                    "(stale or wrongly filled): %s" % (v.cls.name, f, filler.node.name, c.detail))
            # functools.cached_property entries present in the object's __dict__: equal to what the getter computes NOW
            ci = v.cls
            names = set()
            seen_c = set()

            def cached_names(c):
                if c is None or id(c) in seen_c:
                    return
                seen_c.add(id(c))
                names.update(getattr(c, "cached", {}))
                for b in c.bases:
                    cached_names(I.classes.get(b))
            cached_names(ci)
            for f in sorted(names & set(v.fields)):
                fin = v.fields[f]
                if type(fin).__name__ == "PendingCache" or f in getattr(v, "cf", {}):
                    continue        # never looked at, or already judged above
                cp = Obj(v.cls, {k: x for k, x in v.fields.items() if k != f})
                cp.cf = {}
                saved = I.assumed
                I.assumed = set(pc) | set(assume)
                try:
                    exp = I.getattr(cp, f)
                except (PyRaise, ModelError, Unsupported):
                    exp = _MISSING
                finally:
                    I.assumed = saved
                cname = "%s.cache.%s.%s" % (name, v.cls.name, f)
                if exp is _MISSING:
                    out.append(Clause(cname, "undecided", "", "the cached property %s cannot be re-evaluated in the post-state" % f))
                    continue
                n0 = len(out)
                V.compare(fin, exp, Fp, cname, out)
                for c in out[n0:]:
                    if c.status != "discharged":
                        c.detail = "cached property %s.%s holds a value that is not what it computes from the object's current state (stale): %s" % (v.cls.name, f, c.detail)
            for x in v.fields.values():
                walk(x)
        elif isinstance(v, (list, tuple)):
            for x in v:
                walk(x)
        elif isinstance(v, dict):
            for x in v.values():
                walk(x)
    walk(values)


def lookup(I, qualname):
    parts = qualname.split(".")
    mod = I.modules[parts[0]]
    v = mod.globals[parts[1]]
    for p in parts[2:]:
        ci = v
        r = ci.find("methods", p, I.classes) or ci.find("getters", p, I.classes) or ci.find("setters", p, I.classes)
        if r is None:
            raise KeyError(qualname)
        fd, owner = r
        v = FuncVal(fd, owner.module, owner)
    return v


def lookup_accessor(I, qualname, which):
    """property getter/setter FunctionDef as FuncVal"""
    parts = qualname.split(".")
    ci = I.modules[parts[0]].globals[parts[1]]
    r = ci.find(which, parts[2], I.classes)
    if r is None:
        raise KeyError(qualname)
    fd, owner = r
    return FuncVal(fd, owner.module, owner, name=parts[2] + ("" if which == "getters" else ".setter"))


def as_contract(spec, pre=None):
    """turn a specification into a call-site contract for the interpreter"""
    def apply(I, args, kwargs):
        ctx = CallCtx(I)
        saved = T.SIDE
        T.SIDE = None      # definedness inside the callee is the callee's own obligation
        try:
            return spec(ctx, *args, **kwargs)
        finally:
            T.SIDE = saved
    return apply


class CallCtx:
    """at a call site conditions the specification asks about are decided by
    the interpreter (forking if necessary)"""

    def __init__(self, I):
        self.I = I

    def holds(self, cond):
        return self.I.decide(C(cond))


# ---------------------------------------------------------------- construction-time snapshots
def _self_attr(n):
    import ast
    return isinstance(n, ast.Attribute) and isinstance(n.value, ast.Name) and n.value.id == "self"


def stale_snapshots(I, m):
    """States reachable by re-assigning a *plain* public attribute after construction
    (``est.set_params(p=...)`` / ``est.p = ...``; no property setter runs): a field that
    ``__init__`` DERIVES from such an attribute keeps the value derived from the old one.
    Read off the real ``__init__`` on every run.  Returns [(label, {field: value})] -- the
    derived field evaluated as the constructor would have for each other value the class
    distinguishes -- for fixtures that (rightly) need not assume the two agree."""
    import ast
    from .interp import Env
    ci = m.cls
    hit = ci.find("methods", "__init__", I.classes)
    if hit is None:
        return []
    fd, owner = hit
    params = {a.arg for a in fd.args.args + fd.args.kwonlyargs} - {"self"}
    assigns = [s for s in ast.walk(fd) if isinstance(s, ast.Assign) and len(s.targets) == 1 and _self_attr(s.targets[0])]

    def plain(name):
        return not name.startswith("_") and ci.find("setters", name, I.classes) is None and ci.find("getters", name, I.classes) is None
    plain_names = {s.targets[0].attr for s in assigns if plain(s.targets[0].attr)}
    out = []
    for s in assigns:
        X = s.targets[0].attr
        if X not in plain_names or isinstance(s.value, (ast.Name, ast.Constant)):
            continue
        deps = {n.attr for n in ast.walk(s.value) if _self_attr(n) and n.attr in plain_names and n.attr != X}
        deps |= {n.id for n in ast.walk(s.value) if isinstance(n, ast.Name) and n.id in params and n.id in plain_names and n.id != X}
        for p in sorted(deps):
            alts = []
            for c in ast.walk(ci.node):
                if isinstance(c, ast.Compare) and ((_self_attr(c.left) and c.left.attr == p) or (isinstance(c.left, ast.Name) and c.left.id == p)):
                    for k in c.comparators:
                        ks = k.elts if isinstance(k, (ast.List, ast.Tuple, ast.Set)) else [k]
                        alts += [e.value for e in ks if isinstance(e, ast.Constant) and e.value not in alts]
            for alt in alts:
                cur = m.fields.get(p)
                if isinstance(cur, type(alt)) and cur == alt:
                    continue
                m2 = Obj(ci, dict(m.fields))
                m2.fields[p] = alt
                env = Env(I.modules[owner.module.split(".")[-1]], {"self": m2, p: alt})
                env.func = None
                try:
                    val = I.ev(s.value, env)
                except Exception:
                    continue
                if val is m.fields.get(X) or (isinstance(val, (str, int, float, bool)) and val == m.fields.get(X)):
                    continue
                out.append(("%s as derived from %s=%r" % (X, p, alt), {X: val}))
    return out
