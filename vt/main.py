"""Check driver:  python -m vt.main <property> --tier quick|thorough

exit 0  every obligation discharged (known findings printed, not counted)
exit 1  VIOLATION property=<id> replay=<path>  (a refuted obligation not listed in known_findings.json)
exit 2  UNDECIDED (unknown / timeout / unsupported construct) -- never a violation line
exit 3  checker fault (vacuity control failed, exception in the driver)
"""
import argparse
import importlib
import json
import multiprocessing as mp
import os
import re
import subprocess
import sys
import time
import traceback

ROOT = os.path.dirname(os.path.dirname(os.path.abspath(__file__)))
sys.path.insert(0, ROOT)
sys.setrecursionlimit(20000)

from vt import smt  # noqa: E402
from vt import npmodel  # noqa: E402
from vt.verify import Clause  # noqa: E402


class Ctx:
    def __init__(self, tier, seed):
        self.tier, self.seed = tier, seed


def _run_group(args):
    modname, gname, tier, seed = args[:4]
    from vt import interp as _IN
    _IN.Interp.global_inline = frozenset(args[4]) if len(args) > 4 else frozenset()
    t0 = time.time()
    try:
        mod = importlib.import_module("props." + modname)
        g = [x for x in mod.GROUPS + getattr(mod, "CONTROLS", []) + getattr(mod, "BOUNDED", []) if x.__name__ == gname][0]
        cls = g(Ctx(tier, seed))
        out = [c.as_dict() for c in cls]
        err = None
    except Exception as e:  # engine fault -> undecided for this group, reported
        out = [{"obligation": "%s.%s" % (modname, gname), "status": "error", "backend": "",
                "detail": "%s: %s\n%s" % (type(e).__name__, e, traceback.format_exc()[-1500:]), "s": 0}]
        err = str(e)
    return {"module": modname, "group": gname, "clauses": out, "wall": time.time() - t0,
            "stats": dict(smt.STATS), "np_used": sorted(npmodel.USED)}


def load_known():
    p = os.path.join(ROOT, "known_findings.json")
    if not os.path.exists(p):
        return []
    return json.load(open(p)).get("findings", [])


def match_known(known, prop, cl):
    text = cl["obligation"] + " " + cl.get("detail", "") + " " + json.dumps(cl.get("witness", ""))
    for k in known:
        if k.get("status", "open") != "open":
            continue
        if k["property"] != prop:
            continue
        if k["obligation"] != cl["obligation"]:
            continue
        if k.get("variant"):
            # the code was re-verified against the contract with exactly this defect written in
            if (cl.get("witness") or {}).get("known_variant") == k["variant"]:
                return k
            continue
        if k.get("match") and all(m in text for m in k["match"]):
            return k
    return None


def main(argv=None):
    ap = argparse.ArgumentParser()
    ap.add_argument("prop")
    ap.add_argument("--tier", default=os.environ.get("VERIF_TIER", "quick"))
    ap.add_argument("--replay", default=None)
    ap.add_argument("--jobs", type=int, default=min(16, os.cpu_count() or 4))
    ap.add_argument("-v", action="store_true")
    a = ap.parse_args(argv)
    seed = int(os.environ.get("VERIF_SEED", "0") or 0)
    tier = "thorough" if a.tier == "thorough" else "quick"
    prop = a.prop
    t0 = time.time()
    os.chdir(ROOT)
    EVD = os.environ.get("VERIF_EVIDENCE_DIR", "evidence")
    RPD = os.environ.get("VERIF_REPLAY_DIR", "replays")
    if os.path.realpath(os.environ.get("VERIF_REPO", "/repo")) != "/repo":
        # a run against a scratch copy (seeded change, mutant, benign rewrite) never overwrites the evidence of /repo
        import tempfile
        if "VERIF_EVIDENCE_DIR" not in os.environ:
            EVD = tempfile.mkdtemp(prefix="verif_scratch_evidence_")
        if "VERIF_REPLAY_DIR" not in os.environ:
            RPD = tempfile.mkdtemp(prefix="verif_scratch_replays_")
    os.makedirs(EVD, exist_ok=True)
    os.makedirs(RPD, exist_ok=True)
    if a.replay:
        from vt import replay as R
        return R.replay_file(a.replay)
    try:
        mod = importlib.import_module("props." + prop)
    except Exception:
        traceback.print_exc()
        return 3
    jobs = [(prop, g.__name__, tier, seed) for g in mod.GROUPS]
    ctrl_names = set(g.__name__ for g in getattr(mod, "CONTROLS", []))
    jobs += [(prop, n, tier, seed) for n in ctrl_names]
    bounded_names = set(g.__name__ for g in getattr(mod, "BOUNDED", []))
    jobs += [(prop, n, tier, seed) for n in bounded_names]
    shared_ids = {}
    for (m2, gname, ids) in getattr(mod, "SHARED", []):
        if (m2, gname) not in shared_ids:
            jobs.append((m2, gname, tier, seed))
        shared_ids.setdefault((m2, gname), [])
        shared_ids[(m2, gname)] += [i for i in ids if i not in shared_ids[(m2, gname)]]
    xgroups = list(getattr(mod, "XCHECK", []))
    xprocs = []
    for g in xgroups:          # encoding cross-check of the NumPy model against real NumPy (DESIGN §1.6), in parallel
        env = dict(os.environ)
        env["PYTHONPATH"] = os.path.join(os.environ.get("VERIF_REPO", "/repo"), "src") + os.pathsep + ROOT
        env["VERIF_SEED"] = str(seed)
        xprocs.append((g, subprocess.Popen(["/venv/bin/python", os.path.join(ROOT, "replay", "xcheck.py"), g], stdout=subprocess.PIPE,
                                           stderr=subprocess.PIPE, text=True, env=env, cwd="/tmp")))
    with mp.get_context("fork").Pool(min(a.jobs, max(1, len(jobs)))) as pool:
        results = pool.map(_run_group, jobs, chunksize=1)
    xres = []
    for g, pr in xprocs:
        try:
            so, se = pr.communicate(timeout=900)
            lines = [l for l in so.strip().splitlines() if l.startswith("{")]
            r = json.loads(lines[-1]) if lines else {"ok": False, "error": (se or so)[-800:]}
        except Exception as e:
            pr.kill()
            r = {"ok": False, "error": "cross-check did not finish: %s" % e}
        r["group"] = g
        xres.append(r)
    clauses, controls, bounded = [], [], []
    stats = {}
    np_used = set()
    for r in results:
        for k, v in r["stats"].items():
            stats[k] = stats.get(k, 0) + v
        np_used |= set(r["np_used"])
        key = (r["module"], r["group"])
        for c in r["clauses"]:
            c["group"] = r["group"]
            if c["status"] == "error":
                clauses.append(c)
            elif r["module"] == prop and r["group"] in ctrl_names:
                controls.append(c)
            elif r["module"] == prop and r["group"] in bounded_names:
                bounded.append(c)
            elif key in shared_ids:
                if c["obligation"] in shared_ids[key]:
                    c["shared_from"] = r["module"]
                    clauses.append(c)
            else:
                clauses.append(c)
    # every obligation a property borrows from another module must actually have been generated (no silent drop)
    for (m2, gname), ids in shared_ids.items():
        produced = {c["obligation"] for r in results if (r["module"], r["group"]) == (m2, gname) for c in r["clauses"]}
        errored = any(c["status"] == "error" for r in results if (r["module"], r["group"]) == (m2, gname) for c in r["clauses"])
        for i in ids:
            if i not in produced and not errored:
                clauses.append({"obligation": i, "status": "undecided", "backend": "", "group": gname, "shared_from": m2,
                                "detail": "obligation %s is listed as shared from %s.%s but that group did not generate it" % (i, m2, gname)})
    known = load_known()
    violations, undecided, kfound, errors = [], [], [], []
    discharged = 0
    for c in clauses:
        if c["status"] == "discharged":
            discharged += 1
        elif c["status"] == "refuted":
            k = match_known(known, prop, c)
            if k is not None:
                kfound.append((k, c))
            else:
                violations.append(c)
        elif c["status"] == "error":
            errors.append(c)
        else:
            undecided.append(c)
    # Contracts of INTERNAL helpers are proof devices, not part of a property: when one is not met as stated (the helper's
    # interface or its share of the work changed) the public obligation that used it is re-checked with the helper's REAL body
    # inlined; proved that way, the decomposition has changed but the property has not
    regroup = {}
    for c in violations + undecided:
        src = c.get("shared_from", prop)
        try:
            decls = getattr(importlib.import_module("props." + src), "INTERNAL", [])
        except Exception:
            decls = []
        for pref, pub, drops in decls:
            if c["obligation"].startswith(pref):
                regroup.setdefault((src, pub, tuple(drops)), []).append(c)
                break
    if regroup:
        with mp.get_context("fork").Pool(min(a.jobs, len(regroup))) as pool:
            rer = pool.map(_run_group, [(src, pub, tier, seed, list(drops)) for (src, pub, drops) in regroup], chunksize=1)
        for (key, cs), r in zip(regroup.items(), rer):
            sts = [x["status"] for x in r["clauses"]]
            pub_ids = ", ".join(sorted({x["obligation"] for x in r["clauses"]}))[:200]
            try:
                pub_is_bounded = key[1] in {g.__name__ for g in getattr(importlib.import_module("props." + key[0]), "BOUNDED", [])}
            except Exception:
                pub_is_bounded = False
            if pub_is_bounded and sts and all(x == "discharged" for x in sts):
                # the public counterpart is a BOUNDED semantic check: it cannot prove the obligation, but it says that the structure
                # the internal obligation looks for is not needed for the behaviour -- undecided, not a violation
                for c in cs:
                    if c in violations:
                        violations.remove(c)
                        undecided.append(c)
                        c["status"] = "undecided"
                    c["detail"] = (c.get("detail") or "")[:300] + " [an obligation on the internal structure; the bounded semantic check %s passes]" % pub_ids
            elif sts and all(x == "discharged" for x in sts):
                for c in cs:
                    (violations if c in violations else undecided).remove(c)
                    c["detail"] = "helper contract not met as stated (%s); the public obligation(s) %s were proved with the real bodies of %s inlined" % (
                        (c.get("detail") or "")[:160], pub_ids, ", ".join(key[2]))
                    c["status"], c["backend"] = "discharged", "inlined"
                    discharged += 1
            elif any(x == "refuted" for x in sts):
                for x in r["clauses"]:
                    if x["status"] == "refuted":
                        x["group"], x["detail"] = key[1], "[with %s inlined] %s" % (", ".join(key[2]), x.get("detail", ""))
                        if key[0] != prop:
                            x["shared_from"] = key[0]
                        if not any(v["obligation"] == x["obligation"] for v in violations):
                            clauses.append(x)
                            violations.append(x)
            else:
                for c in cs:
                    if c in violations:
                        violations.remove(c)
                        undecided.append(c)
                        c["status"] = "undecided"
                    c["detail"] = (c.get("detail") or "")[:300] + " [helper contract in question; the public obligation(s) %s with the real bodies inlined: %s]" % (
                        pub_ids, "; ".join("%s" % (x.get("detail") or "")[:120] for x in r["clauses"] if x["status"] != "discharged")[:300])
    bounded_fail = [c for c in bounded if c["status"] == "refuted"]
    for c in bounded_fail:
        k = match_known(known, prop, c)
        if k is not None:
            kfound.append((k, c))
        else:
            violations.append(c)
    bounded_und = [c for c in bounded if c["status"] not in ("refuted", "discharged")]
    undecided += bounded_und
    # vacuity / soundness controls: every control clause must be REFUTED
    # (a control that could not be evaluated -- the code left the modelled subset -- proves nothing either way; only a
    # deliberately wrong specification that is DISCHARGED shows a vacuous check)
    ctrl_bad = [c for c in controls if c["status"] == "discharged"]
    # replays
    from vt import replay as R
    # an obligation the verifier could not decide (construct outside the modelled subset, solver limit, structure the
    # extractor does not recognise) is handed to the native search of its replay harness: a failing input found on the
    # REAL code against the independent reference formula is a violation (refutation only -- it never discharges)
    done_replays = {}
    for c in list(undecided) + list(errors):
        if c in bounded_und or R.find_replay(mod, c["obligation"]) is None:
            continue
        path = os.path.join(RPD, "%s-%s.json" % (prop, re.sub(r"[^A-Za-z0-9_.-]", "_", c["obligation"])))
        key = R.find_replay(mod, c["obligation"])[1:3] + (json.dumps(R.find_replay(mod, c["obligation"])[3], sort_keys=True),)
        rep = R.make_replay(prop, c, path, seed, mod, cached=done_replays.get(key))
        done_replays[key] = rep.get("replay")
        kf_tag = (rep.get("replay") or {}).get("known_finding")
        if kf_tag and any(k.get("id") == kf_tag for k in known) and match_known(known, prop, c) is None:
            # the native search only ran into a RECORDED finding (which belongs to another obligation): that says nothing about
            # this one, which stays undecided
            c["detail"] = (c.get("detail") or "") + " [native search: the recorded finding %s was met and skipped]" % kf_tag
            fr = R.find_replay(mod, c["obligation"])
            res2 = R.run_script(fr[1], fr[2], dict(fr[3], skip_known=True), seed)
            if not (res2.get("reproduced") and not res2.get("known_finding")):
                continue
            rep = dict(rep, replay=res2, reproduced=True)
            try:
                json.dump(dict(json.load(open(path)), replay=res2, reproduced=True), open(path, "w"), indent=1, default=str)
            except Exception:
                pass
        if rep.get("reproduced"):
            c["detail"] = "not decided symbolically (%s); the native search on the real code found a failing input: %s" % (
                (c.get("detail") or "")[:200], json.dumps(rep["replay"].get("observed", rep["replay"].get("what", "")), default=str)[:300])
            c["status"], c["backend"] = "refuted", ((c.get("backend") or "") + "+replay").lstrip("+")
            (undecided if c in undecided else errors).remove(c)
            k = match_known(known, prop, c)
            if k is not None:
                kfound.append((k, c))
            else:
                violations.append(c)
                c["_rep"] = rep
    # a refuted obligation that a recorded finding is filed under, whose native replay meets EXACTLY that finding (the harness
    # says so: its observation equals the reference with the recorded defect written in): the recorded finding, not a new one
    for c in list(violations):
        ks = [k for k in known if k.get("status", "open") == "open" and k["property"] == prop and k["obligation"] == c["obligation"]]
        if not ks or c in bounded:
            continue
        path = os.path.join(RPD, "%s-%s.json" % (prop, re.sub(r"[^A-Za-z0-9_.-]", "_", c["obligation"])))
        rep = R.make_replay(prop, c, path, seed, mod, known=ks[0])
        tag = (rep.get("replay") or {}).get("known_finding")
        hit = [k for k in ks if k.get("id") == tag]
        if rep.get("reproduced") and hit:
            violations.remove(c)
            kfound.append((hit[0], c))
        else:
            c["_rep"] = rep
    vlines = []
    for c in violations:
        path = os.path.join(RPD, "%s-%s.json" % (prop, re.sub(r"[^A-Za-z0-9_.-]", "_", c["obligation"])))
        rep = c.pop("_rep", None) or R.make_replay(prop, c, path, seed, mod)
        tail = "" if rep.get("reproduced") else " no-failing-input-found"
        vlines.append("VIOLATION property=%s replay=%s obligation=%s%s" % (prop, path, c["obligation"], tail))
    for k, c in kfound:
        path = os.path.join(RPD, "%s-%s.known.json" % (prop, re.sub(r"[^A-Za-z0-9_.-]", "_", c["obligation"])))
        try:
            R.make_replay(prop, c, path, seed, mod, known=k)
        except Exception:
            pass
    n_obl = len([c for c in clauses if c["status"] in ("discharged", "refuted", "undecided")]) - len([1 for k, c in kfound if c in clauses])
    level = getattr(mod, "LEVEL", "proof")
    ev = {
        "property_id": prop, "tier": tier, "seed": seed, "level": level,
        "coverage": {
            "obligations": n_obl, "discharged": discharged,
            "checker_cmd": "./check %s --tier %s" % (prop, tier),
            "trusted_base": getattr(mod, "TRUSTED", []) + ["term normaliser (ring normal form, Σ-linearity, exp/log rules) in vt/terms.py",
                                                          "NumPy/Dask/SciPy/h5py entry-point models in vt/npmodel.py (cross-checked by objrun)",
                                                          "z3 5.1 / cvc5 1.0.3 as decision procedures"],
            "samples": [c for c in clauses][:60],
            "functions_under_contract": getattr(mod, "FUNCTIONS", []),
            "backends": {"normaliser": stats.get("normaliser", 0), "sign_analysis": stats.get("sign", 0),
                         "z3_queries": stats.get("z3_calls", 0), "z3_seconds": round(stats.get("z3_s", 0.0), 3),
                         "cvc5_queries": stats.get("cvc5_calls", 0), "cvc5_seconds": round(stats.get("cvc5_s", 0.0), 3)},
            "bounded_checks": bounded,
            "known_findings": [{"finding": k["id"], "obligation": c["obligation"], "what": k["what"]} for k, c in kfound],
            "encoding_crosscheck": [{"group": r["group"], "ok": r.get("ok"), "cases": r.get("cases"), "mismatches": r.get("mismatches", [])[:3],
                                     "error": r.get("error"), "skipped": r.get("skipped")} for r in xres],
            "vacuity_controls": {"run": len(controls), "refuted_as_required": len(controls) - len(ctrl_bad),
                                 "samples": controls[:10]},
            "undecided": undecided, "errors": errors,
            "library_entry_points_modelled_and_used": sorted(np_used),
            "extraction_drops": ["docstrings", "type annotations", "logger.* calls and f-strings feeding them",
                                 "super().__init__(**kwargs) on sklearn BaseEstimator"],
            "explanation": getattr(mod, "EXPLANATION", ""),
        },
        "assumptions": getattr(mod, "ASSUMPTIONS", []) + [
            "float64 arithmetic treated as real arithmetic (results hold up to rounding); definedness model of DESIGN §2.4",
            "Python semantics as encoded by vt/interp.py (DESIGN §2)"],
        "wall_s": round(time.time() - t0, 2),
        "violations": len(violations),
    }
    selftest = None
    if tier == "thorough" and not os.environ.get("VERIF_NO_SELFTEST") and not violations:
        from vt import selftest as ST
        selftest = ST.run(prop, seed)
        ev["coverage"]["selftest"] = selftest
    json.dump(ev, open(os.path.join(EVD, prop + ".json"), "w"), indent=1, default=str)
    for k, c in kfound:
        print("KNOWN-FINDING: property=%s %s [%s] %s" % (prop, k["id"], c["obligation"], k["what"]))
    if a.v or violations or undecided or errors:
        for c in clauses + bounded:
            if a.v or c["status"] != "discharged":
                print("  %-34s %-10s %-12s %s" % (c["obligation"], c["status"], c.get("backend", ""), c.get("detail", "")[:300]))
    print("%s tier=%s obligations=%d discharged=%d known=%d violations=%d undecided=%d bounded=%d controls=%d/%d wall=%.1fs" % (
        prop, tier, n_obl, discharged, len(kfound), len(violations), len(undecided) + len(errors), len(bounded),
        len(controls) - len(ctrl_bad), len(controls), time.time() - t0))
    if violations:
        for l in vlines:
            print(l)
        return 1
    if errors:
        for c in errors:
            print("CHECKER-ERROR %s: %s" % (c["obligation"], c["detail"][-600:]))
        return 3
    xbad = [r for r in xres if not r.get("ok")]
    if xbad and not violations:
        for r in xbad:
            print("CHECKER-ERROR encoding cross-check '%s': the NumPy model of the VC generator disagrees with real NumPy: %s" % (
                r["group"], json.dumps(r.get("mismatches") or r.get("error"))[:600]))
        return 3
    if selftest and (selftest["missed"] or selftest["false_alarms"]):
        for m_ in selftest["missed"]:
            print("CHECKER-ERROR self-test: seeded change %s (breaks %s) is not detected by this check" % (m_, prop))
        for m_ in selftest["false_alarms"]:
            print("CHECKER-ERROR self-test: semantics-preserving rewrite %s raises an alarm" % m_)
        return 3
    if ctrl_bad:
        for c in ctrl_bad:
            print("CONTROL-FAILED %s: a deliberately wrong specification was not refuted (%s)" % (c["obligation"], c["status"]))
        return 3
    if n_obl == 0:
        print("CHECKER-ERROR no obligations generated")
        return 3
    if undecided:
        for c in undecided:
            print("UNDECIDED obligation=%s %s" % (c["obligation"], c.get("detail", "")[:300]))
        return 2
    return 0


if __name__ == "__main__":
    sys.exit(main())
