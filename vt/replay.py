"""Replay of refuted obligations against the real code (under /venv/bin/python).

A property module may define ``REPLAY`` : list of (obligation-id prefix,
script, mode, params).  The script lives in /verif/replay/, imports the real
package from /repo (or $VERIF_REPO), searches for a concrete failing input
(model-guided first, then up to 200 seeded concretisations) and compares the
real function with an independent reference implementation of the property's
formula.  It prints one JSON object: {"reproduced": bool, "input": ...,
"observed": ..., "expected": ...}.
"""
import json
import os
import subprocess
import sys
import time

ROOT = os.path.dirname(os.path.dirname(os.path.abspath(__file__)))
PY = "/venv/bin/python"


def run_script(script, mode, params, seed, timeout=600):
    env = dict(os.environ)
    repo = os.environ.get("VERIF_REPO", "/repo")
    env["PYTHONPATH"] = os.path.join(repo, "src") + os.pathsep + os.path.join(ROOT, "replay")
    env["VERIF_SEED"] = str(seed)
    cmd = [PY, os.path.join(ROOT, "replay", script), mode, json.dumps(params)]
    try:
        p = subprocess.run(cmd, capture_output=True, text=True, timeout=timeout, env=env, cwd=ROOT)
        lines = [l for l in p.stdout.strip().splitlines() if l.startswith("{")]
        if lines:
            r = json.loads(lines[-1])
        else:
            r = {"reproduced": False, "error": (p.stderr or p.stdout)[-1500:]}
    except subprocess.TimeoutExpired:
        r = {"reproduced": False, "error": "replay timed out"}
    r["cmd"] = "PYTHONPATH=%s %s" % (env["PYTHONPATH"], " ".join("'%s'" % c if " " in c or "{" in c else c for c in cmd))
    r["argv"] = cmd
    return r


def find_replays(mod, obligation):
    """candidate concretisers, best first: the longest matching prefix of the property's own REPLAY table and of the table of
    the module the obligation was shared from (ties: the source module first -- it knows best how to replay its obligation)"""
    own_all = sorted([(pref, script, mode, params) for pref, script, mode, params in getattr(mod, "REPLAY", []) if obligation.startswith(pref)],
                     key=lambda e: -len(e[0]))
    own_best = own_all[0] if own_all else None
    own = getattr(mod, "__name__", "").split(".")[-1]
    src_best = None
    if len(obligation) > 3 and obligation[:3] != own:
        try:
            import importlib
            src = importlib.import_module("props." + obligation[:3])
            for pref, script, mode, params in getattr(src, "REPLAY", []):
                if obligation.startswith(pref) and pref.startswith(obligation[:3]) and (src_best is None or len(pref) > len(src_best[0])):
                    src_best = (pref, script, mode, params)
        except Exception:
            pass
    cands = [c for c in (own_best, src_best) if c is not None]
    if own_best is not None and src_best is not None and len(src_best[0]) >= len(own_best[0]):
        cands = [src_best, own_best]
    out = []
    for c in cands + own_all[1:3]:          # then the less specific entries of the own table (another scenario for the same family)
        if not any(c[1:] == d[1:] for d in out):
            out.append(c)
    return out


def find_replay(mod, obligation):
    r = find_replays(mod, obligation)
    return r[0] if r else None


def make_replay(prop, clause, path, seed, mod, known=None, cached=None):
    rec = {"property": prop, "obligation": clause["obligation"], "status": clause["status"],
           "verifier_output": {k: clause.get(k) for k in ("backend", "detail", "witness", "group")},
           "repo": os.environ.get("VERIF_REPO", "/repo"), "seed": seed, "reproduced": False}
    if known is not None:
        rec["known_finding"] = known["id"]
    cands = find_replays(mod, clause["obligation"])
    if cands:
        tried = []
        for k, (_, script, mode, params) in enumerate(cands):
            t0 = time.time()
            res = dict(cached) if (cached and k == 0) else run_script(script, mode, params, seed)
            res.setdefault("replay_s", round(time.time() - t0, 2))
            tried.append("%s %s" % (script, mode))
            if res.get("reproduced") and res.get("known_finding") and (known is None or known.get("id") != res.get("known_finding")):
                # the scenario only met a RECORDED finding that is not what this obligation is about: no evidence for it
                res = dict(res, reproduced=False, note="only the recorded finding %s was met" % res.get("known_finding"))
            if res.get("reproduced") or k == len(cands) - 1:
                break
        res["concretisers_tried"] = tried
        rec["replay"] = res
        rec["reproduced"] = bool(res.get("reproduced"))
    else:
        rec["replay"] = {"reproduced": False, "note": "no concretiser registered for this obligation"}
    json.dump(rec, open(path, "w"), indent=1, default=str)
    return rec


def replay_file(path):
    rec = json.load(open(path))
    argv = rec.get("replay", {}).get("argv")
    if not argv:
        print("no replay command recorded in", path)
        print(json.dumps(rec.get("verifier_output"), indent=1))
        return 1 if rec.get("status") == "refuted" else 0
    env = dict(os.environ)
    repo = os.environ.get("VERIF_REPO", "/repo")
    env["PYTHONPATH"] = os.path.join(repo, "src") + os.pathsep + os.path.join(ROOT, "replay")
    p = subprocess.run(argv, capture_output=True, text=True, env=env, cwd=ROOT)
    print(p.stdout.strip()[-3000:])
    lines = [l for l in p.stdout.strip().splitlines() if l.startswith("{")]
    ok = bool(lines and json.loads(lines[-1]).get("reproduced"))
    print("replay of %s: %s" % (rec["obligation"], "violation reproduced" if ok else "not reproduced on this tree"))
    return 1 if ok else 0
