"""Symbolic AST interpreter for the real source files under /repo.

The source is read as text and parsed on every run; functions are located by
qualified name.  What the extraction drops: docstrings, annotations, logging
calls and f-strings that only feed them, ``super().__init__(**kwargs)`` on
sklearn's BaseEstimator.
"""
import ast
import math
import operator as pyop
import os
from fractions import Fraction

from . import terms as T
from .terms import Poly, Cond, P, C, ZERO, ONE
from . import arr as A
from .arr import Arr, ModelError, ShapeError, is_scalar
from .values import (ClassInfo, Obj, SList, SRange, Delayed, FuncVal, BoundMethod, Bag, BagMap,
                     PyRaise, Opaque)
from . import npmodel as N
from . import smt

REPO = os.environ.get("VERIF_REPO", "/repo")
PKG = "src/bob/learn/em"


class Unsupported(ModelError):
    pass


class _Return(Exception):
    def __init__(self, v):
        self.v = v


class _Break(Exception):
    pass


class _Continue(Exception):
    pass


class PathsExceeded(Exception):
    pass


class Module:
    def __init__(self, name, path):
        self.name, self.path = name, path
        self.src = open(path).read()
        self.tree = ast.parse(self.src)
        self.globals = {}
        self.classes = {}


class Env:
    def __init__(self, module, local=None, parent=None):
        self.module, self.local, self.parent = module, (local if local is not None else {}), parent

    def lookup(self, name):
        e = self
        while e is not None:
            if name in e.local:
                return e.local[name]
            e = e.parent
        if name in self.module.globals:
            return self.module.globals[name]
        raise KeyError(name)


BINOPS = {ast.Add: pyop.add, ast.Sub: pyop.sub, ast.Mult: pyop.mul, ast.Div: pyop.truediv,
          ast.Pow: pyop.pow, ast.MatMult: pyop.matmul, ast.FloorDiv: pyop.floordiv,
          ast.Mod: pyop.mod, ast.BitAnd: pyop.and_, ast.BitOr: pyop.or_}
DUNDER = {ast.Add: "__add__", ast.Sub: "__sub__", ast.Mult: "__mul__", ast.Div: "__truediv__",
          ast.MatMult: "__matmul__"}
IDUNDER = {ast.Add: "__iadd__", ast.Sub: "__isub__", ast.Mult: "__imul__", ast.Div: "__itruediv__"}


_MISSING = object()
_ABSENT = object()        # "no entry in the instance __dict__": the fresh state of a functools.cached_property


class ArrFlags:
    """ndarray.flags: the memory layout / writability of a symbolic array is not determined by the model -- every flag read
    explores both answers (a fork that is not a condition on the values); setting a flag has no effect on values"""

    def __init__(self, interp, arr):
        object.__setattr__(self, "_I", interp)
        object.__setattr__(self, "_known", {})

    def __getattr__(self, name):
        k = object.__getattribute__(self, "_known")
        if name not in k:
            k[name] = bool(object.__getattribute__(self, "_I").choose())
        return k[name]

    def __setattr__(self, name, value):
        object.__getattribute__(self, "_known")[name] = bool(value)

    def __getitem__(self, name):
        return getattr(self, name.lower())


class PendingCache:
    """state of a private cache field the fixtures do not know, not yet looked at: 'as __init__ leaves it, or as the lazy
    filler computes it from the object's state' -- settled (both ways explored) when the field is first read or the object is
    first stored into"""

    def __init__(self, v0, filler):
        self.v0, self.filler = v0, filler


def _plain(v):
    """a plain Python value (for which a TypeError / AttributeError is real behaviour, not a gap of the model)"""
    return isinstance(v, (int, float, str, bytes, tuple, list, dict, set, frozenset, type(None), bool, range, Poly))


class Interp:
    def __init__(self, repo=None, max_paths=64):
        self.repo = repo or REPO
        self.modules = {}
        self.classes = {}
        self.contracts = {}       # qualname -> callable(interp, args, kwargs)
        self.max_paths = max_paths
        self.decisions = []
        self.pos = 0
        self.path = []
        self.assumed = set()
        self.isolated = False     # dask tasks run on copies of their arguments
        self.dask_events = []
        self.inplace_sites = []
        self.writes = []          # (location, origin regions written in place, kind)
        self.loc = "?"
        N.NPRandom.count = 0
        self.np = N.NP("numpy")
        self.da = N.NP("dask")
        self.np._interp = self
        self.da._interp = self
        A.DIM_ASSUME[0] = lambda a, b: T.cmp_cond("==", a, b) in self.assumed
        from . import verify as _V
        _V.CURRENT_INTERP[0] = self       # object comparison asks the class model which fields the CURRENT source still maintains
        self.loop_hooks = {}      # (qualname, ordinal) -> handler
        self.trace_calls = []
        self.h5 = None
        for m in ("utils", "kmeans", "gmm", "linear_scoring", "ivector", "wccn", "whitening", "factor_analysis"):
            self.load(m)

    # ------------------------------------------------------------------ loading
    def load(self, short):
        path = os.path.join(self.repo, PKG, short + ".py")
        mod = Module("bob.learn.em." + short, path)
        self.modules[short] = mod
        g = mod.globals
        g.update(self.builtins())
        for node in mod.tree.body:
            try:
                self.load_stmt(mod, node)
            except ModelError:
                pass
        return mod

    def load_stmt(self, mod, node):
        g = mod.globals
        if isinstance(node, ast.FunctionDef):
            g[node.name] = FuncVal(node, mod.name)
        elif isinstance(node, ast.ClassDef):
            bases = [b.id if isinstance(b, ast.Name) else getattr(b, "attr", "?") for b in node.bases]
            ci = ClassInfo(node.name, mod.name, node, bases)
            for it in node.body:
                if isinstance(it, ast.FunctionDef):
                    decos = [ast.unparse(d) for d in it.decorator_list]
                    if "property" in decos:
                        ci.getters[it.name] = it
                    elif any(d in ("functools.cached_property", "cached_property") for d in decos):
                        ci.cached[it.name] = it
                    elif any(d.endswith(".setter") for d in decos):
                        ci.setters[it.name] = it
                    else:
                        ci.methods[it.name] = it
                        if "classmethod" in decos:
                            ci.classmethods.add(it.name)
                        if "staticmethod" in decos:
                            ci.staticmethods.add(it.name)
                elif isinstance(it, ast.Assign) and all(isinstance(t, ast.Name) for t in it.targets):
                    # class-level attribute (a default shared by all instances): evaluated in the module's environment
                    try:
                        cv = self.ev(it.value, Env(mod))
                    except Exception:
                        continue
                    for t in it.targets:
                        ci.__dict__.setdefault("class_attrs", {})[t.id] = cv
            g[node.name] = ci
            mod.classes[node.name] = ci
            self.classes[node.name] = ci
        elif isinstance(node, (ast.Import, ast.ImportFrom)):
            self.do_import(mod, node, g)
        elif isinstance(node, ast.Assign):
            env = Env(mod)
            try:
                v = self.ev(node.value, env)
            except Exception:
                v = Opaque(ast.unparse(node.value))
            for t in node.targets:
                if isinstance(t, ast.Name):
                    g[t.id] = v

    def do_import(self, mod, node, g):
        table = {
            "numpy": self.np, "dask.array": self.da, "dask": DaskModel(self),
            "copy": CopyModel(self), "functools": FunctoolsModel(self), "operator": OperatorModel(self),
            "logging": Opaque("logging"), "scipy.spatial.distance": N.Scipy.spatial.distance, "itertools": ItertoolsModel(),
            "scipy": N.Scipy, "dask.bag": Opaque("dask.bag"), "dask.delayed": Opaque("dask.delayed"),
        }
        if isinstance(node, ast.Import):
            for a in node.names:
                top = a.name
                if a.asname:
                    g[a.asname] = table.get(top, Opaque(top))
                else:
                    root = top.split(".")[0]
                    g[root] = table.get(root, Opaque(root))
        else:
            src = node.module or ""
            for a in node.names:
                name = a.asname or a.name
                if node.level > 0 or src.startswith("bob.learn.em"):
                    short = src.split(".")[-1] if src and src != "bob.learn.em" else None
                    found = None
                    for mname in ([short] if short else list(self.modules)):
                        m2 = self.modules.get(mname)
                        if m2 and a.name in m2.globals:
                            found = m2.globals[a.name]
                            break
                    g[name] = found if found is not None else Opaque(a.name)
                elif src == "h5py" and a.name == "File":
                    g[name] = H5FileOpen(self)
                elif src == "dask.delayed" and a.name == "Delayed":
                    g[name] = N.TypeMarker("Delayed")
                elif src == "sklearn.base":
                    g[name] = ClassInfo(a.name, "sklearn.base", None, [])
                elif src == "sklearn.utils.multiclass" and a.name == "unique_labels":
                    g[name] = unique_labels_model
                elif src == "dask_ml.cluster.k_means" and a.name == "k_init":
                    g[name] = k_init_model
                elif src == "typing":
                    g[name] = Opaque("typing." + a.name)
                elif src in ("scipy.linalg", "dask.array.linalg"):
                    g[name] = getattr(LinalgModel(self), a.name, Opaque(a.name))
                else:
                    g[name] = Opaque(src + "." + a.name)

    def builtins(self):
        I = self
        return {
            "len": I.b_len, "range": I.b_range, "isinstance": I.b_isinstance, "hasattr": I.b_hasattr,
            "getattr": I.b_getattr, "setattr": I.b_setattr, "float": I.b_float, "int": I.b_int,
            "abs": I.b_abs, "sum": I.b_sum, "zip": I.b_zip, "enumerate": I.b_enumerate,
            "list": I.b_list, "tuple": I.b_tuple, "set": I.b_set, "any": I.b_any, "all": I.b_all,
            "str": I.b_str, "bytes": N.TypeMarker("bytes"), "dict": dict, "print": lambda *a, **k: None, "max": I.b_max, "min": I.b_min,
            "bool": I.b_bool, "super": lambda *a: Opaque("super"), "type": I.b_type,
            "None": None, "True": True, "False": False, "ValueError": "ValueError",
            "KeyError": "KeyError", "RuntimeError": "RuntimeError", "TypeError": "TypeError",
            "IndexError": "IndexError", "__name__": "mod", "reversed": lambda x: list(reversed(x)),
            "sorted": I.b_sorted, "divmod": I.b_divmod, "map": lambda f, *xs: [I.call(f, list(a), {}) for a in zip(*xs)],
        }

    # ------------------------------------------------------------------ builtins
    def b_len(self, x):
        if isinstance(x, (list, tuple, dict, str, set)):
            return len(x)
        if isinstance(x, (Arr, SList)):
            return x.slen()
        if isinstance(x, SRange):
            return x.length
        if isinstance(x, (LabelSet, SortedLabels)):
            return x.slen()
        if isinstance(x, Obj):
            return self.call_method(x, "__len__", [], {})
        if hasattr(x, "slen"):
            return x.slen()
        if not _plain(x):
            raise Unsupported("len() of %s" % type(x).__name__)
        raise PyRaise("TypeError", "object of type %s has no len()" % type(x).__name__)

    def b_range(self, *a):
        a = [x.as_int() if isinstance(x, Poly) and x.as_int() is not None else x for x in a]
        if all(isinstance(x, int) for x in a):
            return range(*a)
        if len(a) == 1:
            return SRange(0, a[0])
        if len(a) == 2:
            return SRange(a[0], a[1])
        raise Unsupported("range with a symbolic step")

    def b_isinstance(self, x, t):
        if isinstance(t, tuple):
            return any(self.b_isinstance(x, u) for u in t)
        if isinstance(t, N.TypeMarker):
            n = t.name
            if n == "ndarray":
                return isinstance(x, Arr) and x.kind == "numpy"
            if n == "daarray":
                return isinstance(x, Arr) and x.kind == "dask"
            if n == "Delayed":
                return isinstance(x, Delayed)
            if n == "bytes":
                return isinstance(x, bytes)
            if n == "integer":
                return (isinstance(x, int) and not isinstance(x, bool)) is False and isinstance(x, Poly) and bool(x.atoms()) and all(a.sort == "int" for a in x.atoms()) and False
            return False
        if isinstance(t, ClassInfo):
            if not isinstance(x, Obj):
                return False
            c = x.cls
            seen = [c]
            while seen:
                c = seen.pop()
                if c is t or c.name == t.name:
                    return True
                seen.extend(self.classes[b] for b in c.bases if b in self.classes)
            return False
        if getattr(t, "__name__", None) in ("b_list", "b_tuple", "b_str", "b_int", "b_float", "b_set"):
            n = t.__name__[2:]
            if n == "list":
                return isinstance(x, (list, SList))
            if n == "tuple":
                return isinstance(x, tuple)
            if n == "str":
                return isinstance(x, str)
            if n == "int":
                return isinstance(x, int) or (isinstance(x, Poly) and all(a.sort == "int" for a in x.atoms()))
            if n == "float":
                return isinstance(x, float)
        if isinstance(t, Opaque):
            if t.name.endswith("Bag"):
                return getattr(x, "is_bag", False) is True
            if t.name.endswith("Array"):
                return isinstance(x, Arr) and x.kind == "dask"
            return False
        raise Unsupported("isinstance against %r" % (t,))

    def b_hasattr(self, x, name):
        if isinstance(x, Obj):
            return (name in x.fields or x.cls.find("getters", name, self.classes) is not None
                    or x.cls.find("methods", name, self.classes) is not None)
        if isinstance(x, Arr):
            return name in ("ndim", "shape", "T", "sum", "dtype")
        if isinstance(x, (Poly, int, float, Fraction, Cond)):
            return False
        return hasattr(x, name)

    def b_getattr(self, x, name, *d):
        try:
            return self.getattr(x, name)
        except PyRaise:
            if d:
                return d[0]
            raise

    def b_setattr(self, x, name, v):
        self.setattr(x, name, v)

    def b_float(self, x=0.0):
        x = N.to_scalar(x)
        if isinstance(x, (Poly, Cond)):
            return x
        return float(x)

    def b_int(self, x=0):
        x = N.to_scalar(x)
        if isinstance(x, Poly):
            return x
        return int(x)

    def b_bool(self, x=False):
        return self.truth(x)

    def b_str(self, x=""):
        if isinstance(x, (ClassInfo,)):
            return "<class '%s.%s'>" % (x.module, x.name)
        if isinstance(x, (Poly, Arr, Obj)):
            return "<symbolic>"
        return str(x)

    def b_abs(self, x):
        if isinstance(x, (Arr,)):
            return abs(x)
        if isinstance(x, Poly):
            return T.mk_abs(x)
        return abs(x)

    def b_type(self, x, *more):
        if more:
            raise Unsupported("type() with three arguments")
        if isinstance(x, Arr):
            return self.np.ndarray if x.kind == "numpy" else self.np.Array
        if isinstance(x, Obj):
            return x.cls
        return Opaque("type(%s)" % type(x).__name__)

    def b_divmod(self, a, b):
        if isinstance(a, int) and isinstance(b, int):
            return divmod(a, b)
        a, b = N.to_scalar(a), N.to_scalar(b)
        return (T.mk_floordiv(P(a), P(b)), T.mk_mod(P(a), P(b)))

    def b_max(self, *a):
        if len(a) == 1:
            a = list(a[0])
        if all(isinstance(x, (int, float)) for x in a):
            return max(a)
        r = P(a[0])
        for x in a[1:]:
            r = T.mk_max(r, P(x))
        return r

    def b_min(self, *a):
        if len(a) == 1:
            a = list(a[0])
        if all(isinstance(x, (int, float)) for x in a):
            return min(a)
        r = P(a[0])
        for x in a[1:]:
            r = T.mk_min(r, P(x))
        return r

    def b_sum(self, xs, start=0):
        if isinstance(xs, SList):
            return self.fold_slist(xs, start, ast.Add, inplace=False)
        tot = start
        for x in xs:
            tot = self.binop(ast.Add, tot, x)
        return tot

    def fold_slist(self, xs, start, op, inplace):
        """left fold of + over a symbolic list = start + Σ_i xs[i], fieldwise for objects"""
        n = xs.slen() if xs.filt is None else None
        if n is None:
            raise Unsupported("fold of a filtered list")
        probe = xs.elem(T.fresh("p"))
        if isinstance(probe, (Poly, int, float)):
            return self.binop(ast.Add, start, T.Sum(n, lambda i: P(xs.elem(i))))
        if isinstance(probe, Arr):
            s = Arr(probe.shape, lambda *idx: T.Sum(n, lambda i: P(xs.elem(i).fn(*idx))), probe.dtype, probe.kind)
            return self.binop(ast.Add, start, s)
        if isinstance(probe, Obj):
            return self.fold_objs(xs, start, inplace)
        if isinstance(probe, (tuple, list)):
            raise Unsupported("fold of tuples")
        raise Unsupported("fold of %s" % type(probe).__name__)

    def fold_objs(self, xs, start, inplace):
        """Σ of statistics objects through their own __add__/__iadd__: the
        method body is executed once on (accumulator placeholder, element i)
        and summarised by the additive loop rule."""
        from .loops import fold_objects
        return fold_objects(self, xs, start, inplace)

    def b_zip(self, *xs):
        if all(isinstance(x, (list, tuple, range)) for x in xs):
            return [tuple(t) for t in zip(*xs)]
        n = None
        for x in xs:
            ln = x.slen() if isinstance(x, (SList, Arr)) else (P(len(x)) if isinstance(x, (list, tuple)) else x.length)
            n = ln if n is None else n
        els = list(xs)

        def elem(i):
            return tuple(self.index(x, i) for x in els)
        return SList(n, elem)

    def b_enumerate(self, xs, start=0):
        if isinstance(xs, (list, tuple, range)):
            return [(i + start, x) for i, x in enumerate(xs)]
        if not isinstance(xs, (SList, Arr, SRange)):
            xs = self.as_symbolic_iter(xs)
        n = xs.slen() if isinstance(xs, (SList, Arr)) else xs.length
        return SList(n, lambda i: (i + start, self.index(xs, i)))

    def b_list(self, xs=()):
        if isinstance(xs, (SList, SRange)):
            return xs
        if hasattr(xs, "as_slist") and not isinstance(xs, (list, tuple)):
            return xs.as_slist()
        if isinstance(xs, Arr):
            return SList(xs.slen(), lambda i: xs[i])
        return list(xs)

    def b_tuple(self, xs=()):
        return tuple(xs)

    def b_set(self, xs=()):
        if isinstance(xs, (Arr, SList)):
            c = constant_element(xs)
            if c is not None:
                return {c}              # every element is the same concrete value
            return LabelSet(xs)
        return set(xs)

    def b_sorted(self, xs, **kw):
        if isinstance(xs, LabelSet):
            return SortedLabels(xs)
        if isinstance(xs, (SList, Arr, SRange)):
            raise Unsupported("sorted() of a symbolic sequence")
        return sorted(xs, **kw)

    def b_any(self, xs):
        if isinstance(xs, Arr):
            return xs.any()
        if isinstance(xs, SList):
            raise Unsupported("any() over a symbolic list")
        r = False
        conds = []
        for x in xs:
            if isinstance(x, (Cond, Poly)):
                conds.append(C(x))
            elif x:
                return True
        return T.c_or(*conds) if conds else r

    def b_all(self, xs):
        conds = []
        for x in xs:
            if isinstance(x, (Cond, Poly)):
                conds.append(C(x))
            elif not x:
                return False
        return T.c_and(*conds) if conds else True

    # ------------------------------------------------------------------ forking
    def decide(self, cond):
        cond = C(cond)
        k = cond.const()
        if k is not None:
            return k
        if cond in self.assumed:
            return True
        nc = T.c_not(cond)
        if nc in self.assumed:
            return False
        if self.feasible is not None:
            ft = self.feasible(self, cond)
            if ft is not None:
                return ft
        if self.pos < len(self.decisions):
            d = self.decisions[self.pos]
        else:
            d = True
            self.decisions.append(True)
        self.pos += 1
        c = cond if d else nc
        self.path.append(c)
        self.assumed.add(c)
        return d

    feasible = None

    def choose(self):
        """a two-way choice that is not a condition on the inputs (which state of a cache the object is in): explored like a
        branch by run_paths, but nothing is added to the path condition"""
        if self.pos < len(self.decisions):
            d = self.decisions[self.pos]
        else:
            d = True
            self.decisions.append(True)
        self.pos += 1
        return d

    # ------------------------------------------------------------------ private fields the fixtures do not know (caches)
    def unknown_private_fields(self, obj):
        """private fields the class (or a base in the package) assigns that a fixture-built object does not carry"""
        if getattr(obj, "constructed", False) or obj.cls is None:
            return []
        names, seen = [], set()

        def walk(ci):
            if ci is None or id(ci) in seen:
                return
            seen.add(id(ci))
            if ci.node is not None:
                for n in ast.walk(ci.node):
                    if isinstance(n, ast.Attribute) and isinstance(n.ctx, ast.Store) and isinstance(n.value, ast.Name) \
                            and n.value.id == "self" and n.attr.startswith("_") and not n.attr.startswith("__") \
                            and n.attr not in obj.fields and n.attr not in names:
                        names.append(n.attr)
            for b in ci.bases:
                walk(self.classes.get(b))
        walk(obj.cls)
        return names

    def init_constant(self, ci, name):
        """the constant __init__ stores in self.<name> (the state of the field in a fresh object), or _MISSING"""
        hit = ci.find("methods", "__init__", self.classes)
        if hit is None:
            return _MISSING
        for n in ast.walk(hit[0]):
            if isinstance(n, ast.Assign):
                for t in n.targets:
                    if isinstance(t, ast.Attribute) and isinstance(t.value, ast.Name) and t.value.id == "self" and t.attr == name:
                        return n.value.value if isinstance(n.value, ast.Constant) else _MISSING
        return _MISSING

    def lazy_filler(self, ci, name):
        """a getter / method taking only self that fills self.<name> when it is None: `if self.<name> is None: self.<name> = ...`"""
        def fills(fd):
            a = fd.args
            if len(a.args) != 1 or a.vararg or a.kwonlyargs:
                return False
            for n in ast.walk(fd):
                if isinstance(n, ast.If) and isinstance(n.test, ast.Compare) and len(n.test.ops) == 1 and isinstance(n.test.ops[0], ast.Is) \
                        and isinstance(n.test.left, ast.Attribute) and n.test.left.attr == name \
                        and isinstance(n.test.comparators[0], ast.Constant) and n.test.comparators[0].value is None:
                    for m in ast.walk(n):
                        if isinstance(m, ast.Attribute) and isinstance(m.ctx, ast.Store) and m.attr == name:
                            return True
            return False
        seen = set()

        def walk(c):
            if c is None or id(c) in seen:
                return None
            seen.add(id(c))
            for table in (c.getters, c.methods):
                for fd in table.values():
                    if fills(fd):
                        return FuncVal(fd, c.module, c)
            for b in c.bases:
                r = walk(self.classes.get(b))
                if r is not None:
                    return r
            return None
        return walk(ci)

    def lazy_value(self, obj, name, v0, filler):
        """what the filler stores in self.<name> from the object's CURRENT visible state (on a shallow copy), or _MISSING"""
        cp = Obj(obj.cls, {k: (x.v0 if isinstance(x, PendingCache) else x) for k, x in obj.fields.items() if not (isinstance(x, PendingCache) and x.v0 is _ABSENT)})
        cp.cf = {}
        try:
            if v0 is _ABSENT:
                cp.fields.pop(name, None)
                return self.getattr(cp, name)          # a cached property: what its getter computes (and would store)
            cp.fields[name] = v0
            self.call_func(filler, [cp], {})
        except (PyRaise, ModelError, Unsupported, KeyError, TypeError, AttributeError):
            return _MISSING
        return cp.fields.get(name, _MISSING)

    def complete_fixture(self, values):
        """Objects assembled by a verification fixture know nothing of private fields the code has since added.  Such a
        field is treated as a CACHE: in the pre-state it is either as __init__ leaves it or as the class's own lazy filler
        would compute it from the visible state (both explored); check_function then requires every operation to leave it
        in one of these two states for the POST-state (cache coherence), which makes the pair an inductive invariant."""
        seen = set()

        def walk(v):
            if isinstance(v, Obj):
                if id(v) in seen:
                    return
                seen.add(id(v))
                for x in list(v.fields.values()):
                    walk(x)
                if hasattr(v, "cf"):
                    return
                names = self.unknown_private_fields(v)
                cached = {}
                seen_c = set()

                def cached_names(c):
                    if c is None or id(c) in seen_c:
                        return
                    seen_c.add(id(c))
                    for nm_, fd_ in getattr(c, "cached", {}).items():
                        cached.setdefault(nm_, FuncVal(fd_, c.module, c))
                    for b in c.bases:
                        cached_names(self.classes.get(b))
                cached_names(v.cls)
                cached = {k: f_ for k, f_ in cached.items() if k not in v.fields}
                if not names and not cached:
                    v.cf = {}
                    return
                info = {}
                for f, getter in cached.items():
                    # a functools.cached_property: no entry yet, or the value its getter computes from the object's state
                    info[f] = (_ABSENT, getter)
                    v.fields[f] = PendingCache(_ABSENT, getter)
                for f in names:
                    v0 = self.init_constant(v.cls, f)
                    if v0 is _MISSING:
                        continue      # not a cache by this rule: stays missing (reading it is a fixture gap, reported where it is read)
                    filler = self.lazy_filler(v.cls, f)
                    info[f] = (v0, filler)
                    v.fields[f] = PendingCache(v0, filler) if filler is not None else v0
                v.cf = info
            elif isinstance(v, (list, tuple)):
                for x in v:
                    walk(x)
            elif isinstance(v, dict):
                for x in v.values():
                    walk(x)
        walk(values)

    def settle_caches(self, v, only=None):
        """decide the pending cache fields of object v now (from its current state)"""
        for f, val in list(v.fields.items()):
            if isinstance(val, PendingCache) and (only is None or f == only):
                if val.v0 is _ABSENT:
                    del v.fields[f]
                else:
                    v.fields[f] = val.v0
                if self.choose():
                    r = self.lazy_value(v, f, val.v0, val.filler)
                    if r is not _MISSING:
                        v.fields[f] = r

    def recohere(self, values):
        """a callee was replaced by its contract, which says nothing about the private cache fields the fixtures do not know
        (complete_fixture): by the callee's own cache-coherence postcondition each of them is now as __init__ leaves it or as
        the lazy filler computes it from the object's state AFTER the call -- both continuations are explored"""
        seen = set()

        def walk(v, depth=0):
            if isinstance(v, Obj):
                if id(v) in seen or depth > 4:
                    return
                seen.add(id(v))
                for f, (v0, filler) in list(getattr(v, "cf", {}).items()):
                    v.fields[f] = PendingCache(v0, filler) if filler is not None else v0
                for x in list(v.fields.values()):
                    walk(x, depth + 1)
            elif isinstance(v, (list, tuple)):
                for x in v:
                    walk(x, depth + 1)
            elif isinstance(v, dict):
                for x in v.values():
                    walk(x, depth + 1)
        walk(values)

    def truth(self, v):
        if isinstance(v, (bool, int, float, str, list, tuple, dict, set, type(None), range)):
            return bool(v)
        if isinstance(v, Cond):
            return self.decide(v)
        if isinstance(v, Poly):
            if v.is_const():
                return v.const_value() != 0
            return self.decide(T.cmp_cond("!=", v, ZERO))
        if isinstance(v, Arr):
            if v.ndim == 0 or all(A.is_one(d) for d in v.shape):
                return self.truth(v.fn(*[ZERO] * v.ndim))
            raise PyRaise("ValueError", "The truth value of an array with more than one element is ambiguous")
        if isinstance(v, SList):
            return self.decide(T.cmp_cond("!=", v.slen(), ZERO))
        if isinstance(v, (Obj, FuncVal, ClassInfo, Opaque, BoundMethod, Delayed)):
            return True
        return bool(v)

    def run_paths(self, thunk, base_assumptions=()):
        """enumerate all paths of thunk(); yields (path_conds, outcome) where
        outcome is ('ok', value) or ('raise', PyRaise)"""
        results = []
        self.decisions = []
        count = 0
        while True:
            self.pos = 0
            self.path = []
            self.assumed = set(base_assumptions)
            count += 1
            if count > self.max_paths:
                raise PathsExceeded()
            try:
                v = thunk()
                results.append((list(self.path), ("ok", v)))
            except PyRaise as e:
                results.append((list(self.path), ("raise", e)))
            # backtrack
            d = self.decisions[:self.pos]
            while d and d[-1] is False:
                d.pop()
            if not d:
                break
            d[-1] = False
            self.decisions = d
        return results

    # ------------------------------------------------------------------ calls
    def call(self, f, args, kwargs):
        if isinstance(f, FuncVal):
            return self.call_func(f, args, kwargs)
        if isinstance(f, BoundMethod):
            return self.call_func(f.func, [f.obj] + list(args), kwargs)
        if isinstance(f, ClassInfo):
            return self.instantiate(f, args, kwargs)
        if isinstance(f, Opaque):
            if f.name.startswith("logger") or f.name.startswith("logging") or "super" in f.name:
                return None
            raise Unsupported("call of opaque %s" % f.name)
        if callable(f):
            if "out" in kwargs and isinstance(getattr(f, "__self__", None), (N.NP, N._UFunc)) or ("out" in kwargs and isinstance(f, N._UFunc)):
                # ufunc(..., out=a): the result is written into `a` in place (every alias of `a` sees it) and `a` is returned
                kw = dict(kwargs)
                out = kw.pop("out")
                where = kw.pop("where", True)
                if out is None:
                    if where is not True:
                        raise Unsupported("ufunc where= without out= (unselected positions uninitialised)")
                    return self.call(f, args, kw)
                if isinstance(out, tuple) and len(out) == 1:
                    out = out[0]
                r = self.call(f, args, kw)
                if where is not True:
                    # positions where the mask is false keep what `out` held (the operation is not evaluated there)
                    r = N.NP().where(where, r, out)
                if not isinstance(out, Arr) or not isinstance(r, Arr) or r.ndim != out.ndim:
                    raise Unsupported("out= with a non-array or a broadcasting result")
                self.inplace_sites.append(self.loc)
                self.writes.append((self.loc, out.origin, "ufunc-out"))
                if out.dtype == "int" and r.dtype == "real":
                    raise PyRaise("UFuncTypeError", "Cannot cast ufunc output from float64 to an integer dtype")
                out.assign_from(r)
                self.propagate_view_store(out)
                return out
            try:
                return f(*args, **kwargs)
            except TypeError as e:
                msg = str(e)
                if "unexpected keyword argument" in msg or "positional argument" in msg or "required positional" in msg:
                    # the MODEL of a library function does not take this calling form: a limit of the checker
                    raise Unsupported("calling form of %s: %s" % (getattr(f, "__qualname__", f), msg))
                raise
        if not _plain(f):
            raise Unsupported("call of %s" % type(f).__name__)
        raise PyRaise("TypeError", "%r is not callable" % (f,))

    def instantiate(self, ci, args, kwargs):
        if ci.node is None:
            return Obj(ci)
        o = Obj(ci)
        o.constructed = True
        init = ci.find("methods", "__init__", self.classes)
        if init is not None:
            fd, owner = init
            self.call_func(FuncVal(fd, owner.module, owner), [o] + list(args), kwargs)
        return o

    def call_method(self, obj, name, args, kwargs):
        r = obj.cls.find("methods", name, self.classes)
        if r is None:
            raise PyRaise("AttributeError", "%s has no method %s" % (obj.cls.name, name))
        fd, owner = r
        return self.call_func(FuncVal(fd, owner.module, owner), [obj] + list(args), kwargs)

    def call_func(self, f, args, kwargs):
        qn = f.qualname
        self.trace_calls.append(qn)
        if qn in self.contracts and qn not in self.no_contract and qn not in Interp.global_inline:
            try:
                r = self.contracts[qn](self, list(args), dict(kwargs))
            except TypeError as e:
                if not any(t in str(e) for t in ("positional argument", "unexpected keyword argument", "required positional")):
                    raise
                r = _MISSING     # the callee's signature is no longer the one the contract was written for: its real body runs instead
            if r is not _MISSING:
                self.recohere([args, kwargs, r])
                return r
        node = f.node
        mod = self.modules[f.module.split(".")[-1]]
        local = {}
        a = node.args
        params = [p.arg for p in a.posonlyargs + a.args]
        defaults = a.defaults
        nd = len(defaults)
        args = list(args)
        kwargs = dict(kwargs)
        if len(args) > len(params) and a.vararg is None:
            raise PyRaise("TypeError", "%s() takes %d positional arguments but %d were given" % (f.name, len(params), len(args)))
        denv = Env(mod)
        for i, p in enumerate(params):
            if i < len(args):
                if p in kwargs:
                    raise PyRaise("TypeError", "%s() got multiple values for argument '%s'" % (f.name, p))
                local[p] = args[i]
            elif p in kwargs:
                local[p] = kwargs.pop(p)
            else:
                di = i - (len(params) - nd)
                if di < 0:
                    raise PyRaise("TypeError", "%s() missing required argument '%s'" % (f.name, p))
                dv = getattr(f, "default_values", None)
                local[p] = dv[di] if dv is not None and di < len(dv) else self.ev(defaults[di], denv)
        if a.vararg is not None:
            local[a.vararg.arg] = tuple(args[len(params):])
        for p, d in zip(a.kwonlyargs, a.kw_defaults):
            if p.arg in kwargs:
                local[p.arg] = kwargs.pop(p.arg)
            elif d is not None:
                local[p.arg] = self.ev(d, denv)
            else:
                raise PyRaise("TypeError", "%s() missing keyword-only argument '%s'" % (f.name, p.arg))
        if kwargs:
            if a.kwarg is not None:
                local[a.kwarg.arg] = kwargs
            else:
                raise PyRaise("TypeError", "%s() got an unexpected keyword argument '%s'" % (f.name, sorted(kwargs)[0]))
        elif a.kwarg is not None:
            local[a.kwarg.arg] = {}
        env = Env(mod, local, f.closure)
        env.func = f
        env.loop_ordinal = 0
        saved = self.loc
        try:
            self.exec_block(node.body, env)
        except _Return as r:
            return r.v
        finally:
            self.loc = saved
        return None

    no_contract = frozenset()
    global_inline = frozenset()      # qualnames whose call-site contracts are switched off (their real bodies run): the inlining re-check of main.py

    def class_attr(self, ci, name, seen=None):
        """class-level attribute default (searching the bases), or _MISSING"""
        seen = seen if seen is not None else set()
        if ci is None or id(ci) in seen:
            return _MISSING
        seen.add(id(ci))
        ca = ci.__dict__.get("class_attrs", {})
        if name in ca:
            return ca[name]
        for b in ci.bases:
            r = self.class_attr(self.classes.get(b), name, seen)
            if r is not _MISSING:
                return r
        return _MISSING

    def class_assigns(self, ci, name, seen=None):
        """does the class (or a base) assign self.<name> anywhere?"""
        seen = seen if seen is not None else set()
        if ci is None or id(ci) in seen:
            return False
        seen.add(id(ci))
        if ci.node is not None:
            for n in ast.walk(ci.node):
                if isinstance(n, ast.Attribute) and isinstance(n.ctx, ast.Store) and n.attr == name \
                        and isinstance(n.value, ast.Name) and n.value.id == "self":
                    return True
                if isinstance(n, ast.Call) and isinstance(n.func, ast.Name) and n.func.id == "setattr" and len(n.args) >= 2 \
                        and isinstance(n.args[1], ast.Constant) and n.args[1].value == name:
                    return True
        return any(self.class_assigns(self.classes.get(b), name, seen) for b in ci.bases)

    # ------------------------------------------------------------------ attributes
    def getattr(self, v, name):
        if isinstance(v, Obj):
            if name in v.fields and isinstance(v.fields[name], PendingCache):
                self.settle_caches(v, only=name)
            if name in v.fields:
                return v.fields[name]
            if name == "__dict__":
                if not hasattr(v, "cf") and not getattr(v, "constructed", False) and not getattr(v, "dirty", False):
                    self.complete_fixture([v])
                self.settle_caches(v)         # the raw dictionary is handed out: whatever is done to it bypasses the attribute protocol
                return v.fields
            if name == "__class__":
                return v.cls
            g = v.cls.find("getters", name, self.classes)
            if g is not None:
                fd, owner = g
                return self.call_func(FuncVal(fd, owner.module, owner), [v], {})
            g = v.cls.find("cached", name, self.classes)
            if g is not None:
                # functools.cached_property: computed on first access, then kept in the instance __dict__ under the same name
                fd, owner = g
                val = self.call_func(FuncVal(fd, owner.module, owner), [v], {})
                v.fields[name] = val
                return val
            m = v.cls.find("methods", name, self.classes)
            if m is not None:
                fd, owner = m
                fv = FuncVal(fd, owner.module, owner)
                if name in owner.staticmethods:
                    return fv                      # a static method reached through an instance: no binding
                if name in owner.classmethods:
                    return BoundMethod(v.cls, fv)
                return BoundMethod(v, fv)
            ca = self.class_attr(v.cls, name)
            if ca is not _MISSING:
                return ca
            if not getattr(v, "constructed", False) and self.class_assigns(v.cls, name):
                # the object was assembled field by field by a verification fixture, not by its constructor: a field the
                # class itself assigns somewhere (a new cache, say) is missing from the FIXTURE, not from the object
                if not getattr(v, "dirty", False) and not hasattr(v, "cf") and name.startswith("_") and not name.startswith("__"):
                    # ... and nothing has been stored into the object yet: it is still in its pre-state, complete it now
                    self.complete_fixture([v])
                    if name in v.fields:
                        return v.fields[name]
                raise ModelError("the fixture of %s does not define the field '%s' that the class assigns" % (v.cls.name, name))
            raise PyRaise("AttributeError", "'%s' object has no attribute '%s'" % (v.cls.name, name))
        if isinstance(v, ClassInfo):
            m = v.find("methods", name, self.classes)
            if m is not None:
                fd, owner = m
                fv = FuncVal(fd, owner.module, owner)
                if name in owner.staticmethods:
                    return fv
                if name in owner.classmethods:
                    return BoundMethod(v, fv)
                return fv
            raise PyRaise("AttributeError", "class %s has no attribute %s" % (v.name, name))
        if isinstance(v, Arr):
            if name == "shape":
                return tuple(v.shape)
            if name == "dtype":
                # float arrays are float64; integer arrays of a caller-chosen width have no single dtype in the model
                if v.dtype == "real":
                    return self.np.float64
                if v.dtype == "bool":
                    return N.TypeMarker("bool")
                if A.is_narrow(v):
                    raise Unsupported("dtype of an integer array of unspecified width")
                return self.np.int64
            if name in ("ndim", "T", "size"):
                return getattr(v, name)
            if name in ("sum", "mean", "min", "max", "any", "all", "argmin", "argmax", "transpose", "swapaxes",
                        "reshape", "repeat", "flatten", "ravel", "copy", "astype"):
                return getattr(v, name)
            if name == "persist":
                return lambda: v
            if name == "compute":
                return lambda: v
            if name == "rechunk":
                def rechunk(*a, **k):
                    spec = a[0] if a else k.get("chunks")
                    if v.chunks is not None and isinstance(spec, dict) and hasattr(v.chunks, "rechunk"):
                        r = v.view()
                        r.chunks = v.chunks.rechunk(spec)
                        return r
                    return v
                return rechunk
            if name == "numblocks":
                if v.chunks is None:
                    raise Unsupported("numblocks of an array without a chunk description")
                return v.chunks.numblocks(v)
            if name == "chunks":
                if v.chunks is not None and hasattr(v.chunks, "chunk_sizes"):
                    return v.chunks.chunk_sizes(v)
                raise Unsupported("explicit chunk sizes")
            if name == "to_delayed":
                return lambda: ToDelayed(self, v)
            if name == "nbytes":
                return v.size * 8
            if name == "dot":
                return lambda o: self.np.dot(v, o)
            if name == "flags":
                return ArrFlags(self, v)
            raise Unsupported("ndarray attribute %s" % name)
        if isinstance(v, Poly):
            if name in ("sum", "mean", "item", "copy", "min", "max"):
                return lambda *a, **k: v
            if name == "ndim":
                raise PyRaise("AttributeError", "'float' object has no attribute 'ndim'")
            if name == "shape":
                return ()
            raise PyRaise("AttributeError", "'float' object has no attribute '%s'" % name)
        if isinstance(v, (int, float)) and not isinstance(v, bool):
            if name in ("sum", "mean", "item"):
                return lambda *a, **k: v
            raise PyRaise("AttributeError", "'%s' object has no attribute '%s'" % (type(v).__name__, name))
        if isinstance(v, SList):
            if name == "append":
                return v.append
            raise Unsupported("list attribute %s" % name)
        if isinstance(v, Delayed):
            if name == "persist":
                return lambda: v
            if name == "compute":
                return lambda **kw: self.dask_compute(v)
            if name in ("visualize", "dask", "key") or name.startswith("__"):
                raise Unsupported("Delayed attribute %s" % name)
            # attribute access on a Delayed is lazy: a new Delayed whose value is the attribute of the computed object
            return Delayed(lambda o, name=name: self.getattr(o, name), (v,), {})
        if isinstance(v, dict) and name in ("update", "items", "keys", "values", "get", "pop"):
            return getattr(v, name)
        try:
            return getattr(v, name)
        except AttributeError:
            if not isinstance(v, (int, float, str, bytes, tuple, list, dict, set, frozenset, type(None), bool, range)):
                # an attribute missing on a MODEL object (library namespace, ufunc stand-in, symbolic list, ...) is a limit of
                # the checker, not behaviour of the code; only plain Python values raise AttributeError for real
                raise ModelError("library entry point not modelled: %s.%s" % (getattr(v, "__qualname__", None) or type(v).__name__, name))
            raise PyRaise("AttributeError", "%s has no attribute %s" % (type(v).__name__, name))

    def setattr(self, v, name, val):
        if isinstance(v, Obj):
            if not hasattr(v, "cf") and not getattr(v, "constructed", False) and not getattr(v, "dirty", False) and v.cls is not None:
                # first store into an object assembled by a fixture: settle the private fields the fixture does not know
                # while the object is still in its pre-state
                self.complete_fixture([v])
            if getattr(v, "cf", None) and any(isinstance(x, PendingCache) for x in v.fields.values()):
                self.settle_caches(v)         # the object is about to change: its caches are what they are NOW
            s = v.cls.find("setters", name, self.classes)
            if s is not None:
                fd, owner = s
                self.call_func(FuncVal(fd, owner.module, owner, name=fd.name + ".setter"), [v, val], {})
                return
            v.fields[name] = val
            v.dirty = True
            return
        if isinstance(v, (Delayed,)):
            setattr(v, name, val)
            return
        raise Unsupported("attribute store on %s" % type(v).__name__)

    def index(self, v, k):
        if isinstance(v, (list, tuple, str, range)):
            if isinstance(k, Poly):
                ki = k.as_int()
                if ki is None:
                    if isinstance(v, (list, tuple)) and v and all(is_scalar(x) for x in v):
                        return A._select([P(x) for x in v], k)
                    if isinstance(v, list):
                        return SymIndexed(v, k)
                    raise Unsupported("symbolic index into a concrete sequence")
                k = ki
            try:
                return v[k]
            except IndexError:
                raise PyRaise("IndexError", "list index out of range")
        if isinstance(v, dict):
            try:
                return v[k]
            except KeyError:
                raise PyRaise("KeyError", repr(k))
        if isinstance(v, Arr):
            self.range_side(k, v.shape)
            return v[k]
        if isinstance(v, SList):
            if isinstance(k, (int, Poly)) and not isinstance(k, bool) and v.filt is None:
                kk = P(k) if not (isinstance(k, int) and k < 0) else v.length + k
                T.side("range", (kk, v.length), "list index")
            return v.getitem(k)
        if isinstance(v, SRange):
            return v.elem(P(k))
        if isinstance(v, Obj):
            return self.call_method(v, "__getitem__", [k], {})
        if hasattr(v, "getitem"):
            return v.getitem(k)
        if isinstance(v, Poly):
            raise PyRaise("IndexError", "invalid index to scalar variable")
        raise Unsupported("subscript of %s" % type(v).__name__)

    # ------------------------------------------------------------------ operators
    def binop(self, op, l, r, inplace=False):
        if isinstance(l, Obj):
            if inplace and op in IDUNDER and l.cls.find("methods", IDUNDER[op], self.classes):
                return self.call_method(l, IDUNDER[op], [r], {})
            if op in DUNDER and l.cls.find("methods", DUNDER[op], self.classes):
                return self.call_method(l, DUNDER[op], [r], {})
            raise PyRaise("TypeError", "unsupported operand type(s) for %s" % op.__name__)
        if isinstance(r, Obj):
            if isinstance(l, int) and l == 0 and op is ast.Add and r.cls.find("methods", "__radd__", self.classes):
                return self.call_method(r, "__radd__", [l], {})
            raise PyRaise("TypeError", "unsupported operand type(s) for %s: '%s' and '%s'" % (
                op.__name__, type(l).__name__, r.cls.name))
        if isinstance(l, (list, tuple)) and isinstance(r, (list, tuple)) and op is ast.Add:
            return l + r
        if op is ast.Add and isinstance(l, SList) and isinstance(r, (SList, list)) and l.filt is None and getattr(r, "filt", None) is None:
            # symbolic list + a tail whose length is a known small constant under the current assumptions: kept as a concrete tail
            tail = None
            if isinstance(r, list):
                tail = list(r)
            else:
                for cnt in (0, 1, 2):
                    st, _ = smt.prove(T.cmp_cond("==", r.slen(), Poly.const(cnt)), smt.Facts(conds=list(self.assumed)))
                    if st == "proved":
                        tail = [r.elem(Poly.const(j)) for j in range(cnt)]
                        break
            if tail is None:
                raise Unsupported("concatenation of two symbolic lists")
            out = SList(l.length, l.elem)
            out.extra = list(getattr(l, "extra", [])) + tail
            return out
        if isinstance(l, (list, SList)) and op is ast.Mult:
            if isinstance(r, Poly) and r.as_int() is None:
                el = list(l)
                if len(el) == 1:
                    return SList(r, lambda i: el[0])
            return l * int(r)
        if isinstance(l, str) or isinstance(r, str):
            if op is ast.Add:
                return l + r
            if op is ast.Mod:
                return "<fmt>"
        f = BINOPS[op]
        if op is ast.Div:
            if isinstance(l, (Arr, Poly)) or isinstance(r, (Arr, Poly)):
                return A.ewise(A._div, l, r) if (isinstance(l, Arr) or isinstance(r, Arr)) else A._div(l, r)
            if isinstance(r, (int, float)) and r == 0:
                raise PyRaise("ZeroDivisionError", "division by zero")
        if op is ast.Pow and isinstance(l, Poly):
            return A._pow(l, r)
        if op in (ast.FloorDiv, ast.Mod) and (isinstance(l, Poly) or isinstance(r, Poly)):
            l, r = P(l), P(r)
            if l.is_const() and r.is_const():
                a_, b_ = l.const_value(), r.const_value()
                return Poly.const(a_ // b_ if op is ast.FloorDiv else a_ % b_)
            return T.mk_floordiv(l, r) if op is ast.FloorDiv else T.mk_mod(l, r)
        if isinstance(l, float) and isinstance(r, Poly) and math.isinf(l):
            raise Unsupported("arithmetic with inf")
        try:
            return f(l, r)
        except TypeError as e:
            if isinstance(l, (Cond,)) or isinstance(r, Cond):
                raise Unsupported("arithmetic on conditions")
            if not (_plain(l) and _plain(r)):
                raise Unsupported("operator %s on %s and %s" % (op.__name__, type(l).__name__, type(r).__name__))
            raise PyRaise("TypeError", str(e))
        except ZeroDivisionError:
            raise PyRaise("ZeroDivisionError", "division by zero")
        except ValueError as e:
            raise Unsupported(str(e))

    def compare(self, op, l, r):
        if isinstance(op, (ast.Is, ast.IsNot)):
            if (isinstance(l, Opaque) or isinstance(r, Opaque)) and l is not None and r is not None:
                # the identity of a value the model never looks into cannot be decided
                raise Unsupported("identity test on an opaque value (%s)" % getattr(l if isinstance(l, Opaque) else r, "name", "?"))
            same = l is r or (l is None and r is None) or (isinstance(l, N.TypeMarker) and isinstance(r, N.TypeMarker) and l.name == r.name)
            return same if isinstance(op, ast.Is) else not same
        if isinstance(op, (ast.In, ast.NotIn)):
            if isinstance(r, (list, tuple, set, dict, str)):
                res = any((l is x) or (type(l) is type(x) and not isinstance(l, (Poly, Arr)) and l == x) for x in r) \
                    if not isinstance(r, (str, dict)) else (l in r)
            elif isinstance(r, H5Group) and isinstance(l, str):
                N.used("h5py.__contains__")
                res = l in r.items           # h5py: `name in group` -- is there a member of that name
            else:
                raise Unsupported("membership test in %s" % type(r).__name__)
            return res if isinstance(op, ast.In) else not res
        name = {ast.Lt: "<", ast.LtE: "<=", ast.Gt: ">", ast.GtE: ">=", ast.Eq: "==", ast.NotEq: "!="}[type(op)]
        if isinstance(l, Obj) and name in ("==", "!="):
            if l.cls.find("methods", "__eq__", self.classes):
                v = self.call_method(l, "__eq__", [r], {})
                return v if name == "==" else self.lnot(v)
            return (l is r) if name == "==" else (l is not r)
        if isinstance(l, H5Dataset) or isinstance(r, H5Dataset):
            # h5py: Dataset == "s" is False (no elementwise meaning)  [trusted]
            return name == "!="
        if isinstance(l, Arr) or isinstance(r, Arr):
            fn = {"<": pyop.lt, "<=": pyop.le, ">": pyop.gt, ">=": pyop.ge, "==": pyop.eq, "!=": pyop.ne}[name]
            if not isinstance(l, Arr):
                l, r = r, l
                fn = {"<": pyop.gt, "<=": pyop.ge, ">": pyop.lt, ">=": pyop.le, "==": pyop.eq, "!=": pyop.ne}[name]
            return fn(l, r)
        if isinstance(l, Poly) or isinstance(r, Poly):
            if (isinstance(l, (str, type(None))) or isinstance(r, (str, type(None)))):
                return name == "!="
            if isinstance(l, float) and math.isinf(l) or isinstance(r, float) and math.isinf(r):
                # real-valued terms denote finite numbers (the floats inf / nan are the only non-finite values of the model);
                # a symbol declared 'maybe infinite' leaves the comparison undetermined
                other = r if isinstance(l, float) else l
                if isinstance(other, Poly) and any(n_ in T.EXTENDED for n_ in other.syms):
                    raise Unsupported("comparison of a possibly infinite quantity with inf")
                inf = l if isinstance(l, float) else r
                lt_inf = inf > 0            # other < +inf ; other > -inf
                if isinstance(l, float):    # inf OP other
                    return {"<": not lt_inf, "<=": not lt_inf, ">": lt_inf, ">=": lt_inf, "==": False, "!=": True}[name]
                return {"<": lt_inf, "<=": lt_inf, ">": not lt_inf, ">=": not lt_inf, "==": False, "!=": True}[name]
            return T.cmp_cond(name, P(l), P(r))
        if isinstance(l, tuple) and isinstance(r, tuple) and name in ("==", "!="):
            if len(l) != len(r):
                return name == "!="
            cs = [self.compare(ast.Eq(), a_, b_) for a_, b_ in zip(l, r)]
            if all(isinstance(c, bool) for c in cs):
                res = all(cs)
            else:
                res = T.c_and(*[C(c) for c in cs])
            return res if name == "==" else self.lnot(res)
        if isinstance(l, ClassInfo) or isinstance(r, ClassInfo):
            return (l is r) == (name == "==")
        fn = {"<": pyop.lt, "<=": pyop.le, ">": pyop.gt, ">=": pyop.ge, "==": pyop.eq, "!=": pyop.ne}[name]
        try:
            return fn(l, r)
        except TypeError as e:
            if not (_plain(l) and _plain(r)):
                raise Unsupported("comparison %s of %s and %s" % (name, type(l).__name__, type(r).__name__))
            raise PyRaise("TypeError", str(e))

    def lnot(self, v):
        if isinstance(v, Cond):
            return T.c_not(v)
        if isinstance(v, Poly):
            return T.c_not(C(v))
        if isinstance(v, Arr):
            return ~v
        return not self.truth(v)

    # ------------------------------------------------------------------ expressions
    def ev(self, n, env):
        m = getattr(self, "ev_" + type(n).__name__, None)
        if m is None:
            raise Unsupported("expression %s" % type(n).__name__)
        return m(n, env)

    def ev_Constant(self, n, env):
        return n.value

    def ev_Name(self, n, env):
        try:
            return env.lookup(n.id)
        except KeyError:
            import builtins as _b
            if hasattr(_b, n.id):
                # a Python builtin the interpreter has no model of: a limit of the checker, not a NameError of the code
                raise Unsupported("builtin %s" % n.id)
            raise PyRaise("NameError", "name '%s' is not defined" % n.id)

    def ev_Tuple(self, n, env):
        return tuple(self.ev_seq(n.elts, env))

    def ev_List(self, n, env):
        return list(self.ev_seq(n.elts, env))

    def ev_seq(self, elts, env):
        out = []
        for e in elts:
            if isinstance(e, ast.Starred):
                sv = self.ev(e.value, env)
                if isinstance(sv, SList):
                    if len(elts) != 1:
                        raise Unsupported("starred symbolic list among other arguments")
                    out.append(StarSList(sv))
                    continue
                out.extend(sv)
            else:
                out.append(self.ev(e, env))
        return out

    def ev_Set(self, n, env):
        return set(self.ev_seq(n.elts, env))

    def ev_Dict(self, n, env):
        d = {}
        for k, v in zip(n.keys, n.values):
            if k is None:
                d.update(self.ev(v, env))
            else:
                d[self.ev(k, env)] = self.ev(v, env)
        return d

    def ev_JoinedStr(self, n, env):
        parts = []
        for v in n.values:
            if isinstance(v, ast.Constant):
                parts.append(str(v.value))
            else:
                try:
                    x = self.ev(v.value, env)
                    parts.append(str(x) if isinstance(x, (str, int, float)) else "<v>")
                except (ModelError, PyRaise):
                    parts.append("<v>")
        return "".join(parts)

    def ev_FormattedValue(self, n, env):
        return "<v>"

    def ev_BinOp(self, n, env):
        l = self.ev(n.left, env)
        r = self.ev(n.right, env)
        return self.binop(type(n.op), l, r)

    def ev_UnaryOp(self, n, env):
        v = self.ev(n.operand, env)
        if isinstance(n.op, ast.Not):
            return self.lnot(v) if isinstance(v, (Cond, Poly)) else (not self.truth(v))
        if isinstance(n.op, ast.USub):
            return -v
        if isinstance(n.op, ast.UAdd):
            return v
        if isinstance(n.op, ast.Invert):
            return ~v
        raise Unsupported("unary op")

    def ev_BoolOp(self, n, env):
        isand = isinstance(n.op, ast.And)
        v = None
        for e in n.values:
            v = self.ev(e, env)
            t = self.truth(v)
            if isand and not t:
                return v if not isinstance(v, (Cond, Poly)) else False
            if not isand and t:
                return v if not isinstance(v, (Cond, Poly)) else True
        return v if not isinstance(v, (Cond, Poly)) else (isand)

    def ev_Compare(self, n, env):
        l = self.ev(n.left, env)
        res = None
        for op, c in zip(n.ops, n.comparators):
            r = self.ev(c, env)
            v = self.compare(op, l, r)
            if res is None:
                res = v
            else:
                res = (res and v) if isinstance(res, bool) and isinstance(v, bool) else T.c_and(C(res), C(v))
            l = r
        return res

    def ev_IfExp(self, n, env):
        t = self.ev(n.test, env)
        return self.ev(n.body, env) if self.truth(t) else self.ev(n.orelse, env)

    def ev_Attribute(self, n, env):
        v = self.ev(n.value, env)
        return self.getattr(v, n.attr)

    def ev_Subscript(self, n, env):
        v = self.ev(n.value, env)
        k = self.ev_index(n.slice, env)
        return self.index(v, k)

    def ev_index(self, s, env):
        if isinstance(s, ast.Tuple):
            return tuple(self.ev_index(e, env) for e in s.elts)
        if isinstance(s, ast.Slice):
            return slice(self.ev(s.lower, env) if s.lower else None,
                         self.ev(s.upper, env) if s.upper else None,
                         self.ev(s.step, env) if s.step else None)
        return self.ev(s, env)

    def ev_Slice(self, n, env):
        return self.ev_index(n, env)

    def ev_Lambda(self, n, env):
        fd = ast.FunctionDef(name="<lambda>", args=n.args, body=[ast.Return(value=n.body)],
                             decorator_list=[], lineno=n.lineno, col_offset=0)
        return FuncVal(fd, env.module.name, None, "<lambda>", closure=env)

    def ev_NamedExpr(self, n, env):
        v = self.ev(n.value, env)
        env.local[n.target.id] = v
        return v

    def ev_Call(self, n, env):
        # drop logging
        if isinstance(n.func, ast.Attribute) and isinstance(n.func.value, ast.Name) and n.func.value.id == "logger":
            return None
        if isinstance(n.func, ast.Attribute) and isinstance(n.func.value, ast.Call) \
                and isinstance(n.func.value.func, ast.Name) and n.func.value.func.id == "super":
            return None   # super().__init__(**kwargs) on BaseEstimator / object
        f = self.ev(n.func, env)
        args = self.ev_seq(n.args, env)
        kwargs = {}
        for k in n.keywords:
            if k.arg is None:
                kwargs.update(self.ev(k.value, env))
            else:
                kwargs[k.arg] = self.ev(k.value, env)
        # list.append on python lists is concrete
        saved = self.loc
        self.loc = "%s:%d" % (getattr(getattr(env, "func", None), "qualname", "?"), n.lineno)
        try:
            return self.call(f, args, kwargs)
        finally:
            self.loc = saved

    def comp_iter(self, gens, env, body):
        """evaluate a comprehension; returns python list or SList"""
        g = gens[0]
        it = self.ev(g.iter, env)
        if isinstance(it, (list, tuple, range, set, dict)) or (isinstance(it, LabelSet) and False):
            out = []
            for x in it:
                sub = Env(env.module, {}, env)
                self.assign(g.target, x, sub)
                if all(self.truth(self.ev(c, sub)) for c in g.ifs):
                    if len(gens) > 1:
                        inner = self.comp_iter(gens[1:], sub, body)
                        if not isinstance(inner, list):
                            raise Unsupported("nested comprehension whose inner sequence has a symbolic length")
                        out.extend(inner)
                    else:
                        out.append(body(sub))
            return out
        if len(gens) > 1:
            raise Unsupported("nested symbolic comprehension")
        it = self.as_symbolic_iter(it)
        n = it.length if not isinstance(it, SList) else it.slen()
        filt = None

        def elem(i, it=it):
            sub = Env(env.module, {}, env)
            if isinstance(i, Poly) and T.symname(i) is not None:
                self.assumed.add(T.cmp_cond("<=", ZERO, i))
                self.assumed.add(T.cmp_cond("<", i, n))
            self.assign(g.target, it.elem(i), sub)
            return body(sub)
        if g.ifs:
            def filt(i, it=it):
                sub = Env(env.module, {}, env)
                if isinstance(i, Poly) and T.symname(i) is not None:
                    self.assumed.add(T.cmp_cond("<=", ZERO, i))
                    self.assumed.add(T.cmp_cond("<", i, n))
                self.assign(g.target, it.elem(i), sub)
                cs = [self.ev(c, sub) for c in g.ifs]
                return T.c_and(*[C(c) if isinstance(c, (Cond, Poly)) else (T.TRUE if c else T.FALSE) for c in cs])
            return self.eager_slist(n, elem, filt)
        return self.eager_slist(n, elem, None)

    def eager_slist(self, n, elem, filt):
        """Python evaluates a comprehension when it is reached: evaluate the generic
        element NOW (names and objects as they are at this point) and instantiate it per index"""
        from .loops import subst_value
        i0 = T.fresh("c")
        name = T.symname(i0)
        val = elem(i0)
        f0 = filt(i0) if filt is not None else None

        def el(j):
            return subst_value(val, {name: P(j)})
        if filt is not None:
            return SList(n, el, filt=lambda j: T.subst(C(f0), {name: P(j)}), base_len=n)
        return SList(n, el)

    def as_symbolic_iter(self, it):
        if isinstance(it, (SList, SRange)):
            return it
        if isinstance(it, Arr):
            return SList(it.slen(), lambda i: it[i])
        if isinstance(it, LabelSet):
            return it.as_slist()
        if isinstance(it, A.IndexSet):
            k = T.fresh("c")
            m_ = it.maskfn(k)
            if isinstance(m_, Poly) and m_ == ONE:
                return SRange(0, it.full)         # every position selected
            mc = C(m_)
            if mc.const() is True:
                return SRange(0, it.full)
            if mc.const() is False:
                return SRange(0, ZERO)
            if T.symname(k) not in mc.syms and not mc.hasbv:
                # the same condition c for every position (all labels equal): all positions when c holds, none otherwise
                return SList(T.mk_ind(mc) * P(it.full), lambda i: P(i))
            # a proper selection: the loop visits position i iff mask(i) (loops.symbolic_for, guarded rules)
            r = SRange(0, it.full)
            mf = it.maskfn
            r.guard = lambda i: C(mf(i))
            return r
        if hasattr(it, "as_slist"):
            return it.as_slist()
        if isinstance(it, Obj) and it.cls.find("methods", "__iter__", self.classes) is None:
            raise PyRaise("TypeError", "'%s' object is not iterable" % it.cls.name)
        if isinstance(it, (Poly, int, float)) and not isinstance(it, bool):
            raise PyRaise("TypeError", "'%s' object is not iterable" % type(it).__name__)
        raise Unsupported("iteration over %s" % type(it).__name__)

    def ev_ListComp(self, n, env):
        return self.comp_iter(n.generators, env, lambda sub: self.ev(n.elt, sub))

    ev_GeneratorExp = ev_ListComp

    def ev_SetComp(self, n, env):
        r = self.comp_iter(n.generators, env, lambda sub: self.ev(n.elt, sub))
        if not isinstance(r, list):
            raise Unsupported("set comprehension over a symbolic sequence")
        try:
            return set(r)
        except TypeError:
            raise Unsupported("set of unhashable model values")

    def ev_DictComp(self, n, env):
        r = self.comp_iter(n.generators, env, lambda sub: (self.ev(n.key, sub), self.ev(n.value, sub)))
        if not isinstance(r, list):
            raise Unsupported("dict comprehension over a symbolic sequence")
        try:
            return dict(r)
        except TypeError:
            raise Unsupported("dict with unhashable model keys")

    def ev_Starred(self, n, env):
        raise Unsupported("starred expression")

    # ------------------------------------------------------------------ statements
    def exec_block(self, body, env):
        for s in body:
            self.exec(s, env)

    def exec(self, s, env):
        self.loc = "%s:%d" % (getattr(getattr(env, "func", None), "qualname", "?"), getattr(s, "lineno", 0))
        m = getattr(self, "ex_" + type(s).__name__, None)
        if m is None:
            raise Unsupported("statement %s" % type(s).__name__)
        return m(s, env)

    def ex_Expr(self, s, env):
        if isinstance(s.value, ast.Constant):
            return
        self.ev(s.value, env)

    def ex_Pass(self, s, env):
        pass

    def ex_Return(self, s, env):
        raise _Return(self.ev(s.value, env) if s.value is not None else None)

    def ex_Break(self, s, env):
        raise _Break()

    def ex_Continue(self, s, env):
        raise _Continue()

    def ex_Delete(self, s, env):
        for t in s.targets:
            if isinstance(t, ast.Name):
                env.local.pop(t.id, None)

    def ex_Import(self, s, env):
        self.do_import(env.module, s, env.local)

    def ex_ImportFrom(self, s, env):
        self.do_import(env.module, s, env.local)

    def ex_FunctionDef(self, s, env):
        fv = FuncVal(s, env.module.name, None, s.name, closure=env)
        # default values are evaluated ONCE, when the def statement runs, in the defining environment
        try:
            fv.default_values = [self.ev(d, env) for d in s.args.defaults]
            fv.kw_default_values = [self.ev(d, env) if d is not None else _MISSING for d in s.args.kw_defaults]
        except (Unsupported, KeyError):
            fv.default_values = None
        env.local[s.name] = fv

    def ex_Raise(self, s, env):
        if s.exc is None:
            raise PyRaise("Exception", "re-raise")
        e = s.exc
        name = "Exception"
        msg = ""
        if isinstance(e, ast.Call):
            name = ast.unparse(e.func)
            if e.args:
                try:
                    msg = str(self.ev(e.args[0], env))
                except Exception:
                    msg = ""
        else:
            name = ast.unparse(e)
        raise PyRaise(name.split(".")[-1], msg)

    def ex_Assert(self, s, env):
        if not self.truth(self.ev(s.test, env)):
            raise PyRaise("AssertionError", "")

    def ex_If(self, s, env):
        t = self.ev(s.test, env)
        if self.truth(t):
            self.exec_block(s.body, env)
        else:
            self.exec_block(s.orelse, env)

    def ex_Try(self, s, env):
        try:
            self.exec_block(s.body, env)
        except PyRaise as e:
            for h in s.handlers:
                names = []
                if h.type is None:
                    names = None
                elif isinstance(h.type, ast.Tuple):
                    names = [ast.unparse(x).split(".")[-1] for x in h.type.elts]
                else:
                    names = [ast.unparse(h.type).split(".")[-1]]
                if names is None or e.exc_type in names or "Exception" in names:
                    self.exec_block(h.body, env)
                    break
            else:
                raise
        else:
            self.exec_block(s.orelse, env)
        finally:
            if s.finalbody:
                self.exec_block(s.finalbody, env)

    def ex_With(self, s, env):
        # context managers without an effect on values: np.errstate / warnings.catch_warnings (floating-point flags and
        # warnings are not part of the model)
        for item in s.items:
            src = ast.unparse(item.context_expr)
            if not (src.startswith("np.errstate(") or src.startswith("numpy.errstate(") or src.startswith("warnings.catch_warnings(")
                    or src.startswith("contextlib.suppress()") or src.startswith("contextlib.nullcontext(")):
                raise Unsupported("with statement (%s)" % src[:40])
            if item.optional_vars is not None:
                self.assign(item.optional_vars, None, env)
        trap = any(ast.unparse(it.context_expr).startswith(("np.errstate(", "numpy.errstate(")) and
                   any(kw.arg in ("divide", "invalid", "all") and isinstance(kw.value, ast.Constant) and kw.value.value == "raise"
                       for kw in getattr(it.context_expr, "keywords", [])) for it in s.items)
        if not trap:
            self.exec_block(s.body, env)
            return
        # floating-point traps enabled: arrays are lazy in the model, so everything computed in the block is forced before the
        # block is left (a return inside the block included), with the trap flag set
        from . import verify as _V
        T.FP_RAISE[0] += 1
        try:
            try:
                self.exec_block(s.body, env)
            except _Return as r:
                _V.force_value(r.v)
                raise
            finally:
                for v in list(env.local.values()):
                    _V.force_value(v)
        finally:
            T.FP_RAISE[0] -= 1

    def ex_Assign(self, s, env):
        v = self.ev(s.value, env)
        for t in s.targets:
            self.assign(t, v, env)

    def ex_AnnAssign(self, s, env):
        if s.value is not None:
            self.assign(s.target, self.ev(s.value, env), env)

    def assign(self, t, v, env):
        if isinstance(t, ast.Name):
            env.local[t.id] = v
        elif isinstance(t, (ast.Tuple, ast.List)):
            if isinstance(v, SList):
                raise Unsupported("unpacking a symbolic list")
            if isinstance(v, Arr):
                n = v.shape[0].as_int()
                if n is None:
                    raise Unsupported("unpacking a symbolic array")
                v = [v[i] for i in range(n)]
            v = list(v)
            if len(v) != len(t.elts):
                raise PyRaise("ValueError", "not enough/too many values to unpack (expected %d, got %d)" % (len(t.elts), len(v)))
            for tt, vv in zip(t.elts, v):
                self.assign(tt, vv, env)
        elif isinstance(t, ast.Attribute):
            o = self.ev(t.value, env)
            self.setattr(o, t.attr, v)
        elif isinstance(t, ast.Subscript):
            self.store_subscript(t, v, env)
        else:
            raise Unsupported("assignment target %s" % type(t).__name__)

    def store_subscript(self, t, v, env, aug=None):
        base = self.ev(t.value, env)
        k = self.ev_index(t.slice, env)
        if isinstance(base, (list, dict)):
            if isinstance(k, Poly):
                ki = k.as_int()
                if ki is None:
                    if isinstance(base, list):
                        return self.store_list_symbolic(t.value, base, k, v, env)
                    raise Unsupported("symbolic key store")
                k = ki
            base[k] = v
            return
        if isinstance(base, H5Group):
            base.setitem(k, v)
            return
        if isinstance(base, Arr):
            self.range_side(k, base.shape)
            new = base.setitem(k, v)
            self.inplace_sites.append(self.loc)
            self.writes.append((self.loc, base.origin, "store"))
            base.assign_from(new)        # the array object itself changes: every alias sees it
            self.propagate_view_store(base)
            return
        if hasattr(base, "setitem"):
            base.setitem(k, v)
            return
        raise Unsupported("subscript store on %s" % type(base).__name__)

    def propagate_view_store(self, view):
        """`view` is a NumPy view (basic indexing) of another array and has just been written: the parent sees the write.
        Row views (x[i]) are written back; other views are outside the modelled subset."""
        parent = getattr(view, "viewof", None)
        if parent is None:
            return
        if getattr(view, "loop_row", False):
            return                       # handled by the loop rule (loops.symbolic_for) after the body
        rv = getattr(view, "rowview_of", None)
        if rv is None:
            raise Unsupported("store through a view that is not a row of its parent")
        par, idx = rv
        new = par.setitem((idx,), view.view())
        par.assign_from(new)
        self.propagate_view_store(par)

    def range_side(self, key, shape):
        if not isinstance(key, tuple):
            key = (key,)
        ax = 0
        for k in key:
            if k is None or k is Ellipsis:
                if k is Ellipsis:
                    return
                continue
            if isinstance(k, (int, Poly)) and not isinstance(k, bool) and ax < len(shape):
                kk = P(k) if not (isinstance(k, int) and k < 0) else shape[ax] + k
                T.side("range", (kk, shape[ax]), "index")
            ax += 1

    def side_ctx(self):
        return self.loc, [c for c in self.assumed]

    def store_list_symbolic(self, target, base, k, v, env):
        raise Unsupported("store at a symbolic position of a concrete list")

    def rebind(self, target, new, env):
        """an in-place array update is modelled by rebinding the expression that
        denotes the array (value semantics; aliasing is E2's business)"""
        if isinstance(target, ast.Name):
            e = env
            while e is not None:
                if target.id in e.local:
                    e.local[target.id] = new
                    return
                e = e.parent
            env.local[target.id] = new
        elif isinstance(target, ast.Attribute):
            o = self.ev(target.value, env)
            if isinstance(o, Obj):
                # bypass property setters: the real code mutates the stored array
                g = o.cls.find("getters", target.attr, self.classes)
                if g is not None and target.attr not in o.fields:
                    if ("_" + target.attr) in o.fields:
                        o.fields["_" + target.attr] = new
                        return
                    raise Unsupported("in-place update through property %s" % target.attr)
                o.fields[target.attr] = new
            else:
                raise Unsupported("in-place update of attribute on %s" % type(o).__name__)
        elif isinstance(target, ast.Subscript):
            base = self.ev(target.value, env)
            k = self.ev_index(target.slice, env)
            if isinstance(base, (list, dict)):
                if isinstance(k, Poly):
                    k = k.as_int()
                base[k] = new
            elif isinstance(base, Arr):
                self.rebind(target.value, base.setitem(k, new), env)
            else:
                raise Unsupported("nested in-place update")
        else:
            raise Unsupported("in-place update target")

    def ex_AugAssign(self, s, env):
        t = s.target
        if isinstance(t, ast.Name):
            cur = self.ev(t, env)
            v = self.ev(s.value, env)
            new = self.binop(type(s.op), cur, v, inplace=True)
            if isinstance(cur, Arr):
                self.inplace_sites.append(self.loc)
                self.writes.append((self.loc, cur.origin, "augassign"))
                if isinstance(new, Arr) and new.ndim == cur.ndim:
                    cur.assign_from(new)         # numpy updates the left operand in place (aliases included)
                    self.propagate_view_store(cur)
                    return
            if isinstance(cur, list) and isinstance(new, list):
                cur[:] = new
                return
            self.rebind(t, new, env)
        elif isinstance(t, ast.Attribute):
            o = self.ev(t.value, env)
            cur = self.getattr(o, t.attr)
            v = self.ev(s.value, env)
            new = self.binop(type(s.op), cur, v, inplace=True)
            if isinstance(cur, Arr):
                self.inplace_sites.append(self.loc)
                self.writes.append((self.loc, cur.origin, "augassign"))
                if isinstance(new, Arr) and new.ndim == cur.ndim:
                    cur.assign_from(new)
                    self.propagate_view_store(cur)
                    new = cur
            # python: o.attr = o.attr.__iop__(v)  -- the attribute is always re-assigned
            self.setattr(o, t.attr, new)
        elif isinstance(t, ast.Subscript):
            base = self.ev(t.value, env)
            k = self.ev_index(t.slice, env)
            cur = self.index(base, k)
            v = self.ev(s.value, env)
            new = self.binop(type(s.op), cur, v, inplace=True)
            if isinstance(base, Arr):
                self.inplace_sites.append(self.loc)
                self.writes.append((self.loc, base.origin, "augstore"))
                base.assign_from(base.setitem(k, new))
                self.propagate_view_store(base)
            elif isinstance(base, (list, dict)):
                if isinstance(k, Poly):
                    k = k.as_int()
                base[k] = new
            else:
                raise Unsupported("augmented subscript store on %s" % type(base).__name__)
        else:
            raise Unsupported("augmented assignment target")

    def ex_For(self, s, env):
        from .loops import exec_for
        exec_for(self, s, env)

    def ex_While(self, s, env):
        from .loops import exec_while
        exec_while(self, s, env)


def constant_element(xs):
    """the common concrete integer value of a symbolic sequence whose elements do not depend on the index, else None"""
    try:
        i = T.fresh("c")
        e = xs.elem(i) if isinstance(xs, SList) else xs.fn(i)
    except Exception:
        return None
    if isinstance(xs, Arr) and xs.ndim != 1:
        return None
    if isinstance(e, (int,)) and not isinstance(e, bool):
        return e
    if isinstance(e, Poly) and e.is_const() and e.as_int() is not None:
        return e.as_int()
    if isinstance(e, Poly) and T.symname(i) not in e.syms and not e.hasbv:
        return e                  # the same symbolic value at every position (all labels equal to one class id)
    return None


def unique_labels_model(y):
    """sklearn unique_labels: the sorted distinct labels (trusted)"""
    N.used("sklearn.unique_labels")
    if isinstance(y, (Arr, SList)):
        c = constant_element(y)
        if c is not None:
            return [c]
        raise Unsupported("unique_labels of symbolic labels")
    return sorted(set(int(v) if not isinstance(v, Poly) else v.as_int() for v in y))


def k_init_model(X, n_clusters, init="k-means||", random_state=None, max_iter=None, oversampling_factor=2, **kw):
    """dask_ml k_init (trusted, DESIGN §3): returns `init` itself for an array; for a string
    method and an integer random_state a function of its arguments only (no global RNG)"""
    N.used("dask_ml.k_init")
    N.EFFECTS.append(("k_init", {"init": init if isinstance(init, str) else "<array>", "random_state": random_state,
                                 "max_iter": max_iter, "oversampling_factor": oversampling_factor}))
    if isinstance(init, Arr):
        return init
    return Arr((P(n_clusters), X.shape[-1]), lambda k, d: T.app("@kinit", k, d), "real", "numpy", origin={"@kinit"})


def lookup(I, qualname):
    """FuncVal of a function / method of the repository by qualified name, e.g. gmm.GMMMachine.fit"""
    parts = qualname.split(".")
    mod = I.modules[parts[0]]
    v = mod.globals[parts[1]]
    for p in parts[2:]:
        ci = v
        r = ci.find("methods", p, I.classes) or ci.find("getters", p, I.classes) or ci.find("setters", p, I.classes)
        if r is None:
            raise KeyError(qualname)
        fd, owner = r
        v = FuncVal(fd, owner.module, owner)
    return v


class LabelSet:
    """set(y) for a symbolic label vector: K distinct labels enumerated in an
    unspecified order pi(0..K-1)  (uninterpreted, injective)"""
    count = 0

    def __init__(self, ys):
        LabelSet.count += 1
        self.ys = ys
        self.tag = "pi%d" % LabelSet.count
        self.K = T.sym("K_%s" % self.tag, "int")

    def slen(self):
        return self.K

    def as_slist(self):
        return SList(self.K, lambda k: T.app(self.tag, k, sort="int"))


class SortedLabels:
    """sorted(set(y)): the same K labels enumerated in ascending order -- in general a DIFFERENT
    enumeration than the set's own iteration order"""

    def __init__(self, ls):
        self.ls = ls
        self.K = ls.K

    def slen(self):
        return self.K

    def as_slist(self):
        return SList(self.K, lambda k: T.app("sorted:" + self.ls.tag, k, sort="int"))


class SymIndexed:
    def __init__(self, lst, k):
        self.lst, self.k = lst, k


# ---------------------------------------------------------------------- library models bound to the interpreter
class CopyModel:
    def __init__(self, interp):
        self.I = interp

    def deepcopy(self, x, memo=None):
        N.used("copy.deepcopy")
        return deep_copy(x, {})

    def copy(self, x):
        N.used("copy.copy")
        if isinstance(x, Obj):
            return Obj(x.cls, dict(x.fields))
        if isinstance(x, Arr):
            return x.copy()
        return x


def deep_copy(x, memo):
    if isinstance(x, Obj):
        if id(x) in memo:
            return memo[id(x)]
        o = Obj(x.cls)
        memo[id(x)] = o
        for k, v in x.fields.items():
            o.fields[k] = deep_copy(v, memo)
        for extra in ("cf", "constructed", "dirty", "lazy_fields"):      # bookkeeping of the verification fixtures travels with the copy
            if hasattr(x, extra):
                setattr(o, extra, getattr(x, extra))
        return o
    if isinstance(x, Arr):
        return x.copy()
    if isinstance(x, list):
        return [deep_copy(e, memo) for e in x]
    if isinstance(x, tuple):
        return tuple(deep_copy(e, memo) for e in x)
    if isinstance(x, dict):
        return {k: deep_copy(v, memo) for k, v in x.items()}
    if isinstance(x, SList):
        return SList(x.length, lambda i: deep_copy(x.elem(i), {}), x.filt, x.base_len)
    return x


class FunctoolsModel:
    def __init__(self, interp):
        self.I = interp

    def reduce(self, f, xs, *init):
        N.used("functools.reduce")
        I = self.I
        if isinstance(xs, SList):
            op = getattr(f, "opname", None)
            if op in ("iadd", "add"):
                n = xs.slen()
                I.side_len_positive(n)
                first = xs.elem(Poly.const(0))
                rest = SList(n - 1, lambda i: xs.elem(i + 1))
                if init:
                    return I.fold_slist(xs, init[0], ast.Add, inplace=(op == "iadd"))
                return I.fold_slist(rest, first, ast.Add, inplace=(op == "iadd"))
            raise Unsupported("functools.reduce with a non-additive function over a symbolic list")
        xs = list(xs)
        if init:
            acc = init[0]
        else:
            if not xs:
                raise PyRaise("TypeError", "reduce() of empty iterable with no initial value")
            acc, xs = xs[0], xs[1:]
        for x in xs:
            acc = I.call(f, [acc, x], {})
        return acc


class _Op:
    def __init__(self, I, name, astop, inplace):
        self.I, self.opname, self.astop, self.inplace = I, name, astop, inplace

    def __call__(self, a, b):
        return self.I.binop(self.astop, a, b, inplace=self.inplace)


class OperatorModel:
    def __init__(self, interp):
        self.add = _Op(interp, "add", ast.Add, False)
        self.iadd = _Op(interp, "iadd", ast.Add, True)
        self.mul = _Op(interp, "mul", ast.Mult, False)
        self.sub = _Op(interp, "sub", ast.Sub, False)


class LinalgModel:
    def __init__(self, interp):
        self.I = interp

    def inv(self, m):
        N.used("linalg.inv")
        m = N.lift(m)
        if not isinstance(m, Arr) or m.ndim < 2:
            raise PyRaise("ValueError", "expected square matrix")
        return N.minv(m)

    def pinv(self, m):
        N.used("scipy.linalg.pinv")
        # trusted: pinv = inv on full-rank input
        return N.minv(N.lift(m))

    def cholesky(self, m, lower=False):
        N.used("linalg.cholesky")
        m = N.lift(m)
        n = m.shape[-1]
        vi, vj = T.bounded_var(n, "mi"), T.bounded_var(n, "mj")
        body = P(m.fn(ZERO, ZERO)) if P(n).as_int() == 1 else P(m.fn(vi, vj))
        lam = T.close_raw("lam", vi, None, T.close_raw("lam", vj, None, body))
        tag = "chol_lower" if lower else "chol_upper"
        return Arr(m.shape, lambda i, j: T.app(tag, n, lam, i, j), "real", m.kind)


class CountIter:
    """itertools.count(start, step): start, start + step, ..."""

    def __init__(self, start=0, step=1):
        self.start, self.step = start, step


class ItertoolsModel:
    def count(self, start=0, step=1):
        return CountIter(start, step)


class StarSList:
    """f(*lst) with a symbolic list: understood by the callees that model it (dask.compute)"""

    def __init__(self, lst):
        self.lst = lst


class DaskModel:
    """dask.delayed / dask.compute per the trusted contract (DESIGN §3): a task
    receives value-equal arguments that are either the caller's objects
    (shared) or fresh copies (isolated); both readings are explored."""

    def __init__(self, interp):
        self.I = interp
        self.array = interp.da
        self.bag = Opaque("dask.bag")
        self.distributed = DistributedModel()

    def delayed(self, f, **kw):
        I = self.I

        def mk(*args, **kwargs):
            N.used("dask.delayed")
            return Delayed(f, args, kwargs)
        return mk

    def compute(self, *vals, **kw):
        N.used("dask.compute")
        if len(vals) == 1 and isinstance(vals[0], StarSList):
            # dask.compute(*tasks) with a symbolic number of tasks: the tuple of their values, in order
            sl = vals[0].lst
            I_ = self.I
            return SList(sl.slen(), lambda k: I_.dask_compute(sl.elem(k)))
        return tuple(self.I.dask_compute(v) for v in vals)

    def optimize(self, *vals):
        return vals

    def persist(self, *vals):
        return vals


class DistributedModel:
    class Client:
        @staticmethod
        def current():
            raise PyRaise("ValueError", "No clients found")


def _dask_compute(self, v):
    if isinstance(v, Delayed):
        if not v.done:
            f = v.func
            args = [self.dask_compute(a) for a in v.args]
            kwargs = {k: self.dask_compute(a) for k, a in v.kwargs.items()}
            if self.isolated:
                memo = {}
                args = [deep_copy(a, memo) for a in args]
                kwargs = {k: deep_copy(a, memo) for k, a in kwargs.items()}
                if isinstance(f, BoundMethod):
                    f = BoundMethod(deep_copy(f.obj, memo), f.func)
            self.dask_events.append(getattr(f, "qualname", None) or getattr(getattr(f, "func", None), "qualname", repr(f)))
            r = self.call(f, args, kwargs)
            if self.isolated:
                r = deep_copy(r, {})
            v.value, v.done = r, True
        return v.value
    if isinstance(v, list):
        return [self.dask_compute(x) for x in v]
    if isinstance(v, tuple):
        return tuple(self.dask_compute(x) for x in v)
    if isinstance(v, SList):
        # the tasks of a symbolic list run *now* (before anything that depends on them):
        # compute the generic element once and instantiate it per index
        from .loops import subst_value
        b = T.fresh("b")
        bname = T.symname(b)
        self.assumed.add(T.cmp_cond("<=", ZERO, b))
        self.assumed.add(T.cmp_cond("<", b, v.length))
        val = self.dask_compute(v.elem(b))
        return SList(v.length, lambda i: subst_value(val, {bname: P(i)}), v.filt, v.base_len)
    if isinstance(v, Arr):
        return v
    return v


Interp.dask_compute = _dask_compute


def _side_len_positive(self, n):
    T.side("pos", n, "reduce of an empty sequence")


Interp.side_len_positive = _side_len_positive


class ToDelayed:
    """data.to_delayed() -- the grid of blocks of a dask array"""

    def __init__(self, interp, arr):
        self.I, self.arr = interp, arr

    def ravel(self):
        return self

    flatten = ravel            # same row-major order (a copy of the object array of Delayed blocks)

    def reshape(self, *shape):
        if len(shape) == 1 and (shape[0] == -1 or shape[0] == (-1,)):
            return self
        raise Unsupported("reshape of the block grid")

    def as_slist(self):        # list(grid.ravel()) / iteration over the flattened grid
        return self.tolist()

    def tolist(self):
        N.used("dask.Array.to_delayed().ravel().tolist()")
        a = self.arr
        if a.chunks is None:
            raise Unsupported("dask array without a chunk description")
        return a.chunks.blocks(a)


# ---------------------------------------------------------------------- h5py map model (DESIGN §3)
class H5Dataset:
    def __init__(self, v):
        self.v = v

    def getitem(self, k):
        # [()] and [...] read the stored value; str comes back as bytes
        if isinstance(self.v, str):
            return self.v.encode()
        return self.v


class H5Group:
    def __init__(self, mode="w"):
        self.items = {}
        self.attrs = {}
        self.mode = mode

    def setitem(self, k, v):
        N.used("h5py.__setitem__")
        if v is None:
            raise PyRaise("TypeError", "Object dtype dtype('O') has no native HDF5 equivalent")
        if isinstance(v, Obj):
            raise PyRaise("TypeError", "Object dtype dtype('O') has no native HDF5 equivalent")
        if k in self.items:
            raise PyRaise("ValueError", "Unable to create dataset (name already exists)")
        self.items[k] = v

    def getitem(self, k):
        N.used("h5py.__getitem__")
        if k not in self.items:
            raise PyRaise("KeyError", "Unable to open object (object '%s' doesn't exist)" % k)
        v = self.items[k]
        return v if isinstance(v, H5Group) else H5Dataset(v)

    def create_group(self, k):
        g = H5Group(self.mode)
        self.items[k] = g
        return g


class H5FileOpen:
    def __init__(self, interp):
        self.I = interp
        self.files = {}

    def __call__(self, path, mode="r"):
        if mode == "w":
            self.files[path] = H5Group("w")
        if path not in self.files:
            raise PyRaise("FileNotFoundError", path)
        return self.files[path]
