"""Comparing what the real function computes (symbolically) with its contract,
discharging side conditions, classifying failures."""
import math
import random
import re
import time

from . import terms as T
from .terms import Poly, Cond, P, C, ZERO, ONE
from . import arr as A
from .arr import Arr, ModelError, ShapeError
from .values import Obj, SList, PyRaise, Delayed
from . import smt
from .smt import Facts


class Clause:
    def __init__(self, name, status, backend="", detail="", witness=None, secs=0.0):
        self.name, self.status, self.backend = name, status, backend
        self.detail, self.witness, self.secs = detail, witness, secs

    def as_dict(self):
        d = {"obligation": self.name, "status": self.status, "backend": self.backend, "s": round(self.secs, 4)}
        if self.detail:
            d["detail"] = self.detail[:1500]
        if self.witness:
            d["witness"] = self.witness
        return d

    def __repr__(self):
        return "%-40s %-10s %-10s %s" % (self.name, self.status, self.backend, self.detail[:200])


# ---------------------------------------------------------------- numeric evaluation at random points
class RandEnv(T.EvalEnv):
    def __init__(self, seed, F, dims=None, grid=False):
        T.EvalEnv.__init__(self)
        self.grid = grid          # values from a small integer grid: exact ties and coincidences become frequent
        self.rng = random.Random(seed)
        self.F = F
        self.memo = {}
        self.dimv = dims or {}
        self.default = self._default
        self._in_bound = False
        self._bcache = {}

    def bound_value(self, name, which, f, args):
        """numeric value of a stated bound of array `name` at index `args`; a bound that does not depend on the index
        (a scalar floor) is evaluated once per sample point"""
        ck = (name, which)
        c = self._bcache.get(ck)
        if c is None:
            probe = [T.fresh("q") for _ in args]
            pn = {T.symname(q) for q in probe}
            b = P(f(*probe))
            c = ("const", T.evalf(b, self)) if not (b.syms & pn) else ("fn", None)
            self._bcache[ck] = c
        if c[0] == "const":
            return c[1]
        return T.evalf(P(f(*[Poly.const(a) for a in args])), self)

    def _default(self, kind, name, args):
        key = (kind, name, args)
        if key in self.memo:
            return self.memo[key]
        F = self.F
        if kind == "sym":
            if name in self.dimv:
                v = self.dimv[name]
            elif name in getattr(F, "dim_values", {}):
                v = self.rng.choice(F.dim_values[name])
            elif name in F.dims:
                v = self.rng.choice([2, 3])
            elif name.startswith("B_"):
                raise KeyError("partition symbol")
            elif self.grid and name not in F.dims:
                v = float(self.rng.choice([1, 2] if name in F.pos_syms else ([0, 1, 2] if name in F.nonneg_syms else [-1, 0, 1, 2])))
            elif name in F.pos_syms:
                v = self.rng.uniform(0.3, 2.0)
            elif name in F.nonneg_syms:
                v = 0.0 if self.rng.random() < 0.25 else self.rng.uniform(0.0, 2.0)      # the boundary value is a case of its own
            else:
                v = self.rng.uniform(-2.0, 2.0)
        else:
            isint, kind = kind == "app:int", "app"
            key = (kind, name, args)
            if key in self.memo:
                return self.memo[key]
            if name.startswith("csz:") or name.startswith("coff:"):
                raise KeyError("partition function")
            if name in getattr(F, "samplers", {}):
                v = self.memo[key] = F.samplers[name](args, self)
                return v
            lo_f, up_f = getattr(F, "lower", {}).get(name), getattr(F, "upper", {}).get(name)
            if (lo_f is not None or up_f is not None) and not isint and not self._in_bound:
                # an array with a stated bound (variances >= floors, ratios <= 1): sample AT the bound sometimes, else beyond it
                self._in_bound = True
                try:
                    lo = self.bound_value(name, "lo", lo_f, args) if lo_f is not None else None
                    up = self.bound_value(name, "up", up_f, args) if up_f is not None else None
                except (TypeError, KeyError, ZeroDivisionError, ValueError, OverflowError):
                    lo = up = None
                finally:
                    self._in_bound = False
                if lo is not None or up is not None:
                    strict = name in F.pos_apps
                    if lo is not None and up is not None and up >= lo:
                        v = lo if (self.rng.random() < 0.25 and not (strict and lo <= 0)) else self.rng.uniform(lo, up)
                    elif lo is not None:
                        step = float(self.rng.choice([1, 2])) if self.grid else self.rng.uniform(0.0, 2.0)
                        v = lo if (self.rng.random() < 0.25 and not (strict and lo <= 0)) else lo + step
                    else:
                        step = float(self.rng.choice([1, 2])) if self.grid else self.rng.uniform(0.0, 2.0)
                        v = up if self.rng.random() < 0.25 else up - step
                    if strict and v <= 0:
                        v = self.rng.uniform(0.3, 2.0)
                    self.memo[key] = v
                    return v
            if self.grid and not isint and name not in getattr(F, "int_apps", {}):
                v = float(self.rng.choice([1, 2] if name in F.pos_apps else ([0, 1, 2] if name in F.nonneg_apps else [-1, 0, 1, 2])))
            elif name in F.pos_apps:
                v = self.rng.randint(1, 3) if isint else self.rng.uniform(0.3, 2.0)
            elif name in F.nonneg_apps:
                v = self.rng.randrange(3) if isint else (0.0 if self.rng.random() < 0.25 else self.rng.uniform(0.0, 2.0))
            elif name in getattr(F, "int_apps", {}):
                v = self.rng.randrange(F.int_apps[name])
            elif isint:
                v = self.rng.randrange(2)      # integer-valued data (labels, assignments): small values so indicators fire
            else:
                v = self.rng.uniform(-2.0, 2.0)
        self.memo[key] = v
        return v


def _cond_holds(c, env):
    k = c.kind
    if k == "cmp" and c.args[0] in ("==0", "!=0"):
        d = c.args[1]
        v = T.evalf(d, env)
        scale = 1.0
        for m, co in d.terms:
            try:
                scale = max(scale, abs(T.evalf(Poly({m: co}), env)))
            except Exception:
                pass
        z = abs(v) <= 1e-9 * scale
        return z if c.args[0] == "==0" else not z
    if k == "and":
        return all(_cond_holds(a, env) for a in c.args)
    if k == "or":
        return any(_cond_holds(a, env) for a in c.args)
    if k == "not":
        return not _cond_holds(c.args[0], env)
    return bool(T.evalf(c, env))


def presolve_equalities(F, env):
    """an equality hypothesis that is linear in a bare symbol not occurring elsewhere in it (Σ_c n_c == t) is met by
    construction: the symbol is DEFINED by the rest (random sampling would never hit it)"""
    for c in getattr(F, "conds", ()):
        c = C(c)
        if c.kind != "cmp" or c.args[0] != "==0":
            continue
        d = c.args[1]
        for m, co in d.terms:
            if len(m) == 1 and m[0][1] == 1 and m[0][0].kind == "sym":
                a = m[0][0]
                name = a.args[0]
                rest = d - Poly({m: co})
                if name in rest.syms or name in env.syms or any(k[0] == "sym" and k[1] == name for k in env.memo) or "#" in name:
                    continue
                try:
                    env.syms[name] = -T.evalf(rest, env) / float(co)
                except Exception:
                    pass
                break


CURRENT_INTERP = [None]


def _field_role(obj, k):
    """'cached': the name of a functools.cached_property of the object's class (an entry of __dict__ that is a cache);
    'dead': a private field that no code of the class assigns any more (the representation changed: what it held is now
    obtained some other way, and the obligations on the public accessors are what constrains that); None otherwise"""
    I = CURRENT_INTERP[0]
    if I is None or getattr(obj, "cls", None) is None:
        return None
    try:
        if obj.cls.find("cached", k, I.classes) is not None:
            return "cached"
        if k.startswith("_") and not k.startswith("__") and not I.class_assigns(obj.cls, k) and obj.cls.node is not None:
            return "dead"
    except Exception:
        return None
    return None


def hypotheses_hold(F, env, conds_checked=False):
    """does the sampled point satisfy the hypotheses (ground conditions incl. the path condition, bounds on the array
    elements sampled so far)?  None: not evaluable (then the point is not used as a witness)"""
    try:
        for c in (() if conds_checked else getattr(F, "conds", ())):
            if not _cond_holds(C(c), env):
                return False
        for (kind, name, args), v in list(env.memo.items()):
            if kind != "app":
                continue
            for table, ge in ((getattr(F, "lower", {}), True), (getattr(F, "upper", {}), False)):
                f = table.get(name)
                if f is None:
                    continue
                try:
                    b = env.bound_value(name, "lo" if ge else "up", f, args) if hasattr(env, "bound_value") else T.evalf(P(f(*[Poly.const(a) for a in args])), env)
                except TypeError:
                    continue
                if (ge and v < b - 1e-12) or (not ge and v > b + 1e-12):
                    return False
    except (ZeroDivisionError, OverflowError, ValueError, KeyError, TypeError):
        return None
    return True


def numeric_differs(a, b, F, trials=8, seed=0):
    """evaluate both terms at random points THAT SATISFY THE HYPOTHESES. returns ('differs', witness) |
    ('same', None) | ('noeval', reason)"""
    a, b = P(a), P(b)
    free = sorted((a.syms | b.syms))
    same, why = 0, None
    accepted, t = 0, -1
    t_start = time.time()
    while accepted < trials + 6 and t < 6 * (trials + 6) and (time.time() - t_start < 25.0 or t < 3):
        t += 1
        # the last six accepted trials draw every real quantity from a small integer grid (ties between distances, equal counts, ...)
        env = RandEnv(seed * 1000 + t, F, grid=(accepted >= trials))
        # free index symbols take small in-range values
        for n in free:
            if "#" in n and n not in env.memo:
                env.syms[n] = t % 2
        presolve_equalities(F, env)
        # the ground hypotheses first (cheap): a point that violates the path condition is not worth evaluating the terms at
        checked = False
        try:
            if any(not _cond_holds(C(c), env) for c in getattr(F, "conds", ())):
                why = "no sampled point satisfied the hypotheses"
                continue
            checked = True
        except (ZeroDivisionError, OverflowError, ValueError, KeyError, TypeError):
            pass
        try:
            va, vb = T.evalf(a, env), T.evalf(b, env)
        except (ZeroDivisionError, OverflowError, ValueError) as e:
            why = "%s: %s" % (type(e).__name__, e)       # an undefined point (e.g. a sampled zero count under a division): next sample
            continue
        except (KeyError, TypeError) as e:
            return "noeval", "%s: %s" % (type(e).__name__, e)
        hold = hypotheses_hold(F, env, conds_checked=checked)
        if hold is not True:
            why = "no sampled point satisfied the hypotheses" if hold is False else "hypotheses not evaluable at the sampled points"
            continue
        accepted += 1
        if math.isnan(va) or math.isnan(vb):
            continue
        if abs(va - vb) > 1e-7 * (1 + abs(va) + abs(vb)):
            w = {"code_value": va, "spec_value": vb,
                 "point": {k[1] + (str(list(k[2])) if k[2] else ""): v for k, v in list(env.memo.items())[:40]}}
            return "differs", w
        same += 1
    return ("same", None) if same else ("noeval", why or "all trials NaN")


# ---------------------------------------------------------------- deep comparison
def compare(got, exp, F, name, out, hyps=()):
    """append Clauses comparing an interpreter value with the spec value"""
    t0 = time.time()
    if isinstance(exp, Arr) or isinstance(got, Arr):
        if not (isinstance(exp, Arr) and isinstance(got, Arr)):
            if isinstance(got, Arr) and got.ndim == 0:
                got = got.fn()
            elif isinstance(exp, Arr) and exp.ndim == 0:
                exp = exp.fn()
            else:
                out.append(Clause(name, "refuted", "normaliser", "array vs scalar: code %s, spec %s" % (_kind(got), _kind(exp))))
                return
    if isinstance(exp, Arr):
        if got.ndim != exp.ndim or not all(A.dim_eq(x, y) for x, y in zip(got.shape, exp.shape)):
            out.append(Clause(name + ".shape", "refuted", "normaliser",
                              "shape: code %r, spec %r" % (tuple(got.shape), tuple(exp.shape))))
            return
        if (got.mask is None) != (exp.mask is None):
            out.append(Clause(name, "undecided", "", "selection on one side only"))
            return
        idx = [T.generic_index(d, "q") for d in exp.shape]
        if exp.dtype == "bool" or got.dtype == "bool":
            g, e = C(got.fn(*idx)), C(exp.fn(*idx))
            ok = g == e
            out.append(Clause(name, "discharged" if ok else "undecided", "normaliser", "" if ok else "boolean arrays differ syntactically"))
            return
        compare_terms(P(got.fn(*idx)), P(exp.fn(*idx)), F, name, out, hyps, t0)
        return
    if isinstance(exp, (Poly, int, float)) and not isinstance(exp, bool) and isinstance(got, (Poly, int, float)) and not isinstance(got, bool):
        if isinstance(exp, float) and isinstance(got, float) and (math.isinf(exp) or math.isinf(got)):
            out.append(Clause(name, "discharged" if exp == got else "refuted", "normaliser", "%r vs %r" % (got, exp)))
            return
        compare_terms(P(got), P(exp), F, name, out, hyps, t0)
        return
    if isinstance(exp, Cond) or isinstance(got, Cond):
        ok = isinstance(exp, Cond) and isinstance(got, Cond) and exp == got
        out.append(Clause(name, "discharged" if ok else "undecided", "normaliser", "" if ok else "%r vs %r" % (got, exp)))
        return
    if isinstance(exp, Obj):
        if not isinstance(got, Obj) or got.cls.name != exp.cls.name:
            out.append(Clause(name, "refuted", "normaliser", "object class: code %s, spec %s" % (_kind(got), exp.cls.name)))
            return
        keys = sorted(set(exp.fields) | set(got.fields))
        for k in keys:
            if k.startswith("__ghost"):
                continue
            if k in getattr(got, "cf", {}) or k in getattr(exp, "cf", {}):
                continue        # a cache field settled by Interp.complete_fixture: judged by contract.cache_coherence, not by equality
            role = _field_role(got, k)
            if role == "cached":
                continue        # a functools.cached_property entry: judged by contract.cache_coherence
            if role == "dead" and k in exp.fields:
                out.append(Clause("%s.%s" % (name, k), "discharged", "normaliser",
                                  "field %s is not maintained by the current source any more (representation changed): not compared" % k))
                continue
            if k not in got.fields or k not in exp.fields:
                if k in got.fields and k in getattr(got, "cf", {}):
                    continue        # a cache field completed by Interp.complete_fixture: judged by contract.cache_coherence
                if k in got.fields and k.startswith("_"):
                    # a private field the contract does not know (a cache added by the code): an empty one carries no
                    # information; one that holds a value is neither right nor wrong by this contract -- undecided, and the
                    # native replay of the property (behaviour after histories of operations) decides
                    v = got.fields[k]
                    if v is None or (isinstance(v, (dict, list, tuple, set)) and not v):
                        continue
                    out.append(Clause("%s.%s" % (name, k), "undecided", "normaliser",
                                      "private field %s exists only on the code side and holds a value: not covered by the contract" % k))
                    continue
                out.append(Clause("%s.%s" % (name, k), "refuted", "normaliser",
                                  "field %s only on the %s side" % (k, "spec" if k in exp.fields else "code")))
                continue
            if got.fields[k] is None and exp.fields[k] is not None and k in getattr(exp, "lazy_fields", ()):
                # a cache the contract allows to be empty (its getter fills it lazily from the current state)
                out.append(Clause("%s.%s" % (name, k), "discharged", "normaliser", "cache left empty: filled lazily by its getter"))
                continue
            compare(got.fields[k], exp.fields[k], F, "%s.%s" % (name, k), out, hyps)
        return
    if isinstance(exp, (list, tuple)):
        if not isinstance(got, (list, tuple)) or len(got) != len(exp):
            out.append(Clause(name, "refuted", "normaliser", "sequence length/type: code %s, spec %s" % (_kind(got), _kind(exp))))
            return
        for i, (g, e) in enumerate(zip(got, exp)):
            compare(g, e, F, "%s[%d]" % (name, i), out, hyps)
        return
    if isinstance(exp, SList):
        if not isinstance(got, SList):
            out.append(Clause(name, "refuted", "normaliser", "expected a list, code gives %s" % _kind(got)))
            return
        compare_terms(got.slen(), exp.slen(), F, name + ".len", out, hyps, t0)
        i = T.fresh("q")
        compare(got.elem(i), exp.elem(i), F, name + "[i]", out, hyps)
        return
    if hasattr(exp, "items") and hasattr(exp, "attrs") and not isinstance(exp, dict):      # h5 group model
        if not (hasattr(got, "items") and hasattr(got, "attrs")):
            out.append(Clause(name, "refuted", "normaliser", "expected a group"))
            return
        compare(got.items, exp.items, F, name, out, hyps)
        compare(got.attrs, exp.attrs, F, name + ".attrs", out, hyps)
        return
    if isinstance(exp, dict):
        if not isinstance(got, dict) or set(got) != set(exp):
            out.append(Clause(name, "refuted", "normaliser", "dict keys differ"))
            return
        for k in exp:
            compare(got[k], exp[k], F, "%s[%r]" % (name, k), out, hyps)
        return
    if hasattr(exp, "qualname") or hasattr(got, "qualname"):
        ok = getattr(exp, "qualname", None) == getattr(got, "qualname", 0)
        out.append(Clause(name, "discharged" if ok else "refuted", "normaliser", "" if ok else "functions differ: %r vs %r" % (got, exp)))
        return
    # concrete python values
    ok = type(got) is type(exp) and got == exp if not isinstance(exp, bool) else (got is exp or got == exp and isinstance(got, bool))
    if exp is None:
        ok = got is None
    out.append(Clause(name, "discharged" if ok else "refuted", "normaliser",
                      "" if ok else "code gives %r, contract requires %r" % (got, exp)))


def _kind(v):
    if isinstance(v, Arr):
        return "array%r" % (tuple(v.shape),)
    if isinstance(v, Obj):
        return v.cls.name
    if isinstance(v, Poly):
        return "scalar"
    return type(v).__name__ + ("(len %d)" % len(v) if isinstance(v, (list, tuple)) else "")


INJECTIVE = ("minv", "chol_lower", "chol_upper")


def _single_atom(p):
    if isinstance(p, Poly) and len(p.terms) == 1:
        m, c = p.terms[0]
        if len(m) == 1 and m[0][1] == 1:
            return m[0][0], c
    return None, None


def descend_injective(g, e):
    """strip matching injective matrix functions / lambdas from both sides"""
    for _ in range(12):
        a, ca = _single_atom(P(g))
        b, cb = _single_atom(P(e))
        if a is None or b is None or ca != cb or a.kind != b.kind:
            break
        if a.kind == "app" and a.args[0] == b.args[0] and a.args[0] in INJECTIVE and len(a.args) == len(b.args):
            diff = [k for k in range(1, len(a.args)) if a.args[k] is not b.args[k] and not T.equal(a.args[k], b.args[k])]
            if diff != [2]:
                break
            g, e = a.args[2], b.args[2]
        elif a.kind == "lam":
            v = T.fresh("q")
            g, e = T.instantiate(a, v), T.instantiate(b, v)
        else:
            break
    return g, e


def compare_terms(g, e, F, name, out, hyps=(), t0=None):
    t0 = t0 or time.time()
    if F.conds and not T.equal(g, e):
        mp = smt.equality_substitutions(F)
        if mp and ((g.syms | e.syms) & set(mp)):
            g, e = T.subst(g, mp), T.subst(e, mp)
    if T.equal(g, e):
        smt.STATS["normaliser"] += 1
        out.append(Clause(name, "discharged", "normaliser", secs=time.time() - t0))
        return
    g2, e2 = smt.simplify_facts(g, F), smt.simplify_facts(e, F)
    if (g2 is not g or e2 is not e) and T.equal(g2, e2):
        smt.STATS["normaliser"] += 1
        out.append(Clause(name, "discharged", "normaliser+facts", secs=time.time() - t0))
        return
    try:
        g3, e3 = T.reduce_rcp(g2), T.reduce_rcp(e2)
        if T.equal(g3, e3):
            smt.STATS["normaliser"] += 1
            out.append(Clause(name, "discharged", "normaliser+rcp", secs=time.time() - t0))
            return
    except (RecursionError, TypeError):
        pass
    st, info = smt.prove(T.cmp_cond("==", g, e), F, hyps)
    if st == "proved":
        out.append(Clause(name, "discharged", info["backend"], secs=time.time() - t0))
        return
    nd, w = numeric_differs(g, e, F)
    d = T.clear_rcp(g - e)
    resid = "residual code-spec = %s" % T.show(d, 600)
    if nd != "differs":
        # refutation through an injective matrix function (inverse, Cholesky factor): f(A)[i,j] vs f(B)[i,j] for all i,j
        # differ somewhere iff A and B differ somewhere -- compare the arguments numerically
        g3, e3 = descend_injective(g, e)
        if g3 is not g:
            nd3, w3 = numeric_differs(g3, e3, F)
            if nd3 == "differs":
                nd, w = nd3, w3
                resid += " [arguments of the enclosing inverse/Cholesky factor differ: %s]" % T.show(T.clear_rcp(g3 - e3), 300)
    if nd == "differs":
        out.append(Clause(name, "refuted", info.get("backend", "z3") + "+eval", resid, witness=w, secs=time.time() - t0))
    else:
        out.append(Clause(name, "undecided", info.get("backend", "z3"), resid + " (%s)" % (w if nd == "noeval" else "numerically equal at sampled points"),
                          secs=time.time() - t0))


# ---------------------------------------------------------------- side conditions
_fresh_re = re.compile(r"#\d+")


def force_value(value, depth=0, seen=None):
    """evaluate the generic element of every array reachable from `value` (arrays are lazy: their element functions --
    and the definedness side conditions of the divisions / logs / indexings inside them -- only run when forced)"""
    seen = seen if seen is not None else set()
    if id(value) in seen or depth > 6:
        return
    seen.add(id(value))
    try:
        if isinstance(value, Arr):
            value.fn(*[T.fresh("q") for _ in value.shape])
        elif isinstance(value, Obj):
            for v in list(value.fields.values()):
                force_value(v, depth + 1, seen)
        elif isinstance(value, (list, tuple)):
            for v in value:
                force_value(v, depth + 1, seen)
        elif isinstance(value, dict):
            for v in value.values():
                force_value(v, depth + 1, seen)
        elif hasattr(value, "elem") and hasattr(value, "slen") and getattr(value, "filt", None) is None:
            force_value(value.elem(T.fresh("q")), depth + 1, seen)
    except (ModelError, ShapeError, PyRaise):
        pass          # reported where the value is compared


def structural_defs(value, acc=None, guards=(), depth=0):
    """definedness conditions readable off a final term, path-sensitively:
    def(ite(c,a,b)) = c ? def(a) : def(b)   (DESIGN §2.4).
    returns list of (kind, poly, guards)"""
    acc = [] if acc is None else acc
    if isinstance(value, Arr):
        idx = [T.fresh("q") for _ in value.shape]
        e = value.fn(*idx)
        if isinstance(e, (Poly, Cond)):
            structural_defs(e, acc, guards, depth)
        return acc
    if isinstance(value, Obj):
        for v in value.fields.values():
            if isinstance(v, (Arr, Poly)):
                structural_defs(v, acc, guards, depth)
        return acc
    if isinstance(value, (list, tuple)):
        for v in value:
            structural_defs(v, acc, guards, depth)
        return acc
    if isinstance(value, Cond):
        for a in value.args:
            if isinstance(a, (Poly, Cond)):
                structural_defs(a, acc, guards, depth)
        return acc
    if not isinstance(value, Poly) or depth > 12:
        return acc
    for m, _c in value.terms:
        g0 = guards
        # an indicator factor guards the rest of its monomial: [c] * X is only evaluated where c holds
        inds = tuple(a.args[0] for a, p in m if a.kind == "ind")
        for a, p in m:
            guards = g0 + tuple(c for c in inds if not (a.kind == "ind" and a.args[0] is c))
            k = a.kind
            if p < 0:
                acc.append(("nonzero", a.args[0] if k == "rcp" else Poly.atom(a), guards))
            if k == "rcp":
                if p > 0:
                    acc.append(("nonzero", a.args[0], guards))
                structural_defs(a.args[0], acc, guards, depth + 1)
            elif k == "log":
                acc.append(("nonzero", a.args[0], guards))
                structural_defs(a.args[0], acc, guards, depth + 1)
            elif k == "ite":
                c = a.args[0]
                structural_defs(c, acc, guards, depth + 1)
                structural_defs(a.args[1], acc, guards + (c,), depth + 1)
                structural_defs(a.args[2], acc, guards + (T.c_not(c),), depth + 1)
            elif k in T.BINDERS:
                v, bound, body = T.open_binder(a)
                if bound is not None:
                    g2 = guards + (T.cmp_cond("<=", ZERO, v), T.cmp_cond("<", v, bound))
                else:
                    g2 = guards
                structural_defs(body, acc, g2, depth + 1)
            else:
                for x in a.args:
                    if isinstance(x, (Poly, Cond)):
                        structural_defs(x, acc, guards, depth + 1)
    return acc


def _norm_key(p):
    return _fresh_re.sub("#", repr(p))


def confirm_side(kind, what, F, hyps, seed=0):
    """a solver model of a definedness condition lives in the ABSTRACTION (Σ, inverse, log atoms are free variables there):
    it is a refutation only if a concrete point that satisfies the hypotheses makes the operand 0 (or <= 0 for 'pos').
    returns a witness dict or None"""
    if kind not in ("pos", "nonzero"):
        # an index-range condition over a GENERIC loop / element index (a symbol named x#n): such an index is in range by
        # construction wherever its loop ran; a solver model that puts it out of range only shows that the range hypothesis was
        # not among those recorded with the condition -- not a refutation
        e_ = what[0] if isinstance(what, tuple) else what
        try:
            if any("#" in n for n in P(e_).syms):
                return None
        except Exception:
            pass
        return {"note": "integer-linear condition"}
    p = P(what)
    free = sorted(p.syms)
    for t in range(40):
        env = RandEnv(seed * 977 + t, F, grid=(t % 2 == 1))
        for n in free:
            if "#" in n and n not in env.memo:
                env.syms[n] = t % 2
        try:
            if not all(T.evalf(C(h), env) for h in hyps):
                continue
            v = T.evalf(p, env)
        except (ZeroDivisionError, OverflowError, ValueError, KeyError, TypeError):
            continue
        if v != v:
            continue
        if (kind == "nonzero" and v == 0) or (kind == "pos" and v <= 0):
            return {"operand_value": v, "point": {k[1] + (str(list(k[2])) if k[2] else ""): val for k, val in list(env.memo.items())[:30]}}
    return None


def check_sides(sidelog, F, prefix, out, extra_hyps=(), final_values=None):
    """discharge definedness side conditions emitted while the body ran.  A
    division/log recorded at operation time whose operand is still visible in
    the final values is checked there, under the guards of the np.where
    branches that select it; one that has been cancelled away is checked
    unconditionally."""
    seen = set()
    n = 0
    guarded = {}
    if final_values is not None:
        for kind, poly, guards in structural_defs(final_values):
            guarded.setdefault((kind, _norm_key(poly)), []).append((poly, guards))
        for (kind, key), lst in guarded.items():
            for poly, guards in lst:
                k2 = (kind, key, tuple(sorted(_norm_key(g) for g in guards)))
                if k2 in seen:
                    continue
                seen.add(k2)
                t0 = time.time()
                st, info = smt.prove_side(kind, poly, F, list(guards) + list(extra_hyps))
                n += 1
                nm = "%s.def.%s@result" % (prefix, kind)
                desc = "%s must be %s%s" % (T.show(poly, 300), {"pos": "> 0", "nonzero": "!= 0"}[kind],
                                          (" when " + " and ".join(repr(g) for g in guards)) if guards else "")
                wit = None
                if st == "refuted":
                    wit = confirm_side(kind, poly, F, list(guards) + list(extra_hyps))
                    if wit is None:
                        st = "unknown"          # only a model of the abstraction: not a refutation
                status = "discharged" if st == "proved" else ("refuted" if st == "refuted" else "undecided")
                out.append(Clause(nm, status, info.get("backend", ""), desc,
                                  witness=({"model": info.get("model"), "names": info.get("names"), "concrete": wit} if st == "refuted" else None),
                                  secs=time.time() - t0))
    for kind, what, why, loc, assumed in sidelog.items:
        if final_values is not None and kind in ("pos", "nonzero") and (kind, _norm_key(P(what))) in guarded and not str(why).startswith("[fp-raise]"):
            continue        # (under np.errstate(...="raise") a division is a trap even in a branch np.where then discards)
        if kind == "delta-range":
            e, b = what
            if T.symname(e) is not None:
                continue
            kind = "range"
        if kind == "bincount-range":
            continue
        if kind == "underflow":
            key = (kind, loc.split(":")[0])
            if key not in seen:
                seen.add(key)
                n += 1
                out.append(Clause("%s.underflow@%s" % (prefix, loc), "undecided", "floatmodel",
                                  "log of a sum of exponentials outside the stable log-add-exp and outside the recognised max-shift idiom: "
                                  "may underflow to log(0) unless shifted"))
            continue
        if kind == "floatrange":
            key = (kind, what, loc.split(":")[0])
            if key not in seen:
                seen.add(key)
                n += 1
                out.append(Clause("%s.range@%s" % (prefix, loc), "refuted", "floatmodel",
                                  "%s: leaves the float64 range for ordinary inputs (e.g. 64 factors of 1e-6 give 0, 80 factors of 1e4 give inf) "
                                  "although the mathematical value is finite" % why, witness={"float_hazard": what, "at": loc}))
            continue
        if kind == "intwidth":
            key = (kind, what, loc.split(":")[0])
            if key not in seen:
                seen.add(key)
                n += 1
                out.append(Clause("%s.width@%s" % (prefix, loc), "refuted", "dtype",
                                  "%s: for integer input narrower than 64 bit the result wraps around (e.g. uint8 200*200 = 64)" % why,
                                  witness={"dtype_hazard": what, "at": loc}))
            continue
        key = (kind, _fresh_re.sub("#", repr(what)), loc.split(":")[0])
        if key in seen:
            continue
        seen.add(key)
        t0 = time.time()
        hyps = [c for c in assumed] + list(extra_hyps)
        st, info = smt.prove_side(kind, what, F, hyps)
        n += 1
        nm = "%s.def.%s@%s" % (prefix, kind, loc)
        desc = "%s: %s must be %s" % (why, what if not isinstance(what, tuple) else "%r in [0,%r)" % what,
                                      {"pos": "> 0", "nonzero": "!= 0", "range": "in range"}[kind])
        if st == "proved":
            out.append(Clause(nm, "discharged", info["backend"], desc, secs=time.time() - t0))
        elif st == "refuted" and (confirm_side(kind, what, F, hyps) is not None):
            out.append(Clause(nm, "refuted", info["backend"] + "+eval", desc, witness={"model": info.get("model"), "names": info.get("names"),
                                                                                     "concrete": confirm_side(kind, what, F, hyps)},
                              secs=time.time() - t0))
        else:
            out.append(Clause(nm, "undecided", info.get("backend", ""), desc, secs=time.time() - t0))
    return n


def merge_def(clauses, prefix):
    """collapse the many per-site definedness clauses into one obligation per
    (prefix): discharged iff all are"""
    defs = [c for c in clauses if ".def." in c.name and c.name.startswith(prefix)]
    rest = [c for c in clauses if c not in defs]
    if not defs:
        return rest
    bad = [c for c in defs if c.status != "discharged"]
    if not bad:
        backends = sorted(set(c.backend for c in defs))
        rest.append(Clause(prefix + ".def", "discharged", "+".join(backends),
                           "%d definedness side conditions (division, log, index) discharged" % len(defs),
                           secs=sum(c.secs for c in defs)))
    else:
        rest.extend(bad)
    return rest
