"""Sidecar contracts for src/bob/learn/em/kmeans.py (DESIGN §4.2)."""
from fractions import Fraction

from vt import terms as T
from vt.terms import Poly, P, C, ZERO, ONE, Sum, Red
from vt import arr as A
from vt.arr import Arr, input_arr
from vt.values import Obj, SList, PyRaise
from vt.smt import Facts

Kk = T.sym("K", "int")
Dd = T.sym("D", "int")
Nn = T.sym("N", "int")


def facts(dims=()):
    return Facts(dims={"K", "D", "N", "B"} | set(dims))


def mk_means(name="cen", K=Kk, D=Dd):
    return input_arr(name, (K, D))


def mk_data(name="x", N=Nn, D=Dd, kind="numpy", ndim=2, intdata=False):
    kw = dict(dtype="int", narrow=True) if intdata else {}
    return input_arr(name, (D,) if ndim == 1 else (N, D), kind, **kw)


def two_d(x):
    return x if x.ndim == 2 else A.getitem(x, (None, slice(None)))


def dist_term(x, means, k, s):
    D = means.shape[1]
    return Sum(D, lambda d: (P(means.fn(k, d)) - P(x.fn(s, d))) ** 2, "d")


def spec_get_centroids_distance(ctx, x, means):
    x = two_d(x)
    if not A.dim_eq(x.shape[1], means.shape[1]):
        raise PyRaise("ValueError", "XA and XB must have the same number of columns")
    return Arr((means.shape[0], x.shape[0]), lambda k, s: dist_term(x, means, k, s), "real", x.kind)


def assign_term(x, means, s):
    return Red("argmin", means.shape[0], lambda k: dist_term(x, means, k, s), "k")


def spec_get_closest_centroid_index(ctx, centroids_dist):
    d = centroids_dist
    return Arr((d.shape[1],), lambda s: Red("argmin", d.shape[0], lambda k: P(d.fn(k, s)), "k"), "int", d.kind)


def mindist_term(x, means, s):
    return Red("minred", means.shape[0], lambda k: dist_term(x, means, k, s), "k")


def spec_e_step(ctx, data, means):
    """per-block statistics: counts, sums, and the block's mean squared distance
    to the nearest centroid"""
    x = data
    K, D, N = means.shape[0], x.shape[1], x.shape[0]
    ind = lambda s, k: T.mk_ind(T.cmp_cond("==", assign_term(x, means, s), k))
    z = Arr((K,), lambda k: Sum(N, lambda s: ind(s, k), "s"), "int")
    f = Arr((K, D), lambda k, d: Sum(N, lambda s: ind(s, k) * P(x.fn(s, d)), "s"))
    avg = Sum(N, lambda s: mindist_term(x, means, s), "s") / N
    return (z, f, avg)


def spec_m_step(ctx, stats, n_samples):
    """means' = Σ_b f_b / Σ_b z_b ; criterion = Σ_b (block mean_b * block size_b) / n_samples
    with block size_b = Σ_k z_b[k]  -- so that, composed with e_step over ANY blocks,
    the criterion is the mean over all samples (lemma C06.crit)"""
    if isinstance(stats, SList):
        nb = stats.slen()
        p = stats.elem(T.fresh("p"))
        K = p[0].shape[0]
        z = Arr(p[0].shape, lambda k: Sum(nb, lambda b: P(stats.elem(b)[0].fn(k)), "b"))
        f = Arr(p[1].shape, lambda k, d: Sum(nb, lambda b: P(stats.elem(b)[1].fn(k, d)), "b"))
        a = Sum(nb, lambda b: P(stats.elem(b)[2]) * Sum(K, lambda k: P(stats.elem(b)[0].fn(k)), "k"), "b")
    else:
        K = stats[0][0].shape[0]
        z, f = stats[0][0], stats[0][1]
        a = P(stats[0][2]) * Sum(K, lambda k: P(stats[0][0].fn(k)), "k")
        for s in stats[1:]:
            z, f = z + s[0], f + s[1]
            a = a + P(s[2]) * Sum(K, lambda k, s=s: P(s[0].fn(k)), "k")
    return (f / z[:, None], a / n_samples)


def spec_accumulate(ctx, data, means):
    x = data
    K, D, N = means.shape[0], x.shape[1], x.shape[0]
    idx = Arr((N,), lambda s: assign_term(x, means, s), "int", x.kind)
    ind = lambda s, k: T.mk_ind(T.cmp_cond("==", assign_term(x, means, s), k))
    s1 = Arr((K, D), lambda k, d: Sum(N, lambda s: ind(s, k) * P(x.fn(s, d)), "s"), "real", x.kind)
    s2 = Arr((K, D), lambda k, d: Sum(N, lambda s: ind(s, k) * P(x.fn(s, d)) ** 2, "s"), "real", x.kind)
    return (idx, s1, s2)


def spec_reduce(ctx, stats):
    """weights[k] = cnt_k / Σ cnt ; variances[k,d] = S2/cnt - (S1/cnt)^2 over all blocks"""
    if isinstance(stats, SList):
        nb = stats.slen()
        p = stats.elem(T.fresh("p"))
        K = p[1].shape[0]

        def cnt(k):
            return Sum(nb, lambda b: Sum(stats.elem(b)[0].shape[0], lambda s: T.mk_ind(T.cmp_cond("==", stats.elem(b)[0].fn(s), k)), "s"), "b")
        s1 = lambda k, d: Sum(nb, lambda b: P(stats.elem(b)[1].fn(k, d)), "b")
        s2 = lambda k, d: Sum(nb, lambda b: P(stats.elem(b)[2].fn(k, d)), "b")
        shape = p[1].shape
    else:
        K = stats[0][1].shape[0]

        def cnt(k):
            t = ZERO
            for st in stats:
                t = t + Sum(st[0].shape[0], lambda s, st=st: T.mk_ind(T.cmp_cond("==", st[0].fn(s), k)), "s")
            return t
        s1 = lambda k, d: sum((P(st[1].fn(k, d)) for st in stats), ZERO)
        s2 = lambda k, d: sum((P(st[2].fn(k, d)) for st in stats), ZERO)
        shape = stats[0][1].shape
    tot = Sum(K, cnt, "k")
    weights = Arr((K,), lambda k: cnt(k) / tot)
    variances = Arr(shape, lambda k, d: s2(k, d) / cnt(k) - (s1(k, d) / cnt(k)) ** 2)
    return (variances, weights)


def mk_kmeans(I, centroids=True, **kw):
    ci = I.classes["KMeansMachine"]
    m = Obj(ci)
    m.fields.update(n_clusters=Kk, init_method="k-means||", convergence_threshold=T.sym("conv_thr"),
                    max_iter=T.sym("max_steps", "int"), random_state=0, init_max_iter=5, oversampling_factor=2,
                    average_min_distance=float("inf"), zeroeth_order_statistics=None, first_order_statistics=None,
                    centroids_=mk_means() if centroids else None)
    m.fields.update(kw)
    return m
