"""Sidecar contract for src/bob/learn/em/linear_scoring.py (DESIGN §4.3)."""
from vt import terms as T
from vt.terms import Poly, P, C, ZERO, ONE, Sum
from vt import arr as A
from vt.arr import Arr, input_arr, is_scalar
from vt.values import Obj, SList, PyRaise
from contracts import gmm as G

EPS = 2.220446049250313e-16
Mm = T.sym("M", "int")
Pp = T.sym("Pp", "int")


def stats_list(I, n=Pp, tag=""):
    ci = I.classes["GMMStats"]

    def elem(p):
        s = Obj(ci)
        s.fields.update(n_gaussians=G.Cc, n_features=G.Dd, log_likelihood=T.app("pll" + tag, p), t=T.app("pT" + tag, p),
                        n=Arr((G.Cc,), lambda c: T.app("pN" + tag, p, c)), sum_px=Arr((G.Cc, G.Dd), lambda c, d: T.app("pF" + tag, p, c, d)),
                        sum_pxx=Arr((G.Cc, G.Dd), lambda c, d: T.app("pS" + tag, p, c, d)))
        return s
    return SList(n, elem)


def model_means(ctx, models_means):
    """-> function (m, c, d) -> term, number of models"""
    if isinstance(models_means, Arr):
        if models_means.ndim < 2:
            raise PyRaise("ValueError", "models_means must be of shape `(n_models, n_gaussians, n_features)`.")
        if models_means.ndim == 2:
            return (lambda m, c, d: P(models_means.fn(c, d))), ONE
        return (lambda m, c, d: P(models_means.fn(m, c, d))), models_means.shape[0]
    if isinstance(models_means, SList):
        return (lambda m, c, d: P(G.need(models_means.elem(m), "_means").fn(c, d))), models_means.length
    lst = list(models_means)
    return (lambda m, c, d: A._select([P(G.need(x, "_means").fn(c, d)) for x in lst], m)), Poly.const(len(lst))


def spec_linear_scoring(ctx, models_means, ubm, test_stats, test_channel_offsets=0, frame_length_normalization=False):
    mm, M = model_means(ctx, models_means)
    u = ubm.fields["ubm"] if ubm.fields["trainer"] == "map" else ubm
    mu, v = G.need(u, "_means"), G.need(u, "_variances")
    Cn, Dn = mu.shape
    if isinstance(test_stats, Obj):
        st = lambda p: test_stats
        Pn = ONE
    elif isinstance(test_stats, SList):
        st = test_stats.elem
        Pn = test_stats.length
    else:
        lst = list(test_stats)
        Pn = Poly.const(len(lst))
        st = lambda p: lst[P(p).as_int()] if P(p).as_int() is not None else _sel_obj(lst, p)
    off = test_channel_offsets

    def offt(p, c, d):
        if is_scalar(off):
            return P(off)
        if off.ndim == 2:
            return P(off.fn(c, d))
        return P(off.fn(p, c, d))

    def fn(m, p):
        s = st(p).fields
        kappa = ONE
        if frame_length_normalization:
            kappa = T.mk_ite(T.cmp_cond("<=", T.mk_abs(P(s["t"])), Poly.const(EPS)), ZERO, ONE / P(s["t"]))
        return Sum(Cn, lambda c: Sum(Dn, lambda d: (mm(m, c, d) - P(mu.fn(c, d))) / P(v.fn(c, d))
                                     * (P(s["sum_px"].fn(c, d)) - P(s["n"].fn(c)) * (P(mu.fn(c, d)) + offt(p, c, d))), "d"), "c") * kappa
    return Arr((M, Pn), fn)


def _sel_obj(lst, p):
    raise PyRaise("IndexError", "symbolic index into a concrete list of statistics")
