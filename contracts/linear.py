"""Sidecar contracts for wccn.py and whitening.py (DESIGN §4.6)."""
from vt import terms as T
from vt.terms import Poly, P, C, ZERO, ONE, Sum
from vt import arr as A
from vt.arr import Arr, input_arr
from vt.values import Obj, SList, PyRaise
from vt import npmodel as N
from vt.interp import LinalgModel
from vt.smt import Facts

Nn, Dd = T.sym("N", "int"), T.sym("D", "int")


def facts():
    F = Facts(dims={"N", "D", "K"})
    F.conds.append(T.cmp_cond("<", ONE, T.sym("N", "int")))        # enough samples (covariance needs N >= 2)

    def class_nonempty(p):
        a = T._single_atom(p, "sum")
        if a is None:
            return False
        from vt.loops import _appnames
        return T._single_atom(a.args[1], "ind") is not None and "y" in _appnames(a.args[1])
    F.pos_preds = [class_nonempty]                                   # every class has at least one sample
    # sample points for numeric refutation: distinct labels, every class populated, enough rows for a definite scatter
    F.dim_values = {"N": [6, 7], "D": [2], "K_pi1": [2, 3]}
    F.samplers = {"pi1": lambda args, env: int(args[0]),
                  "y": lambda args, env: int(args[0]) % int(env._default("sym", "K_pi1", ()))}
    return F


def chol_lower(m):
    return LinalgModel(None).cholesky(m, lower=True)


def spec_whitening_fit(ctx, self, X, y=None):
    N_ = X.shape[0]
    mu = Arr((X.shape[1],), lambda d: Sum(N_, lambda s: P(X.fn(s, d)), "s") / N_, "real", X.kind)
    cov = Arr((X.shape[1], X.shape[1]),
              lambda i, j: Sum(N_, lambda s: (P(X.fn(s, i)) - P(mu.fn(i))) * (P(X.fn(s, j)) - P(mu.fn(j))), "s") / (N_ - 1), "real", X.kind)
    self.fields["weights"] = chol_lower(N.minv(cov))
    self.fields["input_subtract"] = mu
    self.fields["input_divide"] = 1.0
    return self


def class_terms(X, y, pi, K):
    N_ = X.shape[0]
    ind = lambda s, k: T.mk_ind(T.cmp_cond("==", P(y.fn(s)), pi(k)))
    cnt = lambda k: Sum(N_, lambda s: ind(s, k), "s")
    mu = lambda k, d: Sum(N_, lambda s: ind(s, k) * P(X.fn(s, d)), "s") / cnt(k)
    return ind, cnt, mu


def spec_wccn_fit(ctx, self, X, y, pi=None, K=None):
    """within-class scatter with every sample centred on the mean of ITS OWN class; classes
    enumerated in an arbitrary order pi (the order of iteration of a Python set)"""
    N_ = X.shape[0]
    ind, cnt, mu = class_terms(X, y, pi, K)
    Sw = Arr((X.shape[1], X.shape[1]),
             lambda a, b: Sum(K, lambda k: Sum(N_, lambda s: ind(s, k) * (P(X.fn(s, a)) - mu(k, a)) * (P(X.fn(s, b)) - mu(k, b)), "s"), "k"),
             "real", X.kind)
    self.fields["weights"] = chol_lower(N.minv((ONE / K) * Sw))
    self.fields["input_subtract"] = 0
    self.fields["input_divide"] = 1.0
    return self
