"""Sidecar contracts for src/bob/learn/em/gmm.py  (DESIGN §4.1).

Each ``spec_*`` is an executable specification written in the term language;
it is the *postcondition* (whole result + whole post-state) of the function of
the same name.  ``mk_*`` build the symbolic pre-states (the preconditions).
Nothing in here is derived from the repository's code: the formulas are the
ones in the property statements.
"""
import math
from fractions import Fraction

from vt import terms as T
from vt.terms import Poly, P, C, ZERO, ONE, Sum, LSE
from vt import arr as A
from vt.arr import Arr, input_arr
from vt.values import Obj, SList, PyRaise
from vt.smt import Facts

LOG2PI = math.log(2 * math.pi)
EPS = 2.220446049250313e-16

Cc = T.sym("C", "int")
Dd = T.sym("D", "int")
Nn = T.sym("N", "int")


def facts(extra_pos_apps=(), extra_pos_syms=(), conds=(), dims=()):
    return Facts(pos_apps={"w", "v", "thrm", "w0", "v0", "thrm0"} | set(extra_pos_apps),
                 pos_syms={"thr", "mvt", "thr0", "relevance"} | set(extra_pos_syms),
                 dims={"C", "D", "N", "M", "Pp"} | set(dims), conds=conds)


# ---------------------------------------------------------------- pre-states
def gnorms_spec(var, C, D):
    return Arr((C,), lambda c: D * Poly.const(LOG2PI) + Sum(D, lambda d: T.mk_log(P(var.fn(c, d))), "d"))


def mk_gmm(I, tag="", C=Cc, D=Dd, gnorms="cached", thr="scalar", trainer="ml", ubm=None,
           update=(True, False, False), means=True, variances=True, kind="numpy", **extra):
    """a GMMMachine satisfying Inv (I1, I2 assumed through facts, I3) -- DESIGN §4.1"""
    ci = I.classes["GMMMachine"]
    m = Obj(ci)
    w = input_arr("w" + tag, (C,), kind)
    mu = input_arr("mu" + tag, (C, D), kind) if means else None
    v = input_arr("v" + tag, (C, D), kind) if variances else None
    if thr == "scalar":
        th = T.sym("thr" + tag)
    elif thr == "none":
        th = None
    elif thr == "matrix":
        th = input_arr("thrm" + tag, (C, D), kind)
    elif thr == "perfeature":
        th = input_arr("thrm" + tag, (D,), kind)
    else:
        th = thr
    gm = I.modules["gmm"].globals
    m.fields.update(
        n_gaussians=C, trainer=trainer, ubm=ubm,
        m_step_func=gm["map_gmm_m_step"] if trainer == "map" else gm["ml_gmm_m_step"],
        convergence_threshold=T.sym("conv_thr" + tag), max_fitting_steps=T.sym("max_steps" + tag, "int"),
        random_state=0, k_means_trainer=None,
        update_means=update[0], update_variances=update[1], update_weights=update[2],
        mean_var_update_threshold=T.sym("mvt" + tag),
        _means=mu, _variances=v, _variance_thresholds=th,
        _g_norms=(gnorms_spec(v, C, D) if (gnorms == "cached" and v is not None) else None),
        _weights=w, _log_weights=A.ewise(lambda x: T.mk_log(P(x)), w),
        map_alpha=T.sym("alpha" + tag), map_relevance_factor=T.sym("relevance" + tag),
    )
    m.fields.update(extra)
    return m


def mk_data(name="x", N=Nn, D=Dd, kind="numpy", ndim=2):
    if ndim == 1:
        return input_arr(name, (D,), kind)
    return input_arr(name, (N, D), kind)


def mk_stats(I, tag="", C=Cc, D=Dd):
    ci = I.classes["GMMStats"]
    s = Obj(ci)
    s.fields.update(n_gaussians=C, n_features=D, log_likelihood=T.sym("ll" + tag), t=T.sym("t" + tag, "int"),
                    n=input_arr("n" + tag, (C,)), sum_px=input_arr("F" + tag, (C, D)),
                    sum_pxx=input_arr("S" + tag, (C, D)))
    return s


# ---------------------------------------------------------------- specifications
def thr_of(m):
    t = m.fields["_variance_thresholds"]
    return EPS if t is None else t


def lwl_term(m, x, c, s):
    """log w_c + Σ_d log N(x_sd; mu_cd, v_cd)   -- the C01 formula"""
    w, mu, v = m.fields["_weights"], m.fields["_means"], m.fields["_variances"]
    D = mu.shape[1]
    return T.mk_log(P(w.fn(c))) - Fraction(1, 2) * (
        D * Poly.const(LOG2PI)
        + Sum(D, lambda d: T.mk_log(P(v.fn(c, d))), "d")
        + Sum(D, lambda d: (P(x.fn(s, d)) - P(mu.fn(c, d))) ** 2 / P(v.fn(c, d)), "d"))


def need_params(m):
    if m.fields["_means"] is None:
        raise PyRaise("ValueError", "GMMMachine means were never set.")
    if m.fields["_variances"] is None:
        raise PyRaise("ValueError", "GMMMachine variances were never set.")


def two_d(data):
    return data if data.ndim == 2 else A.getitem(data, (None, slice(None)))


def spec_log_weighted_likelihood(ctx, data, machine):
    need_params(machine)
    C = machine.fields["_means"].shape[0]
    if data.ndim == 1:
        # broadcasting of a single vector against (D,) rows: result (C, 1)?  the real
        # code sums over the last axis and vstacks scalars -> shape (C, 1)
        x = two_d(data)
        return Arr((C, ONE), lambda c, s: lwl_term(machine, x, c, s), "real", data.kind)
    N = data.shape[0]
    # cache fill of the lazy normaliser is allowed (and required to be the I3 value)
    if machine.fields["_g_norms"] is None:
        machine.fields["_g_norms"] = gnorms_spec(machine.fields["_variances"], C, data.shape[1])
    return Arr((C, N), lambda c, s: lwl_term(machine, data, c, s), "real", data.kind)


def spec_log_likelihood(ctx, data, machine):
    need_params(machine)
    x = two_d(data)
    C = machine.fields["_means"].shape[0]
    if machine.fields["_g_norms"] is None:
        machine.fields["_g_norms"] = gnorms_spec(machine.fields["_variances"], C, x.shape[1])
    return Arr((x.shape[0],), lambda s: LSE(C, lambda c: lwl_term(machine, x, c, s), "c"), "real", data.kind)


def resp_term(m, x, c, s):
    C = m.fields["_means"].shape[0]
    return T.mk_exp(lwl_term(m, x, c, s) - LSE(C, lambda k: lwl_term(m, x, k, s), "c"))


def spec_e_step(ctx, data, machine):
    need_params(machine)
    x = two_d(data)
    m = machine
    C, D, N = m.fields["_weights"].shape[0], x.shape[1], x.shape[0]
    if m.fields["_g_norms"] is None:
        m.fields["_g_norms"] = gnorms_spec(m.fields["_variances"], C, D)
    I = ctx_interp(ctx)
    st = Obj(I.classes["GMMStats"])
    st.fields.update(
        n_gaussians=C, n_features=D,
        log_likelihood=Sum(N, lambda s: LSE(C, lambda c: lwl_term(m, x, c, s), "c"), "s"),
        t=N,
        n=Arr((C,), lambda c: Sum(N, lambda s: resp_term(m, x, c, s), "s"), "real", x.kind),
        sum_px=Arr((C, D), lambda c, d: Sum(N, lambda s: resp_term(m, x, c, s) * P(x.fn(s, d)), "s"), "real", x.kind),
        sum_pxx=Arr((C, D), lambda c, d: Sum(N, lambda s: resp_term(m, x, c, s) * P(x.fn(s, d)) ** 2, "s"), "real", x.kind),
    )
    return st


_INTERP = [None]


def ctx_interp(ctx):
    return getattr(ctx, "I", None) or _INTERP[0]


def shapes_differ(ctx, a, b):
    c = T.c_or(T.cmp_cond("!=", P(a.fields["n_gaussians"]), P(b.fields["n_gaussians"])),
               T.cmp_cond("!=", P(a.fields["n_features"]), P(b.fields["n_features"])))
    return ctx.holds(c)


def spec_stats_add(ctx, self, other):
    if shapes_differ(ctx, self, other):
        raise PyRaise("ValueError", "Statistics could not be added together (shape mismatch)")
    I = ctx_interp(ctx)
    r = Obj(I.classes["GMMStats"])
    r.fields.update(n_gaussians=self.fields["n_gaussians"], n_features=self.fields["n_features"])
    for f in ("log_likelihood", "t", "n", "sum_px", "sum_pxx"):
        r.fields[f] = self.fields[f] + other.fields[f]
    return r


def spec_stats_iadd(ctx, self, other):
    if shapes_differ(ctx, self, other):
        raise PyRaise("ValueError", "Statistics could not be added together (shape mismatch)")
    for f in ("log_likelihood", "t", "n", "sum_px", "sum_pxx"):
        self.fields[f] = self.fields[f] + other.fields[f]
    return self
