"""Sidecar contracts for src/bob/learn/em/gmm.py  (DESIGN §4.1).

Each ``spec_*`` is an executable specification written in the term language;
it is the *postcondition* (whole result + whole post-state) of the function of
the same name.  ``mk_*`` build the symbolic pre-states (the preconditions).
Nothing in here is derived from the repository's code: the formulas are the
ones in the property statements.
"""
import math
from fractions import Fraction

from vt import terms as T
from vt.terms import Poly, P, C, ZERO, ONE, Sum, LSE
from vt import arr as A
from vt.arr import Arr, input_arr
from vt.values import Obj, SList, PyRaise
from vt.smt import Facts

LOG2PI = math.log(2 * math.pi)
EPS = 2.220446049250313e-16

Cc = T.sym("C", "int")
Dd = T.sym("D", "int")
Nn = T.sym("N", "int")


def facts(extra_pos_apps=(), extra_pos_syms=(), conds=(), dims=()):
    return Facts(pos_apps={"w", "v", "thrm", "w0", "v0", "thrm0"} | set(extra_pos_apps),
                 pos_syms={"thr", "mvt", "thr0", "relevance"} | set(extra_pos_syms),
                 dims={"C", "D", "N", "M", "Pp"} | set(dims), conds=conds)


def facts_inv(m, F=None, tag=""):
    """facts() plus the pre-state invariant I2: variances >= floors"""
    F = F or facts()
    th = thr_of(m)
    if isinstance(th, Arr):
        if th.ndim == 2:
            F.lower["v" + tag] = lambda c, d: P(th.fn(c, d))
        else:
            F.lower["v" + tag] = lambda c, d: P(th.fn(d))
    else:
        F.lower["v" + tag] = lambda c, d: P(th)
    return F


# ---------------------------------------------------------------- pre-states
def gnorms_spec(var, C, D):
    return Arr((C,), lambda c: D * Poly.const(LOG2PI) + Sum(D, lambda d: T.mk_log(P(var.fn(c, d))), "d"))


def mk_gmm(I, tag="", C=Cc, D=Dd, gnorms="cached", thr="scalar", trainer="ml", ubm=None,
           update=(True, False, False), means=True, variances=True, kind="numpy", **extra):
    """a GMMMachine satisfying Inv (I1, I2 assumed through facts, I3) -- DESIGN §4.1"""
    ci = I.classes["GMMMachine"]
    m = Obj(ci)
    w = input_arr("w" + tag, (C,), kind)
    mu = input_arr("mu" + tag, (C, D), kind) if means else None
    v = input_arr("v" + tag, (C, D), kind) if variances else None
    if thr == "scalar":
        th = T.sym("thr" + tag)
    elif thr == "none":
        th = None
    elif thr == "matrix":
        th = input_arr("thrm" + tag, (C, D), kind)
    elif thr == "perfeature":
        th = input_arr("thrm" + tag, (D,), kind)
    else:
        th = thr
    gm = I.modules["gmm"].globals
    m.fields.update(
        n_gaussians=C, trainer=trainer, ubm=ubm,
        m_step_func=gm["map_gmm_m_step"] if trainer == "map" else gm["ml_gmm_m_step"],
        convergence_threshold=T.sym("conv_thr" + tag), max_fitting_steps=T.sym("max_steps" + tag, "int"),
        random_state=0, k_means_trainer=None,
        update_means=update[0], update_variances=update[1], update_weights=update[2],
        mean_var_update_threshold=T.sym("mvt" + tag),
        _means=mu, _variances=v, _variance_thresholds=th,
        _g_norms=(gnorms_spec(v, C, D) if (gnorms == "cached" and v is not None) else None),
        _weights=w, _log_weights=A.ewise(lambda x: T.mk_log(P(x)), w),
        map_alpha=T.sym("alpha" + tag), map_relevance_factor=T.sym("relevance" + tag),
    )
    m.fields.update(extra)
    # I3 allows the normaliser cache to be EMPTY: the g_norms getter fills it from the current variances (C17.gnorms.lazy)
    m.lazy_fields = {"_g_norms"}
    return m


def mk_data(name="x", N=Nn, D=Dd, kind="numpy", ndim=2, intdata=False):
    """intdata: samples stored in an integer dtype of the caller's choice (uint8 pixels, int16 audio, ...)"""
    kw = dict(dtype="int", narrow=True) if intdata else {}
    if ndim == 1:
        return input_arr(name, (D,), kind, **kw)
    return input_arr(name, (N, D), kind, **kw)


def mk_stats(I, tag="", C=Cc, D=Dd):
    ci = I.classes["GMMStats"]
    s = Obj(ci)
    s.fields.update(n_gaussians=C, n_features=D, log_likelihood=T.sym("ll" + tag), t=T.sym("t" + tag, "int"),
                    n=input_arr("n" + tag, (C,)), sum_px=input_arr("F" + tag, (C, D)),
                    sum_pxx=input_arr("S" + tag, (C, D)))
    return s


# ---------------------------------------------------------------- specifications
def thr_of(m):
    t = m.fields["_variance_thresholds"]
    return EPS if t is None else t


class Params:
    """the visible parameters of a machine, captured *now* (specifications are
    lazy closures; the machine object may be mutated later)"""

    def __init__(self, m):
        if isinstance(m, Params):
            self.w, self.mu, self.v = m.w, m.mu, m.v
        else:
            self.w, self.mu, self.v = m.fields["_weights"], m.fields["_means"], m.fields["_variances"]
        self.fields = {"_weights": self.w, "_means": self.mu, "_variances": self.v}


def lwl_term(m, x, c, s):
    """log w_c + Σ_d log N(x_sd; mu_cd, v_cd)   -- the C01 formula"""
    m = m if isinstance(m, Params) else Params(m)
    w, mu, v = m.w, m.mu, m.v
    D = mu.shape[1]
    return T.mk_log(P(w.fn(c))) - Fraction(1, 2) * (
        D * Poly.const(LOG2PI)
        + Sum(D, lambda d: T.mk_log(P(v.fn(c, d))), "d")
        + Sum(D, lambda d: (P(x.fn(s, d)) - P(mu.fn(c, d))) ** 2 / P(v.fn(c, d)), "d"))


def need_params(m):
    if m.fields["_means"] is None:
        raise PyRaise("ValueError", "GMMMachine means were never set.")
    if m.fields["_variances"] is None:
        raise PyRaise("ValueError", "GMMMachine variances were never set.")


def two_d(data):
    return data if data.ndim == 2 else A.getitem(data, (None, slice(None)))


def spec_log_weighted_likelihood(ctx, data, machine):
    need_params(machine)
    C = machine.fields["_means"].shape[0]
    real_machine, machine = machine, Params(machine)
    if real_machine.fields["_g_norms"] is None and data.ndim == 2:
        real_machine.fields["_g_norms"] = gnorms_spec(machine.v, C, data.shape[1])
    if data.ndim == 1:
        # broadcasting of a single vector against (D,) rows: result (C, 1)?  the real
        # code sums over the last axis and vstacks scalars -> shape (C, 1)
        x = two_d(data)
        return Arr((C, ONE), lambda c, s: lwl_term(machine, x, c, s), "real", data.kind)
    N = data.shape[0]
    # cache fill of the lazy normaliser is allowed (and required to be the I3 value)
    return Arr((C, N), lambda c, s: lwl_term(machine, data, c, s), "real", data.kind)


def spec_log_likelihood(ctx, data, machine):
    need_params(machine)
    x = two_d(data)
    C = machine.fields["_means"].shape[0]
    if machine.fields["_g_norms"] is None:
        machine.fields["_g_norms"] = gnorms_spec(machine.fields["_variances"], C, x.shape[1])
    machine = Params(machine)
    return Arr((x.shape[0],), lambda s: LSE(C, lambda c: lwl_term(machine, x, c, s), "c"), "real", data.kind)


def resp_term(m, x, c, s):
    m = m if isinstance(m, Params) else Params(m)
    C = m.mu.shape[0]
    return T.mk_exp(lwl_term(m, x, c, s) - LSE(C, lambda k: lwl_term(m, x, k, s), "c"))


def spec_e_step(ctx, data, machine):
    need_params(machine)
    x = two_d(data)
    m = machine
    C, D, N = m.fields["_weights"].shape[0], x.shape[1], x.shape[0]
    if m.fields["_g_norms"] is None:
        m.fields["_g_norms"] = gnorms_spec(m.fields["_variances"], C, D)
    m = Params(m)
    I = ctx_interp(ctx)
    st = Obj(I.classes["GMMStats"])
    st.fields.update(
        n_gaussians=C, n_features=D,
        log_likelihood=Sum(N, lambda s: LSE(C, lambda c: lwl_term(m, x, c, s), "c"), "s"),
        t=N,
        n=Arr((C,), lambda c: Sum(N, lambda s: resp_term(m, x, c, s), "s"), "real", x.kind),
        sum_px=Arr((C, D), lambda c, d: Sum(N, lambda s: resp_term(m, x, c, s) * P(x.fn(s, d)), "s"), "real", x.kind),
        sum_pxx=Arr((C, D), lambda c, d: Sum(N, lambda s: resp_term(m, x, c, s) * P(x.fn(s, d)) ** 2, "s"), "real", x.kind),
    )
    return st


_INTERP = [None]


def ctx_interp(ctx):
    return getattr(ctx, "I", None) or _INTERP[0]


def shapes_differ(ctx, a, b):
    c = T.c_or(T.cmp_cond("!=", P(a.fields["n_gaussians"]), P(b.fields["n_gaussians"])),
               T.cmp_cond("!=", P(a.fields["n_features"]), P(b.fields["n_features"])))
    return ctx.holds(c)


def spec_stats_add(ctx, self, other):
    if shapes_differ(ctx, self, other):
        raise PyRaise("ValueError", "Statistics could not be added together (shape mismatch)")
    I = ctx_interp(ctx)
    r = Obj(I.classes["GMMStats"])
    r.fields.update(n_gaussians=self.fields["n_gaussians"], n_features=self.fields["n_features"])
    for f in ("log_likelihood", "t", "n", "sum_px", "sum_pxx"):
        r.fields[f] = self.fields[f] + other.fields[f]
    return r


def spec_stats_iadd(ctx, self, other):
    if shapes_differ(ctx, self, other):
        raise PyRaise("ValueError", "Statistics could not be added together (shape mismatch)")
    for f in ("log_likelihood", "t", "n", "sum_px", "sum_pxx"):
        self.fields[f] = self.fields[f] + other.fields[f]
    return self


# ---------------------------------------------------------------- data-structure invariant and setters (C17)
def bmax(th, var):
    return A.ewise(lambda t, x: T.mk_max(P(t), P(x)), th, var)


def spec_set_weights(ctx, self, weights):
    self.fields["_weights"] = weights
    self.fields["_log_weights"] = A.ewise(lambda x: T.mk_log(P(x)), weights)


def spec_set_means(ctx, self, means):
    self.fields["_means"] = means


def spec_set_variances(ctx, self, variances):
    v = bmax(thr_of(self), variances)
    self.fields["_variances"] = v
    D = v.shape[-1]
    self.fields["_g_norms"] = Arr(v.shape[:-1], lambda c: D * Poly.const(LOG2PI) + Sum(D, lambda d: T.mk_log(P(v.fn(c, d))), "d"))


def spec_set_thresholds(ctx, self, threshold):
    self.fields["_variance_thresholds"] = threshold
    if self.fields["_variances"] is not None:
        spec_set_variances(ctx, self, bmax(threshold, self.fields["_variances"]))


def spec_get_gnorms(ctx, self):
    if self.fields["_g_norms"] is None:
        if self.fields["_variances"] is None:
            raise PyRaise("ValueError", "GMMMachine variances were never set.")
        v = self.fields["_variances"]
        self.fields["_g_norms"] = gnorms_spec(v, v.shape[0], v.shape[1])
    return self.fields["_g_norms"]


def inv_clauses(m, F, name, out, hyps=()):
    """Inv(m): I1 log-weights, I2 variances >= floors, I3 normaliser cache"""
    from vt import verify as V
    from vt import smt
    from vt.verify import Clause
    f = m.fields
    c = T.fresh("c")
    d = T.fresh("d")
    # I1 over the public accessors (whatever representation the class keeps them in): log_weights == log(weights)
    I_ = _INTERP[0]
    try:
        lw, w_ = (I_.getattr(m, "log_weights"), I_.getattr(m, "weights")) if I_ is not None else (f["_log_weights"], f["_weights"])
    except Exception:
        lw, w_ = f.get("_log_weights"), f.get("_weights")
    if lw is None or w_ is None:
        out.append(Clause(name + ".I1", "undecided", "", "log_weights / weights not available"))
    else:
        V.compare_terms(P(lw.fn(c)), T.mk_log(P(w_.fn(c))), F, name + ".I1", out, hyps)
    if f["_variances"] is not None:
        th = thr_of(m)
        v = f["_variances"]
        tv = A.ewise(lambda t, x: P(t) + 0 * P(x), th, v)   # broadcast the floor to (C, D)
        goal = T.cmp_cond("<=", P(tv.fn(c, d)), P(v.fn(c, d)))
        st, info = smt.prove(goal, F, hyps)
        out.append(Clause(name + ".I2", "discharged" if st == "proved" else ("refuted" if st == "refuted" else "undecided"),
                          info.get("backend", ""), "variances >= current floors" + ("" if st == "proved" else ": " + str(info.get("model", ""))[:300])))
        st, info = smt.prove(T.cmp_cond("<", ZERO, P(v.fn(c, d))), F, hyps)
        out.append(Clause(name + ".I2pos", "discharged" if st == "proved" else ("refuted" if st == "refuted" else "undecided"),
                          info.get("backend", ""), "variances > 0"))
        if f["_g_norms"] is not None:
            g = gnorms_spec(v, v.shape[0], v.shape[1])
            V.compare_terms(P(f["_g_norms"].fn(c)), P(g.fn(c)), F, name + ".I3", out, hyps)


# ---------------------------------------------------------------- M-steps (C03, C05)
def spec_ml_m_step(ctx, machine, statistics, update_means=True, update_variances=False, update_weights=False,
                   mean_var_update_threshold=EPS, **kwargs):
    """property-level contract: every updated block is the maximiser of the
    expected complete log-likelihood Q over that block, the others at their
    in-force values, with counts floored at eps"""
    st = statistics.fields
    n, Fx, S, t = st["n"], st["sum_px"], st["sum_pxx"], st["t"]
    eps = mean_var_update_threshold
    nt = A.ewise(lambda x: T.mk_max(P(x), P(eps)), n)
    if update_weights:
        spec_set_weights(ctx, machine, nt / t)
    if update_means:
        spec_set_means(ctx, machine, Fx / nt[:, None])
    if update_variances:
        mu = machine.fields["_means"]
        if mu is None:
            raise PyRaise("ValueError", "GMMMachine means were never set.")
        vstar = (S - 2 * mu * Fx + nt[:, None] * mu * mu) / nt[:, None]
        spec_set_variances(ctx, machine, vstar)
    return None


KNOWN_DEFECT = {"map_var_prior_mean_not_squared": False}


def spec_map_m_step(ctx, machine, statistics, update_means=True, update_variances=False, update_weights=False,
                    reynolds_adaptation=True, relevance_factor=4, alpha=0.5, mean_var_update_threshold=EPS):
    """property-level contract (C05): relevance blend of prior and data"""
    ubm = machine.fields["ubm"]
    if ubm is None:
        raise PyRaise("ValueError", "A machine used for MAP must have a UBM.")
    st = statistics.fields
    n, Fx, S, t = st["n"], st["sum_px"], st["sum_pxx"], st["t"]
    eps = mean_var_update_threshold
    C = n.shape[0]
    if reynolds_adaptation:
        a = n / (n + relevance_factor)
    else:
        a = alpha if isinstance(alpha, Arr) else A.const_arr((machine.fields["n_gaussians"],), alpha)
    w0, mu0, v0 = ubm.fields["_weights"], need(ubm, "_means"), need(ubm, "_variances")
    if update_weights:
        blend = a * (n / t) + (1 - a) * w0
        tot = blend.sum()
        spec_set_weights(ctx, machine, blend / tot)
    noev = A.ewise(lambda x: T.cmp_cond("<", P(x), P(eps)), n, dtype="bool")
    if update_means:
        ex = Fx / n[:, None]
        new = a[:, None] * ex + (1 - a[:, None]) * mu0
        spec_set_means(ctx, machine, A.ewise(lambda c_, p_, q_: T.mk_ite(c_, P(p_), P(q_)), noev[:, None], mu0, new))
    if update_variances:
        mu = need(machine, "_means")
        ex2 = S / n[:, None]
        prior2 = v0 + mu0 * mu0
        if KNOWN_DEFECT["map_var_prior_mean_not_squared"]:
            # exact description of known finding KF-MAP-VAR (used only to *identify* that defect)
            prior2 = v0 + mu0
        new = a[:, None] * ex2 + (1 - a[:, None]) * prior2 - mu * mu
        prior_only = prior2 - mu * mu
        spec_set_variances(ctx, machine, A.ewise(lambda c_, p_, q_: T.mk_ite(c_, P(p_), P(q_)), noev[:, None], prior_only, new))
    return None


def need(m, fld):
    v = m.fields[fld]
    if v is None:
        raise PyRaise("ValueError", "GMMMachine %s were never set." % fld.strip("_"))
    return v


def sum_stats(I, stats_list):
    """fieldwise Σ of a (symbolic or concrete) list of statistics objects"""
    if isinstance(stats_list, SList):
        n = stats_list.slen()
        first = stats_list.elem(Poly.const(0))
        o = Obj(first.cls, dict(first.fields))
        for f in ("log_likelihood", "t", "n", "sum_px", "sum_pxx"):
            v = first.fields[f]
            if isinstance(v, Arr):
                o.fields[f] = Arr(v.shape, (lambda f: lambda *idx: Sum(n, lambda b: P(stats_list.elem(b).fields[f].fn(*idx)), "b"))(f))
            else:
                o.fields[f] = Sum(n, lambda b, f=f: P(stats_list.elem(b).fields[f]), "b")
        return o
    first = stats_list[0]
    o = Obj(first.cls, dict(first.fields))
    for s in stats_list[1:]:
        for f in ("log_likelihood", "t", "n", "sum_px", "sum_pxx"):
            o.fields[f] = o.fields[f] + s.fields[f]
    return o


def spec_m_step(ctx, statistics, machine):
    """m_step(list of statistics, machine): statistics are summed fieldwise, the
    trainer-specific M-step is applied with the machine's own settings, and the
    average log-likelihood Σ ll / Σ t of the *incoming* parameters is returned"""
    I = ctx_interp(ctx)
    S = sum_stats(I, statistics)
    f = machine.fields
    kw = dict(update_means=f["update_means"], update_variances=f["update_variances"], update_weights=f["update_weights"],
              mean_var_update_threshold=f["mean_var_update_threshold"])
    if f["trainer"] == "map":
        spec_map_m_step(ctx, machine, S, reynolds_adaptation=f["map_relevance_factor"] is not None,
                        alpha=f["map_alpha"], relevance_factor=f["map_relevance_factor"], **kw)
    else:
        spec_ml_m_step(ctx, machine, S, **kw)
    # in-place reduction lands in the first element (frame: statistics[0] is overwritten)
    if isinstance(statistics, list):
        for fld in ("log_likelihood", "t", "n", "sum_px", "sum_pxx"):
            statistics[0].fields[fld] = S.fields[fld]
    return (machine, S.fields["log_likelihood"] / S.fields["t"])
