"""Sidecar contracts for src/bob/learn/em/factor_analysis.py (DESIGN §4.5): leaf formulas.

Supervectors are compound axes C*D, row-major: index i = c*D + d  (T.PRODUCTS)."""
from vt import terms as T
from vt.terms import Poly, P, C, ZERO, ONE, Sum
from vt import arr as A
from vt.arr import Arr, input_arr
from vt.values import Obj, SList, PyRaise
from vt import npmodel as N
from vt.smt import Facts
from contracts import gmm as G

RU = T.sym("RU", "int")
RV = T.sym("RV", "int")
Hh = T.sym("H", "int")
Cc, Dd = G.Cc, G.Dd


def setup():
    T.PRODUCTS[:] = [(Cc, Dd)]


def facts():
    F = G.facts(dims={"RU", "RV", "H", "I", "J"})
    F.pos_apps |= {"vu", "wu"}
    F.nonneg_apps |= {"hN", "Nacc", "N1", "dsd"}
    return F


def cd(i):
    """(c, d) of a supervector index"""
    return T.mk_floordiv(i, Dd), T.mk_mod(i, Dd)


def mk_fa(I, cls="JFAMachine", with_v=True):
    m = Obj(I.classes[cls])
    ubm = G.mk_gmm(I, "u")
    m.fields.update(ubm=ubm, ubm_kwargs=None, em_iterations=T.sym("em_it", "int"), random_state=0, enroll_iterations=T.sym("en_it", "int"),
                    r_U=RU, r_V=RV if with_v else None, relevance_factor=T.sym("relevance"),
                    _U=input_arr("U", (Cc * Dd, RU)), _D=input_arr("Dv", (Cc * Dd,)),
                    _V=input_arr("V", (Cc * Dd, RV)) if with_v else 0)
    return m


def one_stats(I, tag="1"):
    s = Obj(I.classes["GMMStats"])
    s.fields.update(n_gaussians=Cc, n_features=Dd, log_likelihood=T.sym("ll" + tag), t=T.sym("t" + tag),
                    n=input_arr("N" + tag, (Cc,)), sum_px=input_arr("F" + tag, (Cc, Dd)), sum_pxx=input_arr("S" + tag, (Cc, Dd)))
    return s


def sessions(I, n=Hh, tag="h"):
    ci = I.classes["GMMStats"]

    def elem(h):
        s = Obj(ci)
        s.fields.update(n_gaussians=Cc, n_features=Dd, log_likelihood=T.app(tag + "ll", h), t=T.app(tag + "T", h),
                        n=Arr((Cc,), lambda c: T.app(tag + "N", h, c)), sum_px=Arr((Cc, Dd), lambda c, d: T.app(tag + "F", h, c, d)),
                        sum_pxx=Arr((Cc, Dd), lambda c, d: T.app(tag + "S", h, c, d)))
        return s
    return SList(n, elem)


def sv(f):
    return Arr((Cc * Dd,), lambda i: f(*cd(i)))


def m_of(self):
    mu = G.need(self.fields["ubm"], "_means")
    return lambda i: P(mu.fn(*cd(i)))


def sigma_of(self):
    v = G.need(self.fields["ubm"], "_variances")
    return lambda i: P(v.fn(*cd(i)))


def matvec(M, x):
    return lambda i: Sum(M.shape[1], lambda r: P(M.fn(i, r)) * P(x.fn(r)), "r")


def spec_fn_x_ih(ctx, self, x_i, latent_z_i=None, latent_y_i=None):
    """N_h-weighted residual of one session given z and y:  F_h - N_h (m + D z + V y)"""
    f = self.fields
    Fx, n = x_i.fields["sum_px"], x_i.fields["n"]
    m = m_of(self)

    def el(i):
        c, d = cd(i)
        off = m(i)
        if latent_z_i is not None:
            off = off + P(f["_D"].fn(i)) * P(latent_z_i.fn(i))
        if latent_y_i is not None:
            off = off + matvec(f["_V"], latent_y_i)(i)
        return P(Fx.fn(c, d)) - P(n.fn(c)) * off
    return Arr((Cc * Dd,), el)


def sum_sessions_Ux(self, X_i, latent_x_i):
    U = self.fields["_U"]
    H = X_i.slen()
    return lambda i: Sum(H, lambda h: P(X_i.elem(h).fields["n"].fn(cd(i)[0])) * Sum(U.shape[1], lambda r: P(U.fn(i, r)) * P(latent_x_i.fn(r, h)), "r"), "h")


def spec_fn_y_i(ctx, self, X_i, latent_x_i, latent_z_i, n_acc_i, f_acc_i):
    """F_i - N_i (m + D z) - Σ_h N_h U x_h   (the residual the speaker factors explain)"""
    f = self.fields
    m = m_of(self)
    ux = sum_sessions_Ux(self, X_i, latent_x_i)
    return Arr((Cc * Dd,), lambda i: P(f_acc_i.fn(*cd(i))) - P(n_acc_i.fn(cd(i)[0])) * (m(i) + P(f["_D"].fn(i)) * P(latent_z_i.fn(i))) - ux(i))


def spec_fn_z_i(ctx, self, X_i, latent_x_i, latent_y_i, n_acc_i, f_acc_i):
    """F_i - N_i (m + V y) - Σ_h N_h U x_h"""
    f = self.fields
    m = m_of(self)
    ux = sum_sessions_Ux(self, X_i, latent_x_i)

    def el(i):
        off = m(i)
        if latent_y_i is not None:
            off = off + matvec(f["_V"], latent_y_i)(i)
        return P(f_acc_i.fn(*cd(i))) - P(n_acc_i.fn(cd(i)[0])) * off - ux(i)
    return Arr((Cc * Dd,), el, "real", "numpy")


def prod_term(M, self):
    """[c, r, s] = Σ_d M[cD+d, r] M[cD+d, s] / sigma[c, d]"""
    v = G.need(self.fields["ubm"], "_variances")
    R = M.shape[1]
    return Arr((Cc, R, R), lambda c, r, s: Sum(Dd, lambda d: P(M.fn(c * Dd + d, r)) * P(M.fn(c * Dd + d, s)) / P(v.fn(c, d)), "d"))


def spec_uprod(ctx, self):
    return prod_term(self.fields["_U"], self)


def spec_vprod(ctx, self):
    return prod_term(self.fields["_V"], self)


def precision_inv(R, Prod, n):
    M = Arr((R, R), lambda r, s: T.mk_ind(T.cmp_cond("==", r, s)) + Sum(Cc, lambda c: P(Prod.fn(c, r, s)) * P(n.fn(c)), "c"))
    return N.minv(M)


def spec_id_plus_u_prod_ih(ctx, self, x_i, UProd):
    return precision_inv(self.fields["r_U"], UProd, x_i.fields["n"])


def spec_id_plus_vprod_i(ctx, self, n_acc_i, VProd):
    return precision_inv(self.fields["r_V"], VProd, n_acc_i)


def spec_id_plus_d_prod_i(ctx, self, dt_inv_sigma_d, n_acc_i):
    return Arr((Cc * Dd,), lambda i: ONE / (ONE + P(dt_inv_sigma_d.fn(i)) * P(n_acc_i.fn(cd(i)[0]))))


def pooled(X):
    """Σ over the statistics of a probe: (N, F)"""
    if isinstance(X, SList):
        H = X.slen()
        n = Arr((Cc,), lambda c: Sum(H, lambda h: P(X.elem(h).fields["n"].fn(c)), "h"))
        Fx = Arr((Cc, Dd), lambda c, d: Sum(H, lambda h: P(X.elem(h).fields["sum_px"].fn(c, d)), "h"))
        return n, Fx
    n, Fx = X[0].fields["n"], X[0].fields["sum_px"]
    for s in X[1:]:
        n, Fx = n + s.fields["n"], Fx + s.fields["sum_px"]
    return n, Fx


def spec_estimate_x(ctx, self, X):
    """posterior mean of the channel factor given the POOLED statistics:
    (I + Σ_c N_c U_c' S_c^-1 U_c)^-1 U' S^-1 (F - N m)"""
    f = self.fields
    U = f["_U"]
    n, Fx = pooled(X)
    Pinv = precision_inv(f["r_U"], prod_term(U, self), n)
    m, sg = m_of(self), sigma_of(self)
    rhs = Arr((U.shape[1],), lambda r: T.sum_over(Cc * Dd, lambda i: P(U.fn(i, r)) / sg(i) * (P(Fx.fn(*cd(i))) - P(n.fn(cd(i)[0])) * m(i)), "i"))
    return A.matmul(Pinv, rhs)


def spec_estimate_ux(ctx, self, X):
    x = spec_estimate_x(ctx, self, X)
    U = self.fields["_U"]
    return Arr((Cc * Dd,), matvec(U, x))


def spec_sum_n(ctx, self, X, y, n_classes):
    J = X.slen()
    return Arr((P(n_classes), Cc), lambda k, c: Sum(J, lambda j: T.mk_ind(T.cmp_cond("==", lab(y, j), k)) * P(X.elem(j).fields["n"].fn(c)), "j"))


def spec_sum_f(ctx, self, X, y, n_classes):
    J = X.slen()
    return Arr((P(n_classes), Cc, Dd), lambda k, c, d: Sum(J, lambda j: T.mk_ind(T.cmp_cond("==", lab(y, j), k)) * P(X.elem(j).fields["sum_px"].fn(c, d)), "j"))


def lab(y, j):
    if isinstance(y, Arr):
        return P(y.fn(j))
    return P(y.elem(j))


def spec_update_U(ctx, self, acc_U_A1, acc_U_A2):
    """U_c = A2_c A1_c^-1 per component"""
    inv = N.minv(acc_U_A1)
    R = acc_U_A1.shape[1]
    U = Arr((Cc * Dd, R), lambda i, r: Sum(R, lambda s: P(acc_U_A2.fn(i, s)) * P(inv.fn(cd(i)[0], s, r)), "s"))
    self.fields["_U"] = U
    return U


# ---------------------------------------------------------------- block updates of the enrolment (C07.block.*), one client
def spec_block_y(self, X, xs, z, n_acc, f_acc):
    """y* = (I + Σ_c N_c V_c'S_c^-1V_c)^-1 V'S^-1 (F - N(m + D z) - Σ_h N_h U x_h)"""
    f = self.fields
    fn = spec_fn_y_i(None, self, X, xs, z, n_acc, f_acc)
    Pinv = precision_inv(f["r_V"], prod_term(f["_V"], self), n_acc)
    sg = sigma_of(self)
    b = Arr((f["r_V"],), lambda r: T.sum_over(Cc * Dd, lambda i: P(f["_V"].fn(i, r)) / sg(i) * P(fn.fn(i)), "i"))
    return Arr((f["r_V"],), lambda r: Sum(f["r_V"], lambda s: P(Pinv.fn(r, s)) * P(b.fn(s)), "s"))


def spec_block_x(self, X, y, z):
    """x_h* = (I + Σ_c N_hc U_c'S_c^-1U_c)^-1 U'S^-1 (F_h - N_h(m + D z + V y)) for every session h"""
    f = self.fields
    H = X.slen()
    UP = prod_term(f["_U"], self)
    sg = sigma_of(self)

    def col(h):
        s = X.elem(h)
        fn = spec_fn_x_ih(None, self, s, latent_z_i=z, latent_y_i=y)
        Pinv = precision_inv(f["r_U"], UP, s.fields["n"])
        b = lambda q: T.sum_over(Cc * Dd, lambda i: P(f["_U"].fn(i, q)) / sg(i) * P(fn.fn(i)), "i")
        return lambda r: Sum(f["r_U"], lambda q: P(Pinv.fn(r, q)) * b(q), "s")
    return Arr((f["r_U"], H), lambda r, h: col(h)(r))


def spec_block_z(self, X, xs, y, n_acc, f_acc):
    """z* = (D/S)(F - N(m + V y) - Σ_h N_h U x_h) / (1 + D^2 N / S) elementwise"""
    f = self.fields
    fn = spec_fn_z_i(None, self, X, xs, y, n_acc, f_acc)
    sg = sigma_of(self)
    return Arr((Cc * Dd,), lambda i: P(f["_D"].fn(i)) / sg(i) * P(fn.fn(i)) / (ONE + P(f["_D"].fn(i)) ** 2 * P(n_acc.fn(cd(i)[0])) / sg(i)))
