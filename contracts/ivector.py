"""Sidecar contracts for src/bob/learn/em/ivector.py (DESIGN §4.4)."""
from vt import terms as T
from vt.terms import Poly, P, C, ZERO, ONE, Sum
from vt import arr as A
from vt.arr import Arr, input_arr
from vt.values import Obj, SList, PyRaise
from vt import npmodel as N
from vt.smt import Facts
from vt import contract as K
from contracts import gmm as G

Rr = T.sym("R", "int")
Jj = T.sym("J", "int")


def facts():
    F = G.facts(dims={"R", "J", "B"})
    F.pos_apps |= {"sig", "vu", "wu"}
    F.nonneg_apps |= {"sN", "N1"}
    F.pos_syms |= {"floor"}
    return F


def mk_machine(I, update_sigma=True, trained=True):
    m = Obj(I.classes["IVectorMachine"])
    ubm = G.mk_gmm(I, "u")
    m.fields.update(ubm=ubm, dim_t=Rr, convergence_threshold=None, max_iterations=1, update_sigma=update_sigma,
                    dim_c=G.Cc if trained else None, dim_d=G.Dd if trained else None, variance_floor=T.sym("floor"),
                    T=input_arr("Tm", (G.Cc, G.Dd, Rr)) if trained else None, sigma=input_arr("sig", (G.Cc, G.Dd)) if trained else None)
    return m


def mk_one_stats(I, tag="1"):
    s = Obj(I.classes["GMMStats"])
    s.fields.update(n_gaussians=G.Cc, n_features=G.Dd, log_likelihood=T.sym("ll" + tag), t=T.sym("t" + tag, "int"),
                    n=input_arr("N" + tag, (G.Cc,)), sum_px=input_arr("F" + tag, (G.Cc, G.Dd)), sum_pxx=input_arr("S" + tag, (G.Cc, G.Dd)))
    return s


def mk_stats_list(I, n=Jj, off=None):
    ci = I.classes["GMMStats"]
    off = off or (lambda j: j)

    def elem(j):
        g = off(j)
        s = Obj(ci)
        s.fields.update(n_gaussians=G.Cc, n_features=G.Dd, log_likelihood=T.app("sll", g), t=T.app("sT", g, sort="int"),
                        n=Arr((G.Cc,), lambda c: T.app("sN", g, c)), sum_px=Arr((G.Cc, G.Dd), lambda c, d: T.app("sF", g, c, d)),
                        sum_pxx=Arr((G.Cc, G.Dd), lambda c, d: T.app("sS", g, c, d)))
        return s
    return SList(n, elem)


def A_term(st, Tm, sig):
    """posterior precision I + Σ_c N_c T_c' S_c^-1 T_c"""
    R = Tm.shape[2]
    n = st.fields["n"]
    return Arr((R, R), lambda t, u: T.mk_ind(T.cmp_cond("==", t, u)) + Sum(Tm.shape[0], lambda c: P(n.fn(c)) * Sum(
        Tm.shape[1], lambda d: P(Tm.fn(c, d, t)) * P(Tm.fn(c, d, u)) / P(sig.fn(c, d)), "d"), "c"))


def b_term(means, st, Tm, sig):
    n, Fx = st.fields["n"], st.fields["sum_px"]
    return Arr((Tm.shape[2],), lambda t: Sum(Tm.shape[0], lambda c: Sum(
        Tm.shape[1], lambda d: P(Tm.fn(c, d, t)) * (P(Fx.fn(c, d)) - P(n.fn(c)) * P(means.fn(c, d))) / P(sig.fn(c, d)), "d"), "c"))


def spec_compute_id_tt_sigma_inv_t(ctx, stats, T_, sigma):
    return A_term(stats, T_, sigma)


def spec_compute_tt_sigma_inv_fnorm(ctx, ubm_means, stats, T_, sigma):
    return b_term(ubm_means, stats, T_, sigma)


def spec_project(ctx, self, stats):
    f = self.fields
    Am = A_term(stats, f["T"], f["sigma"])
    b = b_term(G.need(f["ubm"], "_means"), stats, f["T"], f["sigma"])
    return A.matmul(N.minv(Am), b)


def capture(machine):
    """the parameters an E-step reads, captured NOW (specifications are lazy closures)"""
    f = machine.fields
    return (f["T"], f["sigma"], G.need(f["ubm"], "_means"))


def post_terms(machine, sample):
    Tm, sig, means = machine if isinstance(machine, tuple) else capture(machine)
    Phi = N.minv(A_term(sample, Tm, sig))
    w = A.matmul(Phi, b_term(means, sample, Tm, sig))
    return Phi, w, means


def spec_e_step(ctx, machine, data):
    I = G.ctx_interp(ctx)
    f = machine.fields
    Cn, Dn, Rn = f["dim_c"], f["dim_d"], f["dim_t"]
    J = data.slen() if isinstance(data, SList) else Poly.const(len(data))
    el = data.elem if isinstance(data, SList) else (lambda j: data[P(j).as_int()])
    cap = capture(machine)
    means = cap[2]

    def per(j):
        s = el(j)
        Phi, w, _ = post_terms(cap, s)
        return s.fields, Phi, w
    st = Obj(I.classes["IVectorStats"])
    if not isinstance(data, SList):
        def S_(fn_):
            t = ZERO
            for j in range(len(data)):
                t = t + fn_(Poly.const(j))
            return t
    else:
        S_ = lambda fn_: Sum(J, fn_, "j")
    st.fields.update(
        dim_c=Cn, dim_d=Dn, dim_t=Rn,
        nij=Arr((Cn,), lambda c: S_(lambda j: P(per(j)[0]["n"].fn(c)))),
        snormij=Arr((Cn, Dn), lambda c, d: S_(lambda j: P(per(j)[0]["sum_pxx"].fn(c, d)) - 2 * P(per(j)[0]["sum_px"].fn(c, d)) * P(means.fn(c, d))
                                                + P(per(j)[0]["n"].fn(c)) * P(means.fn(c, d)) ** 2)),
        nij_sigma_wij2=Arr((Cn, Rn, Rn), lambda c, t, u: S_(lambda j: P(per(j)[0]["n"].fn(c)) * (P(per(j)[1].fn(t, u)) + P(per(j)[2].fn(t)) * P(per(j)[2].fn(u))))),
        fnorm_sigma_wij=Arr((Cn, Dn, Rn), lambda c, d, t: S_(lambda j: (P(per(j)[0]["sum_px"].fn(c, d)) - P(per(j)[0]["n"].fn(c)) * P(means.fn(c, d)))
                                                                 * P(per(j)[2].fn(t)))),
    )
    return st


def mk_ivstats(I, tag=""):
    st = Obj(I.classes["IVectorStats"])
    st.fields.update(dim_c=G.Cc, dim_d=G.Dd, dim_t=Rr, nij=input_arr("nij" + tag, (G.Cc,)), snormij=input_arr("snorm" + tag, (G.Cc, G.Dd)),
                     nij_sigma_wij2=input_arr("nsw" + tag, (G.Cc, Rr, Rr)), fnorm_sigma_wij=input_arr("fsw" + tag, (G.Cc, G.Dd, Rr)))
    return st


def spec_stats_add(ctx, self, other, inplace=False):
    same = T.c_and(*[T.cmp_cond("==", P(self.fields[k]), P(other.fields[k])) for k in ("dim_c", "dim_d", "dim_t")])
    if not ctx.holds(same):
        raise PyRaise("ValueError", "Cannot add stats of different shapes")
    I = G.ctx_interp(ctx)
    r = self if inplace else Obj(I.classes["IVectorStats"])
    vals = {k: self.fields[k] + other.fields[k] for k in ("nij_sigma_wij2", "fnorm_sigma_wij", "snormij", "nij")}
    if not inplace:
        r.fields.update(dim_c=self.fields["dim_c"], dim_d=self.fields["dim_d"], dim_t=self.fields["dim_t"])
    r.fields.update(vals)
    return r


def spec_stats_iadd(ctx, self, other):
    return spec_stats_add(ctx, self, other, inplace=True)


def nonzero_cond(nsw, c):
    """A[c].any(): some entry of the component's second-moment accumulator is non-zero"""
    Rn = nsw.shape[1]
    return T.cmp_cond("!=", Sum(Rn, lambda i: Sum(Rn, lambda j: T.mk_ind(T.cmp_cond("!=", P(nsw.fn(c, j, i)), ZERO)), "j"), "i"), ZERO)


def spec_m_step(ctx, machine, stats):
    """T'_c solves T'_c E[N w w']_c = E[Fnorm w']_c (zero matrix for a component without data);
    sigma' = max(floor, (Snorm - diag(E[Fnorm w'] T'_c')) / N) where the count is positive,
    the previous sigma where the component has no data"""
    f, s = machine.fields, stats.fields
    nsw, fsw = s["nij_sigma_wij2"], s["fnorm_sigma_wij"]
    Cn, Dn, Rn = fsw.shape
    At = Arr((Cn, Rn, Rn), lambda c, i, j: P(nsw.fn(c, j, i)))
    Ainv = N.minv(At)
    anyc = T.cmp_cond("!=", Sum(Cn, lambda c: T.mk_ind(nonzero_cond(nsw, c)), "c"), ZERO)
    try:
        some = ctx.holds(anyc)
    except K.SpecUndetermined:
        some = True          # the code does not branch on "some component has data": the elementwise form covers both cases
    if some:
        X = Arr((Cn, Rn, Dn), lambda c, t, d: T.mk_ite(nonzero_cond(nsw, c), Sum(Rn, lambda k: P(Ainv.fn(c, t, k)) * P(fsw.fn(c, d, k)), "k"), ZERO))
    else:
        X = A.const_arr((Cn, Rn, Dn), 0)
    f["T"] = Arr((Cn, Dn, Rn), lambda c, d, t: P(X.fn(c, t, d)))
    if f["update_sigma"]:
        old = f["sigma"]
        fl = P(f["variance_floor"])
        new = Arr((Cn, Dn), lambda c, d: (P(s["snormij"].fn(c, d)) - Sum(Rn, lambda t: P(fsw.fn(c, d, t)) * P(X.fn(c, t, d)), "t")) / P(s["nij"].fn(c)))
        f["sigma"] = Arr((Cn, Dn), lambda c, d: T.mk_ite(T.cmp_cond("<", ZERO, P(s["nij"].fn(c))), T.mk_max(P(new.fn(c, d)), fl), T.mk_max(P(old.fn(c, d)), fl)))
    return machine
