"""C06 -- k-means training descends the true distortion and stops by its stated rule."""
import z3

from vt import terms as T
from vt.terms import Poly, P, C, ZERO, ONE, Sum, Red
from vt import arr as A
from vt.arr import Arr, input_arr
from vt.values import Obj, SList, PyRaise
from vt import contract as K
from vt.verify import Clause
from vt import verify as V
from vt import smt
from contracts import kmeans as KM
from props.common import new_interp, collapse, guard
from props import loopvc
from props.loopvc import RowChunks

FUNCTIONS = ["kmeans.e_step", "kmeans.m_step", "kmeans.get_centroids_distance (by contract)", "kmeans.get_closest_centroid_index (by contract)",
             "kmeans.KMeansMachine.fit (loop skeleton, both branches)", "kmeans.KMeansMachine.initialize (k_init trusted)"]

KC = {"kmeans.get_centroids_distance": KM.spec_get_centroids_distance,
      "kmeans.get_closest_centroid_index": KM.spec_get_closest_centroid_index}


def estep(ctx):
    I = new_interp(KC)
    F = KM.facts()
    cl = K.check_function(I, "kmeans.e_step", lambda: ([KM.mk_data(), KM.mk_means()], {}), KM.spec_e_step, F, "C06.e")
    # centroids given as an INTEGER array (explicit init_method): statistics must still be exact
    I = new_interp(KC)
    cl += K.check_function(I, "kmeans.e_step", lambda: ([KM.mk_data(), input_arr("cen", (KM.Kk, KM.Dd), dtype="int")], {}), KM.spec_e_step, F, "C06.e.intcentroids")
    I = new_interp(KC)
    cli = K.check_function(I, "kmeans.e_step", lambda: ([KM.mk_data(intdata=True), KM.mk_means()], {}), KM.spec_e_step, F, "C06.e.intdata")
    out0 = collapse(cli, "C06.estep.intdata", "integer-typed samples: same statistics, nothing computed in the samples' own integer dtype")
    out = out0 + collapse([c for c in cl if "result[0]" in c.name or "result[1]" in c.name], "C06.assign",
                   "per-block counts and sums are those of the samples whose nearest centroid (argmin of the squared distances) is k")
    out += collapse([c for c in cl if "result[2]" in c.name], "C06.estep.criterion", "third component == mean over the block of min_k distance")
    out += collapse([c for c in cl if "result[" not in c.name], "C06.estep.frame", "inputs unchanged, definedness")
    return out


def initialize(ctx):
    """KMeansMachine.initialize with explicit starting centroids: the machine starts from exactly those centroids (k_init by its
    trusted contract hands an array back as given), whatever the dtype of the training data; data and init array unchanged"""
    out = []
    for label, mk in (("float", lambda: KM.mk_data()), ("int64data", lambda: input_arr("x", (KM.Nn, KM.Dd), dtype="int")),
                      ("dask", lambda: KM.mk_data(kind="dask"))):
        I = new_interp()

        def build(mk=mk):
            c0 = input_arr("c0", (KM.Kk, KM.Dd))
            return [KM.mk_kmeans(I, centroids=False, init_method=c0), mk()], {}

        def spec(ctx_, m, data):
            m.fields["centroids_"] = m.fields["init_method"]
            return None
        cl = K.check_function(I, "kmeans.KMeansMachine.initialize", build, spec, KM.facts(), "C06.initialize." + label, structural=False)
        out += cl
    return collapse(out, "C06.initialize", "explicit starting centroids are taken over exactly (float, integer-typed and Dask training data)")


def mstep(ctx):
    out = []
    for label in ("one", "blocks"):
        I = new_interp()

        def build(label=label):
            if label == "one":
                return [[(input_arr("z", (KM.Kk,), dtype="int"), input_arr("f", (KM.Kk, KM.Dd)), T.sym("a"))], KM.Nn], {}
            nb = T.sym("B", "int")
            return [SList(nb, lambda b: (Arr((KM.Kk,), lambda k: T.app("zb", b, k, sort="int"), "int"),
                                         Arr((KM.Kk, KM.Dd), lambda k, d: T.app("fb", b, k, d)), T.app("ab", b))), KM.Nn], {}
        cl = K.check_function(I, "kmeans.m_step", build, KM.spec_m_step, KM.facts(), "C06.m." + label, structural=False)
        out += [c for c in cl if ".def" not in c.name]     # division by an empty cluster's count: C13
    cen = [c for c in out if "result[0]" in c.name]
    crit = [c for c in out if "result[1]" in c.name]
    rest = [c for c in out if c not in cen + crit]
    return collapse(cen, "C06.centroid", "centroids' = Σ_blocks sums / Σ_blocks counts") + \
        collapse(crit, "C06.mstep.criterion", "criterion = Σ_blocks (block mean x block size) / n_samples") + \
        collapse(rest, "C06.mstep.frame", "statistics unchanged")


def lemmas(ctx):
    """contract-level lemmas: the composed criterion is the mean over ALL samples of the
    squared distance to the nearest centroid for every row partition; centroid = mean of
    the assigned samples; the two descent inequalities"""
    out = []
    F = KM.facts()
    x, mu = KM.mk_data(), KM.mk_means()
    ch = RowChunks(KM.Nn)
    blocks = ch.blocks(x)
    stats = SList(blocks.length, lambda b: KM.spec_e_step(None, blocks.elem(b), mu))
    means_b, crit_b = KM.spec_m_step(None, stats, KM.Nn)
    true_crit = Sum(KM.Nn, lambda s: KM.mindist_term(x, mu, s), "s") / KM.Nn
    V.compare_terms(P(crit_b), true_crit, F, "C06.crit.blocks", out)
    means_1, crit_1 = KM.spec_m_step(None, [KM.spec_e_step(None, x, mu)], KM.Nn)
    V.compare_terms(P(crit_1), true_crit, F, "C06.crit.whole", out)
    k, d = T.fresh("k"), T.fresh("d")
    ind = lambda s, kk: T.mk_ind(T.cmp_cond("==", KM.assign_term(x, mu, s), kk))
    cnt = Sum(KM.Nn, lambda s: ind(s, k), "s")
    xbar = Sum(KM.Nn, lambda s: ind(s, k) * P(x.fn(s, d)), "s") / cnt
    V.compare_terms(P(means_1.fn(k, d)), xbar, F, "C06.centroid.mean.whole", out)
    V.compare_terms(P(means_b.fn(k, d)), xbar, F, "C06.centroid.mean.blocks", out)
    # descent (centroid step): Σ_{s in k}(x - m)^2 = Σ_{s in k}(x - xbar)^2 + cnt (xbar - m)^2  for every m
    m = T.sym("m_any")
    lhs = Sum(KM.Nn, lambda s: ind(s, k) * (P(x.fn(s, d)) - m) ** 2, "s")
    rhs = Sum(KM.Nn, lambda s: ind(s, k) * (P(x.fn(s, d)) - xbar) ** 2, "s") + cnt * (xbar - m) ** 2
    V.compare_terms(lhs, rhs, F, "C06.descent.centroid.identity", out)
    # descent (assignment step): min_k d(k,s) <= d(a,s) for every a  -- contract of min
    kk, mn, da = z3.Int("a"), z3.Real("minval"), z3.Function("dist", z3.IntSort(), z3.RealSort())
    s_ = z3.Solver()
    jj = z3.Int("jj")
    s_.add(z3.ForAll([jj], z3.Implies(z3.And(jj >= 0, jj < z3.Int("K")), mn <= da(jj))), kk >= 0, kk < z3.Int("K"), z3.Not(mn <= da(kk)))
    out.append(Clause("C06.descent.assign", "discharged" if s_.check() == z3.unsat else "undecided", "z3",
                      "the minimum over centroids is <= the distance to any other assignment, summed over samples"))
    res = collapse(out[:2], "C06.crit", "reported criterion == (1/n) Σ_s min_k ||x_s - c_k||^2 over all samples, for every row partition")
    res += collapse(out[2:4], "C06.centroid.mean", "every returned centroid is the arithmetic mean of the samples nearest to its predecessor")
    res += collapse(out[4:5], "C06.descent.centroid", "Σ(x-m)^2 = Σ(x-mean)^2 + cnt (mean-m)^2 >= Σ(x-mean)^2")
    res += out[5:]
    return res


def loop_cfg(has_thr, has_max):
    def run(ctx):
        return loopvc.kmeans_fit_loop("C06", has_thr, has_max)
    run.__name__ = "loop_%s_%s" % ("thr" if has_thr else "nothr", "max" if has_max else "nomax")
    return run


GROUPS = [guard(initialize), guard(estep), guard(mstep), guard(lemmas), guard(loop_cfg(True, True)), guard(loop_cfg(True, False)), guard(loop_cfg(False, True))]
SHARED = [("C20", "dist", ["C20.dist.ndarray", "C20.dist.dask"]), ("C20", "predict", ["C20.predict"])]   # leaf contracts used at e_step's call sites
REPLAY = [("C06.loop.body", "kmeans_repro.py", "criterion", {}), ("C06.initialize", "kmeans_repro.py", "criterion", {}), ("C06.loop", "kmeans_repro.py", "fit_loop", {}), ("C06", "kmeans_repro.py", "criterion", {}), ("C20", "kmeans_repro.py", "dist", {})]
TRUSTED = ["np.argmin / np.min contracts; np.bincount contract; scipy cdist contract", "dask_ml k_init returns the initial centroids (opaque)",
           "Dask contract (DESIGN §3)"]
ASSUMPTIONS = ["every cluster keeps at least one sample (as in the property statement)", "previous criterion non-zero in the convergence test"]
XCHECK = ['kmeans']
