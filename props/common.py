"""Shared helpers for the per-property obligation modules."""
import os
from vt.interp import PathsExceeded
import time

from vt import terms as T
from vt.terms import Poly, P, C, ZERO, ONE
from vt.arr import Arr, ModelError, ShapeError
from vt.values import Obj, SList, PyRaise
from vt.interp import Interp
from vt import contract as K
from vt import verify as V
from vt.verify import Clause
from vt import smt


def new_interp(contracts=None, **kw):
    """a fresh interpreter over /repo's current working tree, with the given
    call-site contracts installed (qualname -> spec)"""
    I = Interp(**kw)
    from contracts import gmm as G
    G._INTERP[0] = I
    for qn, spec in (contracts or {}).items():
        I.contracts[qn] = K.as_contract(spec)
    return I


def rename(clauses, mapping=None, prefix_from=None, prefix_to=None):
    for c in clauses:
        if prefix_from and c.name.startswith(prefix_from):
            c.name = prefix_to + c.name[len(prefix_from):]
    return clauses


def collapse(clauses, name, note=""):
    """merge sub-clauses into one obligation: discharged iff all are; otherwise
    the failing ones are kept (renamed under the obligation)"""
    clauses = [Clause(c.name, c.status, c.backend, c.detail, c.witness, c.secs) for c in clauses]
    bad = [c for c in clauses if c.status != "discharged"]
    if not clauses:
        return [Clause(name, "undecided", "", "no clause generated")]
    if not bad:
        backends = "+".join(sorted(set(c.backend for c in clauses if c.backend)))
        return [Clause(name, "discharged", backends, (note + " " if note else "") + "[%d clauses: %s]" % (
            len(clauses), ", ".join(c.name.split(".")[-1] for c in clauses[:8])), secs=sum(c.secs for c in clauses))]
    for c in bad:
        c.detail = "[%s] %s" % (c.name, c.detail)
        c.name = name
    # one clause per obligation id: keep the most severe
    bad.sort(key=lambda c: 0 if c.status == "refuted" else 1)
    first = bad[0]
    if len(bad) > 1:
        first.detail += " (+%d more failing clauses: %s)" % (len(bad) - 1, "; ".join(b.detail[:160] for b in bad[1:4]))
    return [first]


def guard(fn):
    """run an obligation group, turning engine exceptions into 'undecided' (named <property>.<group> so that the
    replay table of the property applies to it)"""
    cname = "%s.%s" % ((fn.__module__ or "").split(".")[-1], fn.__name__)

    def run(ctx):
        try:
            return fn(ctx)
        except (ModelError, ShapeError) as e:
            # (a shape error here means the fixture of an obligation on an INTERNAL function no longer fits that function's interface)
            return [Clause(cname, "undecided", "", "%s: %s" % (type(e).__name__, e))]
        except PathsExceeded:
            return [Clause(cname, "undecided", "", "engine limit: more execution paths than the exploration budget")]
        except RecursionError:
            return [Clause(cname, "undecided", "", "engine limit: term construction exceeded the recursion limit")]
        except (KeyError, AttributeError, TypeError, IndexError, ValueError) as e:
            # the obligation generator itself could not cope with the shape of the code (a renamed private field, a changed
            # signature, ...): nothing is decided by that; the native replay search still gets its turn
            import traceback
            return [Clause(cname, "undecided", "", "obligation generator limit: %s: %s [%s]" % (type(e).__name__, e, traceback.format_exc()[-300:].replace("\n", " | ")))]
    run.__name__ = fn.__name__
    return run


def bounded(script, mode, name, note, params=None):
    """a Tier-B (bounded) check: the real code run by the objrun engine over a finite grid of shapes;
    reported under coverage.bounded_checks, never counted as discharged"""
    def run(ctx):
        from vt import replay as R
        os.environ["VERIF_TIER"] = getattr(ctx, "tier", "quick") if ctx is not None else "quick"
        t0 = time.time()
        r = R.run_script(script, mode, params or {}, getattr(ctx, "seed", 0) if ctx is not None else 0, timeout=1500)
        dt = time.time() - t0
        if r.get("reproduced"):
            return [Clause(name, "refuted", "objrun", "%s -- %s" % (note, r.get("what", "")), witness={k: r.get(k) for k in ("shape", "machine", "iterations", "observed", "expected", "phase", "partitions", "scheduler") if k in r}, secs=dt)]
        if r.get("harness_error") or r.get("error") or "cases" not in r:
            return [Clause(name, "undecided", "objrun", "harness problem: %s" % (r.get("what") or r.get("error") or r)[:600], secs=dt)]
        return [Clause(name, "discharged", "objrun(bounded)", "%s [%d cases on the shape grid, exact rationals / stated tolerance]" % (note, r.get("cases", 0)), secs=dt)]
    run.__name__ = "bounded_" + mode
    return run
