"""Verification conditions for the EM training loops (DESIGN Appendix C).

The loop of the real ``fit`` is executed once from a *generic* loop-head state
(step = k, criterion = L(k), machine = arbitrary valid state) with its callees
replaced by their contracts; the guard, the step update, the state transition
and the condition under which ``break`` is taken are extracted from that
execution.  The invariant VCs are then generated from the extracted
predicates and discharged by z3 with the criterion sequence L: N -> R
uninterpreted."""
import z3

from vt import terms as T
from vt.terms import Poly, P, C, ZERO, ONE, Sum
from vt import arr as A
from vt.arr import Arr, input_arr, ModelError
from vt.values import Obj, SList, PyRaise
from vt.interp import _Break, _Continue
from vt import contract as K
from vt.verify import Clause
from vt import verify as V
from vt import smt
from contracts import gmm as G
from props.common import new_interp, collapse


class LoopDone(Exception):
    pass


class RowChunks:
    """an arbitrary partition of the rows of a Dask array into consecutive
    blocks, every block carrying all columns (DESIGN §3, to_delayed contract)"""

    def __init__(self, total, prefix="rows"):
        self.tag, self.nb, self.sz, self.off = T.new_partition(total, prefix)

    def blocks(self, a):
        sz, off = self.sz, self.off
        rest = a.shape[1:]
        return SList(self.nb, lambda b: Arr((sz(b),) + rest, lambda j, *r: a.fn(off(b) + j, *r), a.dtype, "numpy"))


def probe_hook(rec, stepvar, critvar):
    """loop hook: run one generic iteration and record what happened"""
    def hook(I, s, env):
        rec["init"] = {stepvar: env.lookup(stepvar), critvar: env.lookup(critvar)}
        k = T.sym("k", "int")
        Lk = T.sym("Lk")
        env.local[stepvar] = k
        env.local[critvar] = Lk
        I.assumed.add(T.cmp_cond("<=", ZERO, k))
        n0 = len(I.path)
        g = I.ev(s.test, env)
        rec["guard"] = g
        if not I.truth(g):
            rec["outcome"] = "exit"
            rec["guard_path"] = list(I.path[n0:])
            I.exec_block(s.orelse, env)
            raise LoopDone()
        rec["guard_path"] = list(I.path[n0:])
        n1 = len(I.path)
        try:
            I.exec_block(s.body, env)
            rec["outcome"] = "continue"
        except _Break:
            rec["outcome"] = "break"
        except _Continue:
            rec["outcome"] = "continue"
        rec["body_path"] = list(I.path[n1:])
        rec["post"] = {stepvar: env.lookup(stepvar), critvar: env.lookup(critvar)}
        rec["env"] = env
        raise LoopDone()
    return hook


def mk_tr(mapping, F):
    """translator with selected symbols mapped to given z3 expressions"""
    tr = smt.Tr(F)
    for name, (expr, sort) in mapping.items():
        a = T.Atom("sym", (name,), sort)
        tr.cache[a] = expr
    return tr


def generic_vcs(prefix, guards, breaks, conts, has_thr, has_max, out, axioms=()):
    """guards: list of (z3 guard(k)) ; breaks / conts: z3 disjunction of the path
    conditions under which the body breaks / continues, over k, L(k), L(k+1)."""
    k, j, M = z3.Int("s_k"), z3.Int("j"), z3.Int("s_max_steps")
    thr = z3.Real("s_conv_thr")
    L = z3.Function("L", z3.IntSort(), z3.RealSort())

    def stop(i):
        if not has_thr:
            return z3.BoolVal(False)
        d = (L(i - 1) - L(i)) / L(i - 1)
        return z3.If(d >= 0, d, -d) <= thr

    def no_stop_upto(n):
        return z3.ForAll([j], z3.Implies(z3.And(2 <= j, j <= n), z3.Not(stop(j))))
    nz = z3.ForAll([j], z3.Implies(j >= 1, L(j) != 0))
    inv = lambda n: z3.And(n >= 0, (n <= M) if has_max else True, no_stop_upto(n))
    guard, brk, cont = guards, breaks, conts
    pre = [nz, M >= 0] + list(axioms)
    vcs = {
        "preserve": z3.Implies(z3.And(inv(k), guard, cont), inv(k + 1)),
        "break-post": z3.Implies(z3.And(inv(k), guard, brk),
                                 z3.And(k + 1 >= 2, stop(k + 1), no_stop_upto(k), (k + 1 <= M) if has_max else True)),
        "exhaust-post": z3.Implies(z3.And(inv(k), z3.Not(guard)),
                                   z3.And(has_max, k == M, no_stop_upto(M)) if has_max else False),
        "total": z3.Implies(z3.And(inv(k), guard), z3.Or(brk, cont)),
    }
    for name, vc in vcs.items():
        s = z3.Solver()
        s.set("timeout", 20000)
        for p in pre:
            s.add(p)
        s.add(z3.Not(vc))
        import time
        t0 = time.time()
        r = s.check()
        dt = time.time() - t0
        smt.STATS["z3_calls"] += 1
        smt.STATS["z3_s"] += dt
        if r == z3.unsat:
            out.append(Clause("%s.loop.%s" % (prefix, name), "discharged", "z3", secs=dt))
        else:
            # z3 answers 'unknown' when asked to refute a quantified goal: look for a model of
            # the quantifier-free instantiation (j in k-1..k+1) -- only to report, never to pass
            s2 = z3.Solver()
            s2.set("timeout", 10000)
            for p in pre[1:]:
                s2.add(p)
            inst = z3.substitute(z3.Not(vc))
            s2.add(inst)
            for jj in range(0, 6):
                s2.add(L(jj) != 0)
            r2 = s2.check()
            detail = "z3: %s" % r
            wit = None
            status = "refuted" if (r == z3.sat or r2 == z3.sat) else "undecided"
            if r2 == z3.sat:
                mdl = s2.model()
                wit = {"model": {str(d): str(mdl[d]) for d in mdl.decls()}}
            out.append(Clause("%s.loop.%s" % (prefix, name), status, "z3", detail, witness=wit, secs=dt))


NOTES = (("init", "step = 0 before the loop; the criterion variable is not read before the second iteration"),
         ("body", "one iteration: step' = step + 1; (machine', criterion') = EM(machine, X) identically on the NumPy branch, "
                  "the Dask branch with shared objects and the Dask branch with isolated (copied) task arguments; "
                  "guard == (max is None or step < max)"),
         ("preserve", "Inv(k) ∧ guard ∧ ¬break ⇒ Inv(k+1)"),
         ("break-post", "break taken ⇒ k+1 is the least j >= 2 with |(L(j-1)-L(j))/L(j-1)| <= thr, and k+1 <= max"),
         ("exhaust-post", "guard false ⇒ step = max and no earlier iteration met the stopping test"),
         ("total", "every iteration either breaks or continues (paths cover the guard)"))


def gmm_fit_loop(prefix, trainer="ml", has_thr=True, has_max=True):
    sub = []
    one_config(prefix, trainer, has_thr, has_max, sub)
    tag = "[thr=%s,max=%s]" % ("set" if has_thr else "None", "set" if has_max else "None")
    res = []
    for nm, note in NOTES:
        sel = [c for c in sub if c.name == "%s.loop.%s" % (prefix, nm)]
        res += collapse(sel, "%s.loop.%s%s" % (prefix, nm, tag), note)
    return res


def one_config(prefix, trainer, has_thr, has_max, out):
    F = G.facts(extra_pos_syms={"t"})
    F.conds.append(T.cmp_cond("<=", ZERO, T.sym("k", "int")))
    recs = []
    variants = [("numpy", False), ("dask", False), ("dask", True)]
    for kind, isolated in variants:
        contracts = {"gmm.e_step": G.spec_e_step, "gmm.GMMStats.__iadd__": G.spec_stats_iadd}
        I = new_interp(contracts)
        I.isolated = isolated
        rec = {}
        I.loop_hooks["gmm.GMMMachine.fit"] = probe_hook(rec, "step", "average_output")
        Lnext = T.sym("Lnext")

        def m_step_abs(ctx_, statistics, machine):
            r = G.spec_m_step(ctx_, statistics if not isinstance(statistics, SList) else statistics, machine)
            rec.setdefault("avg_terms", []).append(r[1])
            return (r[0], Lnext)
        I.contracts["gmm.m_step"] = K.as_contract(m_step_abs)
        ubm = G.mk_gmm(I, "0") if trainer == "map" else None
        m = G.mk_gmm(I, trainer=trainer, ubm=ubm, update=(True, True, True))
        if not has_thr:
            m.fields["convergence_threshold"] = None
        if not has_max:
            m.fields["max_fitting_steps"] = None
        x = G.mk_data(kind=kind)
        if kind == "dask":
            x.chunks = RowChunks(G.Nn)
        fit = K.lookup(I, "gmm.GMMMachine.fit")

        def thunk():
            try:
                I.call(fit, [m, x], {})
            except LoopDone:
                pass
            return dict(rec)
        # every path through one iteration
        mstates = []

        def thunk2():
            # fresh machine per path (the body mutates it)
            nonlocal m
            ubm2 = G.mk_gmm(I, "0") if trainer == "map" else None
            m = G.mk_gmm(I, trainer=trainer, ubm=ubm2, update=(True, True, True))
            if not has_thr:
                m.fields["convergence_threshold"] = None
            if not has_max:
                m.fields["max_fitting_steps"] = None
            rec.clear()
            r = thunk()
            r["machine"] = m
            return r
        try:
            paths = I.run_paths(thunk2)
        except ModelError as e:
            out.append(Clause(prefix + ".loop.body", "undecided", "", "%s branch (isolated=%s): %s at %s" % (kind, isolated, e, I.loc)))
            continue
        recs.append((kind, isolated, I, paths))
    if not recs:
        return
    k = T.sym("k", "int")
    # ---- expected transition: EM spec on the whole data
    for kind, isolated, I, paths in recs:
        label = "%s%s" % (kind, "/isolated" if isolated else "")
        for pc, (kk, r) in paths:
            if kk != "ok":
                out.append(Clause(prefix + ".loop.body", "refuted", "npsym", "%s: fit raises %s" % (label, r)))
                continue
            if "init" not in r:
                out.append(Clause(prefix + ".loop.body", "undecided", "", "%s: loop not reached" % label))
                continue
            ini = r["init"]
            ok = ini["step"] == 0 and not isinstance(ini["step"], bool)
            out.append(Clause(prefix + ".loop.init", "discharged" if ok else "refuted", "npsym",
                              "" if ok else "%s: step starts at %r" % (label, ini["step"])))
            if r["outcome"] == "exit":
                continue
            post = r["post"]
            cl = []
            V.compare_terms(P(post["step"]), k + 1, F, prefix + ".loop.body", cl)
            if not T.equal(P(post["average_output"]), T.sym("Lnext")):
                cl.append(Clause(prefix + ".loop.body", "refuted", "npsym",
                                 "%s: criterion after the iteration is %r, not the M-step's average" % (label, post["average_output"])))
            # machine' == spec EM(machine, whole X)
            ubm2 = G.mk_gmm(I, "0") if trainer == "map" else None
            ms = G.mk_gmm(I, trainer=trainer, ubm=ubm2, update=(True, True, True))
            if not has_thr:
                ms.fields["convergence_threshold"] = None
            if not has_max:
                ms.fields["max_fitting_steps"] = None
            xs = G.mk_data(kind="numpy")
            st = G.spec_e_step(None, xs, ms)
            exp_avg = G.spec_m_step(None, [st], ms)[1]
            V.compare(r["machine"], ms, F.extend(pc), prefix + ".loop.body.machine", cl)
            for avg in r.get("avg_terms", []):
                V.compare_terms(P(avg), P(exp_avg), F, prefix + ".loop.body.criterion", cl)
            if not r.get("avg_terms"):
                cl.append(Clause(prefix + ".loop.body", "refuted", "npsym", "%s: m_step not called in the iteration" % label))
            for c in cl:
                c.detail = "%s: %s" % (label, c.detail)
                c.name = prefix + ".loop.body"
            out += cl
    # ---- predicates for the VCs from the NumPy branch (all branches must agree on them)
    kz, Lf = z3.Int("s_k"), z3.Function("L", z3.IntSort(), z3.RealSort())
    mapping = {"k": (kz, "int"), "Lk": (Lf(kz), "real"), "Lnext": (Lf(kz + 1), "real")}
    sigs = []
    tr = mk_tr(mapping, F)
    for kind, isolated, I, paths in recs:
        g_true, brk, cont, axioms = [], [], [], tr.axioms
        for pc, (kk, r) in paths:
            if kk != "ok" or "outcome" not in r:
                continue
            gp = T.c_and(*r.get("guard_path", [])) if r.get("guard_path") else T.TRUE
            zg = tr.cond(gp)
            if r["outcome"] == "exit":
                continue
            g_true.append(zg)
            bp = T.c_and(*r.get("body_path", [])) if r.get("body_path") else T.TRUE
            zb = tr.cond(bp)
            (brk if r["outcome"] == "break" else cont).append(z3.And(zg, zb))
        guard = z3.Or(*g_true) if g_true else z3.BoolVal(False)
        sigs.append((kind, isolated, guard, z3.Or(*brk) if brk else z3.BoolVal(False), z3.Or(*cont) if cont else z3.BoolVal(False), axioms))
    kind, isolated, guard, brk, cont, axioms = sigs[0]
    # guard == spec guard
    M = z3.Int("s_max_steps")
    spec_guard = (kz < M) if has_max else z3.BoolVal(True)
    s = z3.Solver()
    for ax in tr.axioms:
        s.add(ax)
    s.add(kz >= 0, z3.Not(guard == spec_guard))
    r = s.check()
    out.append(Clause(prefix + ".loop.body", "discharged" if r == z3.unsat else "refuted", "z3",
                      "guard == (max is None or step < max)" + ("" if r == z3.unsat else " FAILS: model %s" % s.model())))
    for kind2, iso2, g2, b2, c2, ax2 in sigs[1:]:
        s = z3.Solver()
        for ax in tr.axioms:
            s.add(ax)
        s.add(kz >= 0, z3.Not(z3.And(g2 == guard, b2 == brk, c2 == cont)))
        r = s.check()
        out.append(Clause(prefix + ".loop.body", "discharged" if r == z3.unsat else "refuted", "z3",
                          "stopping behaviour of the %s%s branch equals the NumPy branch" % (kind2, "/isolated" if iso2 else "")))
    generic_vcs(prefix, guard, brk, cont, has_thr, has_max, out, axioms=list(tr.axioms))


def kmeans_fit_loop(prefix, has_thr=True, has_max=True):
    from contracts import kmeans as KM
    sub = []
    F = KM.facts()
    F.conds.append(T.cmp_cond("<=", ZERO, T.sym("k", "int")))
    k = T.sym("k", "int")
    recs = []
    for kind, isolated in (("numpy", False), ("dask", False), ("dask", True)):
        I = new_interp({"kmeans.e_step": KM.spec_e_step})
        I.isolated = isolated
        rec = {}
        I.loop_hooks["kmeans.KMeansMachine.fit"] = probe_hook(rec, "step", "distance")
        Lnext = T.sym("Lnext")

        def m_step_abs(ctx_, stats, n_samples, rec=rec):
            r = KM.spec_m_step(ctx_, stats, n_samples)
            rec.setdefault("avg_terms", []).append(r[1])
            rec.setdefault("n_samples", []).append(n_samples)
            return (r[0], Lnext)
        I.contracts["kmeans.m_step"] = K.as_contract(m_step_abs)

        def init_abs(ctx_, self, data):
            self.fields["centroids_"] = KM.mk_means()
        I.contracts["kmeans.KMeansMachine.initialize"] = K.as_contract(init_abs)
        fit = K.lookup(I, "kmeans.KMeansMachine.fit")
        holder = {}

        def thunk(I=I, rec=rec, kind=kind, holder=holder):
            m = KM.mk_kmeans(I, centroids=False)
            if not has_thr:
                m.fields["convergence_threshold"] = None
            if not has_max:
                m.fields["max_iter"] = None
            x = KM.mk_data(kind=kind)
            if kind == "dask":
                x.chunks = RowChunks(KM.Nn)
            rec.clear()
            try:
                I.call(fit, [m, x], {})
            except LoopDone:
                pass
            r = dict(rec)
            r["machine"] = m
            return r
        try:
            paths = I.run_paths(thunk)
        except ModelError as e:
            sub.append(Clause(prefix + ".loop.body", "undecided", "", "%s branch (isolated=%s): %s at %s" % (kind, isolated, e, I.loc)))
            continue
        recs.append((kind, isolated, I, paths))
    for kind, isolated, I, paths in recs:
        label = "%s%s" % (kind, "/isolated" if isolated else "")
        for pc, (kk, r) in paths:
            if kk != "ok":
                sub.append(Clause(prefix + ".loop.body", "refuted", "npsym", "%s: fit raises %s" % (label, r)))
                continue
            if "init" not in r:
                sub.append(Clause(prefix + ".loop.body", "undecided", "", "%s: loop not reached" % label))
                continue
            ini = r["init"]
            ok = ini["step"] == 0 and not isinstance(ini["step"], bool)
            sub.append(Clause(prefix + ".loop.init", "discharged" if ok else "refuted", "npsym", "" if ok else "%s: step starts at %r" % (label, ini["step"])))
            if r["outcome"] == "exit":
                continue
            post = r["post"]
            cl = []
            V.compare_terms(P(post["step"]), k + 1, F, prefix + ".loop.body", cl)
            if not T.equal(P(post["distance"]), T.sym("Lnext")):
                cl.append(Clause(prefix + ".loop.body", "refuted", "npsym", "%s: criterion variable after the iteration is %r, not the M-step's" % (label, post["distance"])))
            m = r["machine"]
            amd = m.fields.get("average_min_distance")
            if not (isinstance(amd, Poly) and T.equal(amd, T.sym("Lnext"))):
                cl.append(Clause(prefix + ".loop.body", "refuted", "npsym", "%s: reported average_min_distance is %r, not the M-step's criterion" % (label, amd)))
            xs, mu = KM.mk_data(), KM.mk_means()
            exp_means, exp_crit = KM.spec_m_step(None, [KM.spec_e_step(None, xs, mu)], KM.Nn)
            V.compare(m.fields["centroids_"], exp_means, F.extend(pc), prefix + ".loop.body.centroids", cl)
            for avg in r.get("avg_terms", []):
                V.compare_terms(P(avg), P(exp_crit), F, prefix + ".loop.body.criterion", cl)
            for ns in r.get("n_samples", []):
                V.compare_terms(P(ns), KM.Nn, F, prefix + ".loop.body.n_samples", cl)
            if not r.get("avg_terms"):
                cl.append(Clause(prefix + ".loop.body", "refuted", "npsym", "%s: m_step not called" % label))
            for c in cl:
                c.detail = "%s: %s" % (label, c.detail)
                c.name = prefix + ".loop.body"
            sub += cl
    if recs:
        kz, Lf = z3.Int("s_k"), z3.Function("L", z3.IntSort(), z3.RealSort())
        mapping = {"k": (kz, "int"), "Lk": (Lf(kz), "real"), "Lnext": (Lf(kz + 1), "real"),
                   "max_steps": (z3.Int("s_max_steps"), "int"), "conv_thr": (z3.Real("s_conv_thr"), "real")}
        tr = mk_tr(mapping, F)
        sigs = []
        for kind, isolated, I, paths in recs:
            g_true, brk, cont = [], [], []
            for pc, (kk, r) in paths:
                if kk != "ok" or "outcome" not in r:
                    continue
                gp = T.c_and(*r.get("guard_path", [])) if r.get("guard_path") else T.TRUE
                zg = tr.cond(gp)
                if r["outcome"] == "exit":
                    continue
                g_true.append(zg)
                bp = T.c_and(*r.get("body_path", [])) if r.get("body_path") else T.TRUE
                zb = tr.cond(bp)
                (brk if r["outcome"] == "break" else cont).append(z3.And(zg, zb))
            sigs.append((kind, isolated, z3.Or(*g_true) if g_true else z3.BoolVal(False),
                         z3.Or(*brk) if brk else z3.BoolVal(False), z3.Or(*cont) if cont else z3.BoolVal(False)))
        kind, isolated, guard, brk, cont = sigs[0]
        M = z3.Int("s_max_steps")
        spec_guard = (kz < M) if has_max else z3.BoolVal(True)
        s = z3.Solver()
        for ax in tr.axioms:
            s.add(ax)
        s.add(kz >= 0, z3.Not(guard == spec_guard))
        r = s.check()
        sub.append(Clause(prefix + ".loop.body", "discharged" if r == z3.unsat else "refuted", "z3",
                          "guard == (max_iter is None or step < max_iter)" + ("" if r == z3.unsat else " FAILS: model %s" % s.model())))
        for kind2, iso2, g2, b2, c2 in sigs[1:]:
            s = z3.Solver()
            for ax in tr.axioms:
                s.add(ax)
            s.add(kz >= 0, z3.Not(z3.And(g2 == guard, b2 == brk, c2 == cont)))
            r = s.check()
            sub.append(Clause(prefix + ".loop.body", "discharged" if r == z3.unsat else "refuted", "z3",
                              "stopping behaviour of the %s%s branch equals the NumPy branch" % (kind2, "/isolated" if iso2 else "")))
        generic_vcs(prefix, guard, brk, cont, has_thr, has_max, sub, axioms=list(tr.axioms))
    tag = "[thr=%s,max=%s]" % ("set" if has_thr else "None", "set" if has_max else "None")
    res = []
    for nm, note in NOTES:
        sel = [c for c in sub if c.name == "%s.loop.%s" % (prefix, nm)]
        res += collapse(sel, "%s.loop.%s%s" % (prefix, nm, tag), note.replace("machine", "centroids"))
    return res


class GridChunks:
    """an arbitrary chunk grid of a 2-d Dask array: consecutive row blocks x
    consecutive column blocks; to_delayed().ravel().tolist() lists the blocks in
    row-major order (DESIGN §3)"""

    def __init__(self, nrows, ncols, prefix="grid"):
        self.rows = RowChunks(nrows, prefix + "r")
        self.ctag, self.ncb, self.csz, self.coff = T.new_partition(ncols, prefix + "c")

    def numblocks(self, a):
        return (self.rows.nb, self.ncb)

    def rechunk(self, spec):
        if spec.get(1) in (-1, None) and set(spec) <= {1}:
            return self.rows          # all columns in one block: a row partition
        raise ModelError("rechunk %r" % (spec,))

    def blocks(self, a):
        rsz, roff, csz, coff, ncb = self.rows.sz, self.rows.off, self.csz, self.coff, self.ncb

        def elem(i):
            rb, cb = T.mk_floordiv(i, ncb), T.mk_mod(i, ncb)
            return Arr((rsz(rb), csz(cb)), lambda j, d: a.fn(roff(rb) + j, coff(cb) + d), a.dtype, "numpy")
        return SList(self.rows.nb * ncb, elem)


def _row_numblocks(self, a):
    return (self.nb,) + (ONE,) * (a.ndim - 1)


def _row_rechunk(self, spec):
    return self


RowChunks.numblocks = _row_numblocks
RowChunks.rechunk = _row_rechunk
