"""Verification conditions for the EM training loops (DESIGN Appendix C).

The loop of the real ``fit`` is executed once from a *generic* loop-head state
(step = k, criterion = L(k), machine = arbitrary valid state) with its callees
replaced by their contracts; the guard, the step update, the state transition
and the condition under which ``break`` is taken are extracted from that
execution.  The invariant VCs are then generated from the extracted
predicates and discharged by z3 with the criterion sequence L: N -> R
uninterpreted."""
import z3

from vt import terms as T
from vt.terms import Poly, P, C, ZERO, ONE, Sum
from vt import arr as A
from vt.arr import Arr, input_arr, ModelError
from vt.values import Obj, SList, PyRaise
from vt.interp import _Break, _Continue
from vt import contract as K
from vt.verify import Clause
from vt import verify as V
from vt import smt
from contracts import gmm as G
from props.common import new_interp, collapse


class LoopDone(Exception):
    pass


class RowChunks:
    """an arbitrary partition of the rows of a Dask array into consecutive
    blocks, every block carrying all columns (DESIGN §3, to_delayed contract)"""

    def __init__(self, total, prefix="rows"):
        self.tag, self.nb, self.sz, self.off = T.new_partition(total, prefix)

    def blocks(self, a):
        sz, off = self.sz, self.off
        rest = a.shape[1:]
        return SList(self.nb, lambda b: Arr((sz(b),) + rest, lambda j, *r: a.fn(off(b) + j, *r), a.dtype, "numpy"))


class GenericProbe:
    """name-independent probe of an EM `while` loop (DESIGN Appendix C).

    first mode   -- the first iteration is run from the real entry state of ``fit``;
    generic mode -- the loop-carried SCALAR state (locals of ``fit`` and fields of ``self``) is replaced at the loop
                    head by templates inferred from the first iteration and CHECKED for inductiveness afterwards:
                      counter   c0 + k      (entry value an integer constant c0, value c0 + 1 after one iteration)
                      criterion L(k)        (holds the M-step's criterion after one iteration)
                      unchanged             (kept)
                      anything else         havoc (a fresh symbol; a VC that mentions it is reported undecided)
                    with k >= 1 completed iterations; arrays of the machine are the generic entry state.
    No variable or field name of the code under verification is assumed."""

    LNEW = "Lnext"

    def __init__(self):
        self.mode = "first"
        self.templates = {}
        self.rec = {}

    @staticmethod
    def scalars(env, selfobj):
        d = {}
        for n, v in env.local.items():
            if isinstance(v, (Poly, int, float)) and not isinstance(v, bool):
                d[("local", n)] = v
        if isinstance(selfobj, Obj):
            for n, v in selfobj.fields.items():
                if isinstance(v, (Poly, int, float)) and not isinstance(v, bool):
                    d[("field", n)] = v
        return d

    @staticmethod
    def same(a, b):
        if isinstance(a, float) or isinstance(b, float):
            return isinstance(a, (int, float)) and isinstance(b, (int, float)) and a == b
        try:
            return T.equal(P(a), P(b))
        except Exception:
            return False

    def infer(self, entry, post):
        """templates from (state at entry, state after the first iteration)"""
        tpl = {}
        for key, v1 in post.items():
            v0 = entry.get(key)
            if v0 is not None and self.same(v0, v1):
                continue
            if isinstance(v1, Poly) and T.equal(v1, T.sym(self.LNEW)):
                tpl[key] = ("crit",)
            elif v0 is not None and not isinstance(v0, float) and P(v0).as_int() is not None and self.same(P(v0) + 1, v1):
                tpl[key] = ("counter", P(v0).as_int())
            else:
                tpl[key] = ("havoc",)
        return tpl

    def value(self, key, t):
        k = T.sym("k", "int")
        if t[0] == "counter":
            return k + t[1]
        if t[0] == "crit":
            return T.sym("Lk")
        return T.sym("hv_%s_%s" % key)

    def __call__(self, I, s, env):
        rec = self.rec
        try:
            selfobj = env.lookup("self")
        except KeyError:
            selfobj = None
        if self.mode == "generic":
            I.assumed.add(T.cmp_cond("<=", ONE, T.sym("k", "int")))
            for key, t in self.templates.items():
                v = self.value(key, t)
                if key[0] == "local":
                    env.local[key[1]] = v
                else:
                    selfobj.fields[key[1]] = v
        rec["entry"] = self.scalars(env, selfobj)
        n0 = len(I.path)
        g = I.ev(s.test, env)
        rec["guard"] = g
        if not I.truth(g):
            rec["outcome"] = "exit"
            rec["guard_path"] = list(I.path[n0:])
            I.exec_block(s.orelse, env)
            raise LoopDone()
        rec["guard_path"] = list(I.path[n0:])
        n1 = len(I.path)
        try:
            I.exec_block(s.body, env)
            rec["outcome"] = "continue"
        except _Break:
            # a break before this iteration's M-step leaves the loop without a step: the same as a false guard
            rec["outcome"] = "break" if rec.get("avg_terms") else "exit"
        except _Continue:
            rec["outcome"] = "continue"
        rec["body_path"] = list(I.path[n1:])
        rec["post"] = self.scalars(env, selfobj)
        rec["env"] = env
        raise LoopDone()

    def inductive(self, r, F, label, cl, name):
        """the templates are preserved by one generic iteration"""
        k = T.sym("k", "int")
        post, entry = r["post"], r["entry"]
        for key, t in self.templates.items():
            if t[0] == "havoc":
                continue
            exp = (k + 1 + t[1]) if t[0] == "counter" else T.sym(self.LNEW)
            got = post.get(key)
            what = "%s %s" % key
            if got is None or isinstance(got, float):
                cl.append(Clause(name, "refuted", "npsym", "%s: loop-carried %s is %r after a generic iteration" % (label, what, got)))
                continue
            sub = []
            V.compare_terms(P(got), exp, F, name, sub)
            for c in sub:
                c.detail = "%s: %s after the iteration (%s) %s" % (label, what, "counter + 1" if t[0] == "counter" else "the M-step's criterion", c.detail)
            cl += sub
        for key, v0 in entry.items():
            if key in self.templates:
                continue
            v1 = post.get(key)
            if v1 is None or not self.same(v0, v1):
                cl.append(Clause(name, "refuted", "npsym", "%s: %s %s changes in a later iteration (%r -> %r) although the first iteration left it unchanged"
                                 % ((label,) + key + (v0, v1))))

    def havoc_names(self):
        return ["hv_%s_%s" % key for key, t in self.templates.items() if t[0] == "havoc"]


def run_probe(I, probe, thunk, key):
    """first-iteration paths, template inference, generic-iteration paths"""
    I.loop_hooks[key] = probe
    probe.mode = "first"
    first = I.run_paths(thunk)
    cont = [r for pc, (kk, r) in first if kk == "ok" and r.get("outcome") == "continue"]
    if not cont:
        cont = [r for pc, (kk, r) in first if kk == "ok" and r.get("outcome") == "break"]
    probe.templates = probe.infer(cont[0]["entry"], cont[0]["post"]) if cont else {}
    probe.mode = "generic"
    generic = I.run_paths(thunk) if cont else []
    return first, generic


def predicates(tr, paths):
    """(stays in the loop for one more step, leaves after the step, continues after the step) as conditions on the loop-head state;
    'leaves without a step' (guard false, or a break before the M-step of the iteration) is the complement of the first"""
    exits, brk, cont = [], [], []
    for pc, (kk, r) in paths:
        if kk != "ok" or "outcome" not in r:
            continue
        allc = list(r.get("guard_path", [])) + list(r.get("body_path", []))
        z = tr.cond(T.c_and(*allc)) if allc else z3.BoolVal(True)
        {"exit": exits, "break": brk}.get(r["outcome"], cont).append(z)
    orz = lambda xs: z3.Or(*xs) if xs else z3.BoolVal(False)
    return z3.Not(orz(exits)), orz(brk), orz(cont)


def combined_predicates(tr, first, generic, kz):
    """guard / break / continue as functions of the number k >= 0 of completed iterations:
    the first-iteration predicates at k = 0, the generic ones at k >= 1"""
    gA, bA, cA = predicates(tr, first)
    gB, bB, cB = predicates(tr, generic)
    zero = z3.IntVal(0)
    sub0 = lambda e: z3.substitute(e, (kz, zero))
    return (z3.If(kz == 0, sub0(gA), gB), z3.If(kz == 0, sub0(bA), bB), z3.If(kz == 0, sub0(cA), cB))


def mentions(paths, names):
    if not names:
        return False
    for pc, (kk, r) in paths:
        if kk != "ok":
            continue
        for c in list(r.get("guard_path", [])) + list(r.get("body_path", [])):
            if set(names) & set(C(c).syms):
                return True
    return False


def mk_tr(mapping, F):
    """translator with selected symbols mapped to given z3 expressions"""
    tr = smt.Tr(F)
    for name, (expr, sort) in mapping.items():
        a = T.Atom("sym", (name,), sort)
        tr.cache[a] = expr
    return tr


def generic_vcs(prefix, guards, breaks, conts, has_thr, has_max, out, axioms=()):
    """guards: list of (z3 guard(k)) ; breaks / conts: z3 disjunction of the path
    conditions under which the body breaks / continues, over k, L(k), L(k+1)."""
    k, j, M = z3.Int("s_k"), z3.Int("j"), z3.Int("s_max_steps")
    thr = z3.Real("s_conv_thr")
    L = z3.Function("L", z3.IntSort(), z3.RealSort())

    def stop(i):
        if not has_thr:
            return z3.BoolVal(False)
        d = (L(i - 1) - L(i)) / L(i - 1)
        return z3.If(d >= 0, d, -d) <= thr

    def no_stop_upto(n):
        return z3.ForAll([j], z3.Implies(z3.And(2 <= j, j <= n), z3.Not(stop(j))))
    nz = z3.ForAll([j], z3.Implies(j >= 1, L(j) != 0))
    inv = lambda n: z3.And(n >= 0, (n <= M) if has_max else True, no_stop_upto(n))
    guard, brk, cont = guards, breaks, conts
    pre = [nz, M >= 0] + list(axioms)
    vcs = {
        "preserve": z3.Implies(z3.And(inv(k), guard, cont), inv(k + 1)),
        "break-post": z3.Implies(z3.And(inv(k), guard, brk),
                                 z3.And(k + 1 >= 2, stop(k + 1), no_stop_upto(k), (k + 1 <= M) if has_max else True)),
        "exhaust-post": z3.Implies(z3.And(inv(k), z3.Not(guard)),
                                   z3.And(has_max, k == M, no_stop_upto(M)) if has_max else False),
        "total": z3.Implies(z3.And(inv(k), guard), z3.Or(brk, cont)),
    }
    for name, vc in vcs.items():
        s = z3.Solver()
        s.set("timeout", 20000)
        for p in pre:
            s.add(p)
        s.add(z3.Not(vc))
        import time
        t0 = time.time()
        r = s.check()
        dt = time.time() - t0
        smt.STATS["z3_calls"] += 1
        smt.STATS["z3_s"] += dt
        if r == z3.unsat:
            out.append(Clause("%s.loop.%s" % (prefix, name), "discharged", "z3", secs=dt))
        else:
            # z3 answers 'unknown' when asked to refute a quantified goal: look for a model of
            # the quantifier-free instantiation (j in k-1..k+1) -- only to report, never to pass
            s2 = z3.Solver()
            s2.set("timeout", 10000)
            for p in pre[1:]:
                s2.add(p)
            inst = z3.substitute(z3.Not(vc))
            s2.add(inst)
            for jj in range(0, 6):
                s2.add(L(jj) != 0)
            r2 = s2.check()
            detail = "z3: %s" % r
            wit = None
            status = "refuted" if (r == z3.sat or r2 == z3.sat) else "undecided"
            if r2 == z3.sat:
                mdl = s2.model()
                wit = {"model": {str(d): str(mdl[d]) for d in mdl.decls()}}
            out.append(Clause("%s.loop.%s" % (prefix, name), status, "z3", detail, witness=wit, secs=dt))


NOTES = (("init", "the loop is reached without an exception from every entry state (fresh or previously fitted machine)"),
         ("body", "first iteration from the entry state and a generic later iteration (loop-carried scalars generalised by inferred, "
                  "checked templates: counters c0 + k, criterion carriers L(k)): (machine', criterion') = EM(machine, X) identically on the NumPy "
                  "branch, the Dask branch with shared objects and the Dask branch with isolated (copied) task arguments; counters advance by one; "
                  "guard == (max is None or completed iterations < max)"),
         ("preserve", "Inv(k) ∧ guard ∧ ¬break ⇒ Inv(k+1)"),
         ("break-post", "break taken ⇒ k+1 is the least j >= 2 with |(L(j-1)-L(j))/L(j-1)| <= thr, and k+1 <= max"),
         ("exhaust-post", "guard false ⇒ step = max and no earlier iteration met the stopping test"),
         ("total", "every iteration either breaks or continues (paths cover the guard)"))


def _structure_guard(sub):
    """when an iteration of some branch does not have the shape the loop contract abstracts (the M-step is not called in the abstracted
    form: another signature, an inner loop of the same function taken for the training loop, ...), the predicates extracted from
    that branch mean nothing: the refutations derived from them are withdrawn to 'undecided' (the native replay decides)"""
    if any(c.status == "undecided" and "abstracted form" in (c.detail or "") for c in sub):
        for c in sub:
            if c.status == "refuted" and ".loop." in c.name:
                c.status = "undecided"
                c.detail = "[loop structure not recognised in one branch] " + (c.detail or "")
    return sub


def gmm_fit_loop(prefix, trainer="ml", has_thr=True, has_max=True):
    sub = []
    one_config(prefix, trainer, has_thr, has_max, sub)
    _structure_guard(sub)
    tag = "[thr=%s,max=%s]" % ("set" if has_thr else "None", "set" if has_max else "None")
    res = []
    for nm, note in NOTES:
        sel = [c for c in sub if c.name == "%s.loop.%s" % (prefix, nm)]
        res += collapse(sel, "%s.loop.%s%s" % (prefix, nm, tag), note)
    return res


def finish_vcs(prefix, recs, F, has_thr, has_max, out, guard_note):
    """common tail: predicates of every variant agree; guard == spec guard; invariant VCs"""
    kz, Lf = z3.Int("s_k"), z3.Function("L", z3.IntSort(), z3.RealSort())
    mapping = {"k": (kz, "int"), "Lk": (Lf(kz), "real"), GenericProbe.LNEW: (Lf(kz + 1), "real"),
               "max_steps": (z3.Int("s_max_steps"), "int"), "conv_thr": (z3.Real("s_conv_thr"), "real")}
    tr = mk_tr(mapping, F)
    sigs = []
    for kind, isolated, I, probe, first, generic in recs:
        sigs.append((kind, isolated) + combined_predicates(tr, first, generic, kz))
        if mentions(generic, probe.havoc_names()):
            out.append(Clause(prefix + ".loop.body", "undecided", "", "%s: the stopping behaviour depends on a loop-carried variable that none of the invariant "
                              "templates (counter, criterion, unchanged) captures: %s" % (kind, probe.havoc_names())))
    kind, isolated, guard, brk, cont = sigs[0]
    M = z3.Int("s_max_steps")
    spec_guard = (kz < M) if has_max else z3.BoolVal(True)
    s = z3.Solver()
    for ax in tr.axioms:
        s.add(ax)
    s.add(kz >= 0, z3.Not(guard == spec_guard))
    r = s.check()
    out.append(Clause(prefix + ".loop.body", "discharged" if r == z3.unsat else "refuted", "z3",
                      guard_note + ("" if r == z3.unsat else " FAILS: model %s" % s.model())))
    for kind2, iso2, g2, b2, c2 in sigs[1:]:
        s = z3.Solver()
        for ax in tr.axioms:
            s.add(ax)
        s.add(kz >= 0, z3.Not(z3.And(g2 == guard, b2 == brk, c2 == cont)))
        r = s.check()
        out.append(Clause(prefix + ".loop.body", "discharged" if r == z3.unsat else "refuted", "z3",
                          "stopping behaviour of the %s%s branch equals the NumPy branch" % (kind2, "/isolated" if iso2 else "")))
    generic_vcs(prefix, guard, brk, cont, has_thr, has_max, out, axioms=list(tr.axioms))


def first_iteration_clauses(prefix, label, first, out):
    """the loop is reached, nothing raises, and every entered first iteration runs the M-step"""
    for pc, (kk, r) in first:
        if kk != "ok":
            out.append(Clause(prefix + ".loop.body", "refuted", "npsym", "%s: fit raises %s" % (label, r)))
        elif "entry" not in r:
            out.append(Clause(prefix + ".loop.body", "undecided", "", "%s: loop not reached" % label))
        else:
            out.append(Clause(prefix + ".loop.init", "discharged", "npsym", ""))


def one_config(prefix, trainer, has_thr, has_max, out):
    F = G.facts(extra_pos_syms={"t"})
    F.conds.append(T.cmp_cond("<=", ZERO, T.sym("k", "int")))
    recs = []
    variants = [("numpy", False), ("dask", False), ("dask", True)]
    for kind, isolated in variants:
        contracts = {"gmm.e_step": G.spec_e_step, "gmm.GMMStats.__iadd__": G.spec_stats_iadd}
        I = new_interp(contracts)
        I.isolated = isolated
        probe = GenericProbe()
        rec = probe.rec
        Lnext = T.sym(GenericProbe.LNEW)

        def m_step_abs(ctx_, statistics, machine, rec=rec):
            r = G.spec_m_step(ctx_, statistics if not isinstance(statistics, SList) else statistics, machine)
            rec.setdefault("avg_terms", []).append(r[1])
            return (r[0], Lnext)
        I.contracts["gmm.m_step"] = K.as_contract(m_step_abs)
        fit = K.lookup(I, "gmm.GMMMachine.fit")

        def mk_machine(I=I):
            ubm2 = G.mk_gmm(I, "0") if trainer == "map" else None
            m = G.mk_gmm(I, trainer=trainer, ubm=ubm2, update=(True, True, True))
            if not has_thr:
                m.fields["convergence_threshold"] = None
            if not has_max:
                m.fields["max_fitting_steps"] = None
            return m

        def thunk(I=I, rec=rec, kind=kind, fit=fit, mk_machine=mk_machine):
            m = mk_machine()          # fresh machine per path (the body mutates it)
            x = G.mk_data(kind=kind)
            if kind == "dask":
                x.chunks = RowChunks(G.Nn)
            rec.clear()
            try:
                I.call(fit, [m, x], {})
            except LoopDone:
                pass
            r = dict(rec)
            r["machine"] = m
            return r
        try:
            first, generic = run_probe(I, probe, thunk, "gmm.GMMMachine.fit")
        except ModelError as e:
            out.append(Clause(prefix + ".loop.body", "undecided", "", "%s branch (isolated=%s): %s at %s" % (kind, isolated, e, I.loc)))
            continue
        recs.append((kind, isolated, I, probe, first, generic, mk_machine))
    if not recs:
        return
    # ---- expected transition: EM spec on the whole data (first iteration from the entry state and the generic one)
    for kind, isolated, I, probe, first, generic, mk_machine in recs:
        label = "%s%s" % (kind, "/isolated" if isolated else "")
        first_iteration_clauses(prefix, label, first, out)
        for phase, paths in (("first", first), ("generic", generic)):
            for pc, (kk, r) in paths:
                if kk != "ok":
                    if phase == "generic":
                        out.append(Clause(prefix + ".loop.body", "refuted", "npsym", "%s: fit raises %s" % (label, r)))
                    continue
                if r.get("outcome") in (None, "exit"):
                    continue
                cl = []
                if phase == "generic" and r.get("outcome") == "continue":
                    # the loop-carried state has to be re-established only on the paths that go round again
                    probe.inductive(r, F.extend(pc), label, cl, prefix + ".loop.body")
                # machine' == spec EM(machine, whole X)
                ms = mk_machine()
                xs = G.mk_data(kind="numpy")
                st = G.spec_e_step(None, xs, ms)
                exp_avg = G.spec_m_step(None, [st], ms)[1]
                for key, t in (probe.templates.items() if phase == "generic" else ()):
                    # scalar fields of the machine replaced by templates at the loop head are compared through `inductive`
                    if key[0] == "field":
                        ms.fields[key[1]] = r["machine"].fields.get(key[1])
                V.compare(r["machine"], ms, F.extend(pc), prefix + ".loop.body.machine", cl)
                for avg in r.get("avg_terms", []):
                    V.compare_terms(P(avg), P(exp_avg), F, prefix + ".loop.body.criterion", cl)
                if not r.get("avg_terms"):
                    # the iteration does not go through gmm.m_step with the signature the loop contract abstracts: nothing the
                    # contract says about the body can be compared -- undecided (the native replay of the training loop decides)
                    cl[:] = [Clause(prefix + ".loop.body", "undecided", "npsym", "%s: the iteration does not call m_step in the abstracted form" % label)]
                for c in cl:
                    c.detail = "%s (%s iteration): %s" % (label, phase, c.detail)
                    c.name = prefix + ".loop.body"
                out += cl
    finish_vcs(prefix, [r[:6] for r in recs], F, has_thr, has_max, out, "guard == (max is None or completed iterations < max)")


def kmeans_fit_loop(prefix, has_thr=True, has_max=True):
    from contracts import kmeans as KM
    sub = []
    F = KM.facts()
    F.conds.append(T.cmp_cond("<=", ZERO, T.sym("k", "int")))
    recs = []
    for kind, isolated in (("numpy", False), ("dask", False), ("dask", True)):
        I = new_interp({"kmeans.e_step": KM.spec_e_step})
        I.isolated = isolated
        probe = GenericProbe()
        rec = probe.rec
        Lnext = T.sym(GenericProbe.LNEW)

        def m_step_abs(ctx_, stats, n_samples, rec=rec):
            r = KM.spec_m_step(ctx_, stats, n_samples)
            rec.setdefault("avg_terms", []).append(r[1])
            rec.setdefault("n_samples", []).append(n_samples)
            return (r[0], Lnext)
        I.contracts["kmeans.m_step"] = K.as_contract(m_step_abs)

        def init_abs(ctx_, self, data):
            self.fields["centroids_"] = KM.mk_means()
        I.contracts["kmeans.KMeansMachine.initialize"] = K.as_contract(init_abs)
        fit = K.lookup(I, "kmeans.KMeansMachine.fit")

        def thunk(I=I, rec=rec, kind=kind, fit=fit):
            m = KM.mk_kmeans(I, centroids=False)
            # a machine that may have been fitted before: the criterion it reports is an arbitrary value (possibly inf)
            T.EXTENDED.add("amd0")
            m.fields["average_min_distance"] = T.sym("amd0")
            if not has_thr:
                m.fields["convergence_threshold"] = None
            if not has_max:
                m.fields["max_iter"] = None
            x = KM.mk_data(kind=kind)
            if kind == "dask":
                x.chunks = RowChunks(KM.Nn)
            rec.clear()
            try:
                I.call(fit, [m, x], {})
            except LoopDone:
                pass
            r = dict(rec)
            r["machine"] = m
            return r
        try:
            first, generic = run_probe(I, probe, thunk, "kmeans.KMeansMachine.fit")
        except ModelError as e:
            sub.append(Clause(prefix + ".loop.body", "undecided", "", "%s branch (isolated=%s): %s at %s" % (kind, isolated, e, I.loc)))
            continue
        recs.append((kind, isolated, I, probe, first, generic))
    for kind, isolated, I, probe, first, generic in recs:
        label = "%s%s" % (kind, "/isolated" if isolated else "")
        first_iteration_clauses(prefix, label, first, sub)
        for phase, paths in (("first", first), ("generic", generic)):
            for pc, (kk, r) in paths:
                if kk != "ok":
                    if phase == "generic":
                        sub.append(Clause(prefix + ".loop.body", "refuted", "npsym", "%s: fit raises %s" % (label, r)))
                    continue
                if r.get("outcome") in (None, "exit"):
                    continue
                cl = []
                if phase == "generic" and r.get("outcome") == "continue":
                    # the loop-carried state has to be re-established only on the paths that go round again
                    probe.inductive(r, F.extend(pc), label, cl, prefix + ".loop.body")
                m = r["machine"]
                amd = m.fields.get("average_min_distance")
                if r.get("avg_terms") and not (isinstance(amd, Poly) and T.equal(amd, T.sym(GenericProbe.LNEW))):
                    cl.append(Clause(prefix + ".loop.body", "refuted", "npsym", "%s: reported average_min_distance is %r, not the M-step's criterion" % (label, amd)))
                xs, mu = KM.mk_data(), KM.mk_means()
                exp_means, exp_crit = KM.spec_m_step(None, [KM.spec_e_step(None, xs, mu)], KM.Nn)
                V.compare(m.fields["centroids_"], exp_means, F.extend(pc), prefix + ".loop.body.centroids", cl)
                for avg in r.get("avg_terms", []):
                    V.compare_terms(P(avg), P(exp_crit), F, prefix + ".loop.body.criterion", cl)
                for ns in r.get("n_samples", []):
                    V.compare_terms(P(ns), KM.Nn, F, prefix + ".loop.body.n_samples", cl)
                if not r.get("avg_terms"):
                    cl[:] = [Clause(prefix + ".loop.body", "undecided", "npsym", "%s: the iteration does not call m_step in the abstracted form" % label)]
                for c in cl:
                    c.detail = "%s (%s iteration): %s" % (label, phase, c.detail)
                    c.name = prefix + ".loop.body"
                sub += cl
    if recs:
        finish_vcs(prefix, recs, F, has_thr, has_max, sub, "guard == (max_iter is None or completed iterations < max_iter)")
    _structure_guard(sub)
    tag = "[thr=%s,max=%s]" % ("set" if has_thr else "None", "set" if has_max else "None")
    res = []
    for nm, note in NOTES:
        sel = [c for c in sub if c.name == "%s.loop.%s" % (prefix, nm)]
        res += collapse(sel, "%s.loop.%s%s" % (prefix, nm, tag), note.replace("machine", "centroids"))
    return res


class GridChunks:
    """an arbitrary chunk grid of a 2-d Dask array: consecutive row blocks x
    consecutive column blocks; to_delayed().ravel().tolist() lists the blocks in
    row-major order (DESIGN §3)"""

    def __init__(self, nrows, ncols, prefix="grid"):
        self.rows = RowChunks(nrows, prefix + "r")
        self.ctag, self.ncb, self.csz, self.coff = T.new_partition(ncols, prefix + "c")

    def numblocks(self, a):
        return (self.rows.nb, self.ncb)

    def rechunk(self, spec):
        if spec.get(1) in (-1, None) and set(spec) <= {1}:
            return self.rows          # all columns in one block: a row partition
        raise ModelError("rechunk %r" % (spec,))

    def blocks(self, a):
        rsz, roff, csz, coff, ncb = self.rows.sz, self.rows.off, self.csz, self.coff, self.ncb

        def elem(i):
            rb, cb = T.mk_floordiv(i, ncb), T.mk_mod(i, ncb)
            return Arr((rsz(rb), csz(cb)), lambda j, d: a.fn(roff(rb) + j, coff(cb) + d), a.dtype, "numpy")
        return SList(self.rows.nb * ncb, elem)


def _row_numblocks(self, a):
    return (self.nb,) + (ONE,) * (a.ndim - 1)


def _row_chunk_sizes(self, a):
    """a.chunks: per axis the tuple of block lengths"""
    return (SList(self.nb, lambda b: self.sz(b)),) + tuple(SList(ONE, lambda b, d=d: P(d)) for d in a.shape[1:])


def _grid_chunk_sizes(self, a):
    return (SList(self.rows.nb, lambda b: self.rows.sz(b)), SList(self.ncb, lambda b: self.csz(b)))


GridChunks.chunk_sizes = _grid_chunk_sizes


def _row_rechunk(self, spec):
    return self


RowChunks.numblocks = _row_numblocks
RowChunks.chunk_sizes = _row_chunk_sizes
RowChunks.rechunk = _row_rechunk
