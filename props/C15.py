"""C15 -- training is equivariant, scoring invariant, under affine feature rescaling / shift.

Relational lemmas over the contracts (self-composition): the contract of each function is
evaluated on inputs and on affinely transformed inputs and the stated relation between the two
result terms is proved.  Because every function involved is proved equal to its contract
(C01-C10, shared obligations), the relation holds for the code."""
from fractions import Fraction

from vt import terms as T
from vt.terms import Poly, P, ZERO, ONE, Sum, LSE
from vt import arr as A
from vt.arr import Arr, input_arr
from vt.values import Obj, SList
from vt import contract as K
from vt.verify import Clause
from vt import verify as V
from vt import smt
from contracts import gmm as G
from contracts import kmeans as KM
from contracts import linear_scoring as LS
from contracts import ivector as IV
from props.common import new_interp, collapse, guard, bounded

FUNCTIONS = ["contracts of: gmm.log_weighted_likelihood, gmm.log_likelihood, gmm.e_step, gmm.ml_gmm_m_step, gmm.map_gmm_m_step, "
             "linear_scoring.linear_scoring, ivector project, kmeans distances/e_step/m_step (each proved against the code in C01-C10)",
             "(objrun, bounded) ISV/JFA enrol, score, estimate_x"]

a_ = lambda d: T.app("sc", d)        # per-feature scale  (non-zero)
b_ = lambda d: T.app("sh", d)        # per-feature shift


def facts():
    F = G.facts(dims={"M", "Pp", "R"})
    F.pos_apps |= {"vu", "wu", "sig", "n"}
    F.pos_syms |= {"t"}
    return F


def tr_data(x):
    return Arr(x.shape, lambda s, d: a_(d) * P(x.fn(s, d)) + b_(d), "real", x.kind)


def tr_means(mu):
    return Arr(mu.shape, lambda c, d: a_(d) * P(mu.fn(c, d)) + b_(d))


def tr_vars(v):
    return Arr(v.shape, lambda c, d: a_(d) ** 2 * P(v.fn(c, d)))


def tr_machine(I, m):
    m2 = Obj(m.cls, dict(m.fields))
    m2.fields["_means"] = tr_means(m.fields["_means"])
    m2.fields["_variances"] = tr_vars(m.fields["_variances"])
    th = m.fields["_variance_thresholds"]
    if isinstance(th, Arr):
        m2.fields["_variance_thresholds"] = tr_vars(th) if th.ndim == 2 else Arr(th.shape, lambda d: a_(d) ** 2 * P(th.fn(d)))
    if m.fields.get("ubm") is not None:
        m2.fields["ubm"] = tr_machine(I, m.fields["ubm"])
    m2.fields["_g_norms"] = None
    return m2


def tr_stats(st):
    s2 = Obj(st.cls, dict(st.fields))
    n, Fx, S = st.fields["n"], st.fields["sum_px"], st.fields["sum_pxx"]
    s2.fields["sum_px"] = Arr(Fx.shape, lambda c, d: a_(d) * P(Fx.fn(c, d)) + b_(d) * P(n.fn(c)))
    s2.fields["sum_pxx"] = Arr(S.shape, lambda c, d: a_(d) ** 2 * P(S.fn(c, d)) + 2 * a_(d) * b_(d) * P(Fx.fn(c, d)) + b_(d) ** 2 * P(n.fn(c)))
    return s2


def logabs():
    return Sum(G.Dd, lambda d: T.mk_log(a_(d)), "d")        # log|a_d| (log atoms denote log|.|)


def gmm_likelihood(ctx):
    I = new_interp()
    out = []
    F = facts()
    m, x = G.mk_gmm(I, thr="matrix"), G.mk_data()
    m2, x2 = tr_machine(I, m), tr_data(x)
    c, s = T.fresh("c"), T.fresh("s")
    V.compare_terms(P(G.spec_log_weighted_likelihood(None, x2, m2).fn(c, s)), P(G.spec_log_weighted_likelihood(None, x, m).fn(c, s)) - logabs(), F, "C15.lwl", out)
    V.compare_terms(P(G.spec_log_likelihood(None, x2, m2).fn(s)), P(G.spec_log_likelihood(None, x, m).fn(s)) - logabs(), F, "C15.ll", out)
    st, st2 = G.spec_e_step(None, x, m), G.spec_e_step(None, x2, m2)
    exp = tr_stats(st)
    d = T.fresh("d")
    V.compare_terms(P(st2.fields["n"].fn(c)), P(st.fields["n"].fn(c)), F, "C15.estep.n", out)
    V.compare_terms(P(st2.fields["sum_px"].fn(c, d)), P(exp.fields["sum_px"].fn(c, d)), F, "C15.estep.sum_px", out)
    V.compare_terms(P(st2.fields["sum_pxx"].fn(c, d)), P(exp.fields["sum_pxx"].fn(c, d)), F, "C15.estep.sum_pxx", out)
    V.compare_terms(P(st2.fields["log_likelihood"]), P(st.fields["log_likelihood"]) - G.Nn * logabs(), F, "C15.estep.ll", out)
    return collapse(out[:2], "C15.lwl", "log-likelihoods shift by -Σ_d log|a_d|") + \
        collapse(out[2:], "C15.estep", "responsibilities unchanged; F -> a F + b N, S -> a^2 S + 2ab F + b^2 N; total log-likelihood shifts by -N Σ log|a|")


def nofloor(term, eps, n_of):
    """the property's clause excludes active floors: evaluate under n >= eps (max(n, eps) = n)"""
    return term


def mstep_equivariance(ctx):
    """ML and MAP M-steps: means -> a mu + b, variances -> a^2 var, weights unchanged (no floor active)"""
    out = []
    for trainer in ("ml", "map"):
        I = new_interp()
        F = facts()
        ubm = G.mk_gmm(I, "0", thr="matrix") if trainer == "map" else None
        m = G.mk_gmm(I, trainer=trainer, ubm=ubm, thr="matrix", update=(True, True, True))
        st = G.mk_stats(I)
        m2, st2 = tr_machine(I, m), tr_stats(st)
        eps = m.fields["mean_var_update_threshold"]
        ctx_ = K.SpecCtx([])
        if trainer == "ml":
            G.spec_ml_m_step(ctx_, m, st, True, True, True, mean_var_update_threshold=eps)
            G.spec_ml_m_step(ctx_, m2, st2, True, True, True, mean_var_update_threshold=eps)
        else:
            kw = dict(reynolds_adaptation=True, relevance_factor=T.sym("relevance"), mean_var_update_threshold=eps)
            G.spec_map_m_step(ctx_, m, st, True, True, True, **kw)
            G.spec_map_m_step(ctx_, m2, st2, True, True, True, **kw)
        c, d = T.fresh("c"), T.fresh("d")
        ev = T.cmp_cond("<=", P(eps), T.app("n", c))
        Fp = F.extend([ev])
        su = lambda t: T.simplify_under(P(t), T.c_not(ev), False)
        cl = []
        V.compare_terms(su(m2.fields["_weights"].fn(c)) if trainer == "ml" else P(m2.fields["_weights"].fn(c)),
                        su(m.fields["_weights"].fn(c)) if trainer == "ml" else P(m.fields["_weights"].fn(c)), Fp, "C15.%s.weights" % trainer, cl)
        V.compare_terms(su(m2.fields["_means"].fn(c, d)), a_(d) * su(m.fields["_means"].fn(c, d)) + b_(d), Fp, "C15.%s.means" % trainer, cl)
        # variances before the floor: compare the floored values with floors scaled by a^2:  max(a^2 t, a^2 x) = a^2 max(t, x)
        v2, v1 = su(m2.fields["_variances"].fn(c, d)), su(m.fields["_variances"].fn(c, d))
        st_, info = smt.prove(T.cmp_cond("==", v2, a_(d) ** 2 * v1), Fp, [T.cmp_cond("!=", a_(d), ZERO)])
        if st_ != "proved":
            # peel the max: both are max(floor, estimate); compare the estimates and the floors
            e2, e1 = unmax(v2), unmax(v1)
            if e2 and e1 and all(T.equal(x2, a_(d) ** 2 * x1) for x2, x1 in zip(e2, e1)):
                st_, info = "proved", {"backend": "normaliser(max-scaling)"}
        cl.append(Clause("C15.%s.variances" % trainer, "discharged" if st_ == "proved" else ("refuted" if st_ == "refuted" else "undecided"),
                         info.get("backend", ""), "variances' == a^2 variances (floors scaled accordingly)"))
        out += collapse(cl, "C15." + trainer, "%s M-step: means a mu + b, variances a^2 var, weights unchanged" % trainer.upper())
    return out


def unmax(p):
    at = T._single_atom(p, "max")
    if at is None:
        return None
    return sorted([at.args[0], at.args[1]], key=lambda x: x.size)


def scoring_invariance(ctx):
    out = []
    I = new_interp()
    F = facts()
    u = G.mk_gmm(I, "u")
    u2 = tr_machine(I, u)
    mm = input_arr("mm", (LS.Mm, G.Cc, G.Dd))
    mm2 = Arr(mm.shape, lambda m, c, d: a_(d) * P(mm.fn(m, c, d)) + b_(d))
    st = LS.stats_list(I)
    st2 = SList(st.length, lambda p: tr_stats(st.elem(p)))
    off = input_arr("off", (LS.Pp, G.Cc, G.Dd))
    off2 = Arr(off.shape, lambda p, c, d: a_(d) * P(off.fn(p, c, d)))
    m, p = T.fresh("m"), T.fresh("p")
    r1 = LS.spec_linear_scoring(None, mm, u, st, off, True)
    r2 = LS.spec_linear_scoring(None, mm2, u2, st2, off2, True)
    V.compare_terms(P(r2.fn(m, p)), P(r1.fn(m, p)), F, "C15.linear_scoring", out)
    # i-vector projection: T -> a T, sigma -> a^2 sigma, m -> a m + b, F -> a F + b N
    iv = IV.mk_machine(I)
    iv2 = Obj(iv.cls, dict(iv.fields))
    Tm, sg = iv.fields["T"], iv.fields["sigma"]
    iv2.fields["T"] = Arr(Tm.shape, lambda c, d, t: a_(d) * P(Tm.fn(c, d, t)))
    iv2.fields["sigma"] = tr_vars(sg)
    iv2.fields["ubm"] = tr_machine(I, iv.fields["ubm"])
    s1 = IV.mk_one_stats(I)
    s2 = tr_stats(s1)
    t = T.fresh("t")
    V.compare_terms(P(IV.spec_project(None, iv2, s2).fn(t)), P(IV.spec_project(None, iv, s1).fn(t)), F, "C15.project", out)
    return out


def kmeans_equivariance(ctx):
    """distances scale by s^2 under x -> s x + t (uniform scale, translation); centroids follow: mean(s x + t) = s mean(x) + t.
    (assignments are unchanged because argmin is invariant under multiplication by s^2 > 0 -- contract of argmin; rotations by the trusted
    norm-invariance lemma)"""
    out = []
    F = KM.facts()
    x, cen = KM.mk_data(), KM.mk_means()
    s_ = T.sym("uscale")
    tt = lambda d: T.app("tsh", d)
    x2 = Arr(x.shape, lambda s, d: s_ * P(x.fn(s, d)) + tt(d))
    c2 = Arr(cen.shape, lambda k, d: s_ * P(cen.fn(k, d)) + tt(d))
    k, s = T.fresh("k"), T.fresh("s")
    V.compare_terms(KM.dist_term(x2, c2, k, s), s_ ** 2 * KM.dist_term(x, cen, k, s), F, "C15.kmeans.dist", out)
    # same assignments (ghost): centroid update on transformed data
    ind = lambda s, kk: T.mk_ind(T.cmp_cond("==", T.app("assign", s, sort="int"), kk))
    d = T.fresh("d")
    cnt = Sum(KM.Nn, lambda s: ind(s, k), "s")
    mean1 = Sum(KM.Nn, lambda s: ind(s, k) * P(x.fn(s, d)), "s") / cnt
    mean2 = Sum(KM.Nn, lambda s: ind(s, k) * P(x2.fn(s, d)), "s") / cnt
    V.compare_terms(mean2, s_ * mean1 + tt(d), F, "C15.kmeans.centroid", out)
    return collapse(out, "C15.kmeans", "squared distances scale by s^2 and centroids follow x -> s x + t (hence also the criterion scales by s^2)")


def kmeans_mstep_code(ctx):
    """relational obligation on the REAL kmeans.m_step: fed the statistics of the transformed data (same assignments:
    counts z, sums s f + t z, block criterion s^2 a) it returns the transformed centroids and s^2 x the criterion -- for ALL
    counts z >= 0, i.e. also for a cluster that attracted no sample (whatever the code puts there must not depend on the origin;
    whether that value is defined at all is C13's question, definedness clauses are not counted here)"""
    out = []
    s_ = T.sym("uscale")
    tt = lambda d: T.app("tsh", d)
    res = {}
    for which in ("orig", "moved"):
        I = new_interp()

        def build(which=which):
            z = input_arr("z", (KM.Kk,), dtype="int")
            f = input_arr("f", (KM.Kk, KM.Dd))
            a = T.sym("a")
            if which == "moved":
                f = Arr(f.shape, lambda k, d, f=f: s_ * P(f.fn(k, d)) + tt(d) * P(z.fn(k)))
                a = s_ ** 2 * a
            return [[(z, f, a)], KM.Nn], {}
        try:
            paths = I.run_paths(lambda: I.call(K.lookup(I, "kmeans.m_step"), *build()))
        except ModelError as e:
            return [Clause("C15.kmeans.mstep", "undecided", "", "kmeans.m_step (%s data): %s at %s" % (which, e, I.loc))]
        if len(paths) != 1 or paths[0][1][0] != "ok":
            return [Clause("C15.kmeans.mstep", "undecided", "", "kmeans.m_step forks or raises on generic statistics: %r" % (paths,))]
        res[which] = paths[0][1][1]
    F = KM.facts()
    F.nonneg_apps.add("z")
    F.pos_syms.add("uscale")
    (m1, c1), (m2, c2) = res["orig"], res["moved"]
    k, d = T.fresh("k"), T.fresh("d")
    if not (isinstance(m1, Arr) and isinstance(m2, Arr) and m1.ndim == 2 and m2.ndim == 2):
        return [Clause("C15.kmeans.mstep", "undecided", "", "m_step does not return a (centroids, criterion) pair of the expected kinds")]
    V.compare_terms(P(m2.fn(k, d)), s_ * P(m1.fn(k, d)) + tt(d), F, "C15.kmeans.mstep.centroids", out)
    V.compare_terms(P(c2), s_ ** 2 * P(c1), F, "C15.kmeans.mstep.criterion", out)
    return collapse(out, "C15.kmeans.mstep", "the real kmeans.m_step maps the statistics of s x + t (same assignments) to s centroids + t and s^2 criterion, "
                    "for all counts >= 0 (a cluster without samples included)")


GROUPS = [guard(gmm_likelihood), guard(mstep_equivariance), guard(scoring_invariance), guard(kmeans_equivariance), guard(kmeans_mstep_code)]
BOUNDED = [bounded("gmm_repro.py", "affine", "C15.gmm.native",
                   "native float64: GMM log-likelihoods shift by -Σlog|a|, ML/MAP-trained parameters follow x -> a x + b, and likelihoods / occupations of "
                   "NumPy and Dask input are unchanged when features and means are shifted to offset/std ~ 1e7 (tolerance 1e-5)"),
           bounded("fa_repro.py", "affine", "C15.fa",
                   "ISV/JFA: enrolled speaker/offset factors, channel factors and scores are unchanged under per-feature x -> a x + b "
                   "(a of both signs and different magnitudes) with UBM, U, V, D transformed accordingly")]
SHARED = [("C01", "lwl_post", ["C01.lwl.post"]), ("C01", "ll_post", ["C01.ll.post"]), ("C02", "estep_post", ["C02.estep.n", "C02.estep.sum_px", "C02.estep.sum_pxx"]),
          ("C03", "mstep_ml", ["C03.m.means", "C03.m.variances", "C03.m.weights"]), ("C05", "mstep_map", ["C05.means", "C05.variances", "C05.weights"]),
          ("C08", "post", ["C08.post", "C08.norm"]), ("C10", "projection", ["C10.project"]), ("C06", "estep", ["C06.assign"]), ("C06", "mstep", ["C06.centroid", "C06.mstep.criterion"]), ("C20", "dist", ["C20.dist.ndarray"]),
          # the ISV/JFA equivariance lemmas are stated over the leaf contracts: the code must meet them
          ("C07", "fn_x_all", ["C07.fn_x"]), ("C07", "fn_z_all", ["C07.fn_z"]), ("C07", "leaf_compute_fn_y_i", ["C07.fn_y"]),
          ("C07", "prec_all", ["C07.prec.x", "C07.prec.y", "C07.prec.z", "C07.uprod", "C07.vprod"]),
          # the stopping rules are relative (scale- and origin-free): the loops stop by their stated rule and by nothing else
          ("C06", "loop_thr_max", ["C06.loop.body[thr=set,max=set]", "C06.loop.break-post[thr=set,max=set]", "C06.loop.preserve[thr=set,max=set]"]),
          ("C03", "loop_thr_max", ["C03.loop.body[thr=set,max=set]", "C03.loop.break-post[thr=set,max=set]", "C03.loop.preserve[thr=set,max=set]"]),
          ("C09", "msteps", ["C09.U.mstep", "C09.V.mstep", "C09.D.mstep"]), ("C09", "esteps", ["C09.estep.V", "C09.estep.U", "C09.estep.D"]), ("C09", "finalizers", ["C09.finalize.V", "C09.finalize.U"])]
REPLAY = [("C15.gmm", "gmm_repro.py", "affine", {}), ("C15.kmeans", "kmeans_repro.py", "affine", {}), ("C06", "kmeans_repro.py", "affine", {}), ("C20", "kmeans_repro.py", "affine", {}), ("C03", "gmm_repro.py", "ml_mstep", {}), ("C05", "gmm_repro.py", "map_mstep", {}), ("C07", "fa_repro.py", "phases", {}), ("C09", "fa_repro.py", "phases", {}), ("C15.lwl", "gmm_repro.py", "affine", {}), ("C15.estep", "gmm_repro.py", "affine", {}), ("C15.ml", "gmm_repro.py", "affine", {}), ("C15.fa", "fa_repro.py", "affine", {}), ("C15.map", "gmm_repro.py", "map_mstep", {}), ("C15", "gmm_repro.py", "affine", {})]
TRUSTED = ["rotation invariance of the Euclidean norm (k-means under rotations)", "argmin_k f(k) = argmin_k s^2 f(k) for s != 0",
           "log atoms denote log|.| (so log(a^2 v) = 2 log|a| + log v)"]
ASSUMPTIONS = ["no variance floor / count floor active (or floors transformed with the features)", "a_d != 0"]
XCHECK = ['gmm', 'linear', 'ivector', 'kmeans']
