"""C18 -- saving and loading a GMM or its statistics preserves them exactly.

The HDF5 file is modelled as a finite map (DESIGN §3): f[k] = v then f[k][()] /
f[k][...] gives v back; a Python str comes back as bytes; attrs round-trip str;
Dataset == "s" is False; storing None raises TypeError."""
from vt import terms as T
from vt.terms import Poly, P, ZERO, ONE
from vt.arr import Arr, input_arr, ModelError
from vt.values import Obj, SList, PyRaise
from vt import contract as K
from vt.interp import H5Group
from vt.verify import Clause
from vt import verify as V
from contracts import gmm as G
from props.common import new_interp, collapse, guard, bounded

FUNCTIONS = ["gmm.GMMMachine.save", "gmm.GMMMachine.from_hdf5", "gmm.GMMMachine.load", "gmm.GMMStats.save", "gmm.GMMStats.from_hdf5",
             "gmm.GMMStats.load", "gmm.GMMStats.resize / init_fields"]

MACHINE_FIELDS = ["n_gaussians", "trainer", "convergence_threshold", "max_fitting_steps", "_weights", "update_means", "update_variances",
                  "update_weights", "_means", "_variances", "_variance_thresholds"]


def roundtrip_machine(I, trainer, thr, flags, via="from_hdf5", none_limit=False):
    ubm = G.mk_gmm(I, "0") if trainer == "map" else None
    m = G.mk_gmm(I, trainer=trainer, ubm=ubm, thr=thr, update=flags)
    if none_limit:
        m.fields["max_fitting_steps"] = None
    h = H5Group("w")
    I.call(K.lookup(I, "gmm.GMMMachine.save"), [m, h], {})
    if via == "from_hdf5":
        m2 = I.call(I.getattr(I.classes["GMMMachine"], "from_hdf5"), [h], {"ubm": ubm})
    else:
        m2 = G.mk_gmm(I, "old", C=T.sym("C9", "int"), D=T.sym("D9", "int"), ubm=ubm, trainer=trainer)   # an existing object of another shape
        I.call(K.lookup(I, "gmm.GMMMachine.load"), [m2, h], {})
    # saving the reloaded object gives an equivalent file
    h2 = H5Group("w")
    I.call(K.lookup(I, "gmm.GMMMachine.save"), [m2, h2], {})
    return m, m2, h, h2


def machine_rt(ctx):
    res = {f: [] for f in MACHINE_FIELDS}
    other = []
    for trainer in ("ml", "map"):
        for thr in ("scalar", "matrix"):
            for flags in ((True, False, False), (False, True, True)):
                for via in ("from_hdf5", "load"):
                    I = new_interp()
                    F = G.facts_inv(G.mk_gmm(I, thr=thr), G.facts(extra_pos_syms={"conv_thr"}))
                    tag = "[%s,floors=%s,switches=%s,%s]" % (trainer, thr, "".join("1" if f else "0" for f in flags), via)
                    try:
                        paths = I.run_paths(lambda: roundtrip_machine(I, trainer, thr, flags, via))
                    except ModelError as e:
                        other.append(Clause("C18.gmm.rt", "undecided", "", "%s %s at %s" % (tag, e, I.loc)))
                        continue
                    for pc, (k, r) in paths:
                        if k != "ok":
                            other.append(Clause("C18.gmm.rt", "refuted", "npsym", "%s save/load raises %s" % (tag, r)))
                            continue
                        m, m2, h, h2 = r
                        for f in MACHINE_FIELDS:
                            cl = []
                            V.compare(m2.fields.get(f, "<missing>"), m.fields[f], F.extend(pc), "C18.gmm.rt." + f.strip("_"), cl)
                            for c in cl:
                                c.detail = tag + " " + c.detail
                            res[f] += cl
                        # Inv of the reloaded machine (C17.load)
                        cl = []
                        G.inv_clauses(m2, F.extend(pc), "C18.gmm.load.inv", cl)
                        other += cl
                        # re-saved file equals the first file
                        cl = []
                        V.compare(h2.items, h.items, F.extend(pc), "C18.gmm.resave", cl)
                        for c in cl:
                            c.detail = tag + " " + c.detail
                        other += cl
    out = []
    for f in MACHINE_FIELDS:
        nm = f.strip("_")
        out += collapse(res[f], "C18.gmm.rt." + nm, "from_hdf5(save(m)).%s == m.%s (bit-identical term) for ML and MAP machines, scalar and matrix floors, "
                        "both entry points" % (nm, nm))
    out += collapse([c for c in other if c.name.startswith("C18.gmm.load.inv")], "C18.gmm.load", "the reloaded machine satisfies Inv (C17.load)")
    out += collapse([c for c in other if c.name.startswith("C18.gmm.resave")] or [Clause("x", "undecided", "", "no resave clause")],
                    "C18.gmm.resave", "saving the reloaded machine writes the same map")
    rest = [c for c in other if not c.name.startswith(("C18.gmm.load.inv", "C18.gmm.resave"))]
    if rest:
        out += collapse(rest, "C18.gmm.rt.raises", "")
    return out


def machine_none_limit(ctx):
    """a reachable machine state: max_fitting_steps=None (no iteration cap)"""
    I = new_interp()
    try:
        paths = I.run_paths(lambda: roundtrip_machine(I, "ml", "scalar", (True, False, False), "from_hdf5", none_limit=True))
    except ModelError as e:
        return [Clause("C18.gmm.rt.none-limit", "undecided", "", str(e))]
    out = []
    for pc, (k, r) in paths:
        if k != "ok":
            out.append(Clause("C18.gmm.rt.none-limit", "refuted", "npsym",
                              "save of a machine with max_fitting_steps=None raises %s" % (r,), witness={"known_variant": "KF-H5-NONE"}
                              if "TypeError" in str(r) else None))
        else:
            m, m2, h, h2 = r
            ok = m2.fields["max_fitting_steps"] is None
            out.append(Clause("C18.gmm.rt.none-limit", "discharged" if ok else "refuted", "npsym", "None limit round-trips"))
    return out


STAT_FIELDS = ["n_gaussians", "n_features", "log_likelihood", "t", "n", "sum_px", "sum_pxx"]


def stats_rt(ctx):
    out = []
    for via in ("from_hdf5", "load-same", "load-other"):
        I = new_interp()
        F = G.facts(dims={"C9", "D9"})

        def run(via=via, I=I):
            s = G.mk_stats(I)
            h = H5Group("w")
            I.call(K.lookup(I, "gmm.GMMStats.save"), [s, h], {})
            if via == "from_hdf5":
                s2 = I.call(I.getattr(I.classes["GMMStats"], "from_hdf5"), [h], {})
            else:
                s2 = G.mk_stats(I, "old") if via == "load-same" else G.mk_stats(I, "old", C=T.sym("C9", "int"), D=T.sym("D9", "int"))
                I.call(K.lookup(I, "gmm.GMMStats.load"), [s2, h], {})
            h2 = H5Group("w")
            I.call(K.lookup(I, "gmm.GMMStats.save"), [s2, h2], {})
            return s, s2, h, h2
        try:
            paths = I.run_paths(run)
        except ModelError as e:
            out.append(Clause("C18.stats.rt", "undecided", "", "%s: %s at %s" % (via, e, I.loc)))
            continue
        for pc, (k, r) in paths:
            if k != "ok":
                out.append(Clause("C18.stats.rt", "refuted", "npsym", "%s raises %s" % (via, r)))
                continue
            s, s2, h, h2 = r
            for f in STAT_FIELDS:
                cl = []
                V.compare(s2.fields.get(f, "<missing>"), s.fields[f], F.extend(pc), "C18.stats.%s.%s" % ("rt" if via == "from_hdf5" else "load", f), cl)
                for c in cl:
                    c.detail = "[%s] %s" % (via, c.detail)
                out += cl
            cl = []
            V.compare(h2.items, h.items, F.extend(pc), "C18.stats.resave", cl)
            out += cl
    res = []
    for f in STAT_FIELDS:
        res += collapse([c for c in out if c.name == "C18.stats.rt." + f], "C18.stats.rt." + f, "from_hdf5(save(s)).%s == s.%s" % (f, f))
    res += collapse([c for c in out if c.name.startswith("C18.stats.load.")], "C18.stats.load",
                    "load() into an object of the same or of a different shape (resize) leaves exactly the saved statistics")
    res += collapse([c for c in out if c.name.startswith("C18.stats.resave")], "C18.stats.resave", "re-saving writes the same map")
    rest = [c for c in out if c.name == "C18.stats.rt"]
    if rest:
        res += collapse(rest, "C18.stats.rt", "")
    return res


def train_same(ctx):
    """every attribute GMMMachine.fit reads is either recorded in the file or a constructor default that save() does not claim to record"""
    import ast
    I = new_interp()
    mod = I.modules["gmm"]
    ci = mod.classes["GMMMachine"]
    read = set()
    for fn in ("fit",):
        for n in ast.walk(ci.methods[fn]):
            if isinstance(n, ast.Attribute) and isinstance(n.value, ast.Name) and n.value.id == "self" and isinstance(n.ctx, ast.Load):
                read.add(n.attr)
    for fname in ("m_step",):
        for n in ast.walk(mod.globals[fname].node):
            if isinstance(n, ast.Attribute) and isinstance(n.value, ast.Name) and n.value.id == "machine" and isinstance(n.ctx, ast.Load):
                read.add(n.attr)
    recorded = {"max_fitting_steps", "convergence_threshold", "update_means", "update_variances", "update_weights", "trainer",
                "weights", "means", "variances", "_means", "_variances", "variance_thresholds", "n_gaussians"}
    methods = set(ci.methods) | set(ci.getters)
    settings_not_in_file = sorted(a for a in read if a not in recorded and a not in methods)
    # the property claims only the settings the file records
    claimed = {"trainer", "max_fitting_steps", "convergence_threshold", "update_means", "update_variances", "update_weights"}
    missing = sorted(claimed - recorded)
    return [Clause("C18.gmm.train-same", "discharged" if not missing else "refuted", "normaliser",
                   "fit/m_step read %s; of these the file records %s (each proved to round-trip); not recorded and left at constructor defaults: %s"
                   % (sorted(read), sorted(read & recorded), settings_not_in_file))]


GROUPS = [guard(machine_rt), guard(machine_none_limit), guard(stats_rt), guard(train_same)]
SHARED = []
BOUNDED = [bounded("h5_repro.py", "legacy", "C18.legacy.native",
                   "legacy-format machine files with 2, 12 and 25 Gaussians (written by hand in the legacy layout with h5py) load, through from_hdf5 and "
                   "load, to bit-identical weights, means, variances and scores as the current-format file of the same machine (native h5py)")]
REPLAY = [("C18.legacy", "h5_repro.py", "legacy", {}), ("C18", "h5_repro.py", "machine", {}), ("C18.gmm", "h5_repro.py", "machine", {}), ("C18.stats", "h5_repro.py", "stats", {})]
TRUSTED = ["h5py map model (DESIGN §3): values read back bit-identically; str datasets come back as bytes; attrs round-trip str; Dataset == 's' is False; None cannot be stored",
           "legacy-format files: the legacy writer is not in the repository; the legacy MACHINE reader is covered by the bounded native check C18.legacy.native (files written by hand in the legacy layout), the legacy STATISTICS reader only by the pinned tests"]
ASSUMPTIONS = ["machine satisfies Inv (variances >= floors)"]
XCHECK = ['gmm']
