"""C02 -- GMM statistics are responsibility-weighted moments, additive over any split."""
import ast
from fractions import Fraction

from vt import terms as T
from vt.terms import Poly, P, C, ZERO, ONE, Sum, LSE
from vt import arr as A
from vt.arr import Arr, input_arr
from vt.values import Obj, SList
from vt import contract as K
from vt.verify import Clause
from vt import verify as V
from vt import smt
from contracts import gmm as G
from props.common import new_interp, collapse, guard

FUNCTIONS = ["gmm.e_step", "gmm.GMMStats.__init__", "gmm.GMMStats.__add__", "gmm.GMMStats.__iadd__",
             "gmm.GMMMachine.acc_stats", "gmm.GMMMachine.transform", "gmm.GMMMachine.stats_per_sample",
             "gmm.m_step (statistics reduction)"]

LWL = {"gmm.log_weighted_likelihood": G.spec_log_weighted_likelihood}


def estep_post(ctx):
    """every field of the statistics container == its responsibility-weighted moment"""
    out = []
    for kind, ndim in (("numpy", 2), ("dask", 2), ("numpy", 1)):
        I = new_interp(LWL)
        cl = K.check_function(I, "gmm.e_step",
                              lambda: ([G.mk_data(kind=kind, ndim=ndim), G.mk_gmm(I)], {}),
                              G.spec_e_step, G.facts(), "C02.estep", result_name="", state_names={1: "machine"})
        out += cl
    # acc_stats is a wrapper
    I = new_interp(LWL)
    out += K.check_function(I, lambda I_, data, m: I_.call(I_.getattr(m, "acc_stats"), [data], {}),
                            lambda: ([G.mk_data(), G.mk_gmm(I)], {}), G.spec_e_step, G.facts(), "C02.estep", result_name="")
    res = []
    for f in ("t", "n", "sum_px", "sum_pxx", "log_likelihood"):
        sel = [c for c in out if c.name.endswith("." + f) or c.name.endswith("." + f + ".shape")]
        res += collapse(sel, "C02.estep.%s" % f, "GMMStats.%s == %s" % (f, {
            "t": "number of rows", "n": "Σ_s r(c,s)", "sum_px": "Σ_s r(c,s) x_sd", "sum_pxx": "Σ_s r(c,s) x_sd^2",
            "log_likelihood": "Σ_s log Σ_c w_c N(x_s)"}[f]))
    rest = [c for c in out if not any(c.name.endswith("." + f) or c.name.endswith("." + f + ".shape")
                                      for f in ("t", "n", "sum_px", "sum_pxx", "log_likelihood"))]
    res += collapse(rest, "C02.estep.frame", "shape fields set, machine unchanged (except the lazy normaliser cache), definedness")
    # samples stored in an integer dtype of unknown width: same statistics, and no product/sum is formed in that dtype
    I = new_interp(LWL)
    cl = K.check_function(I, "gmm.e_step", lambda: ([G.mk_data(intdata=True), G.mk_gmm(I)], {}),
                          G.spec_e_step, G.facts(), "C02.estep.int", result_name="", state_names={1: "machine"})
    res += collapse(cl, "C02.estep.intdata", "integer-typed samples (uint8, int16, ...): every moment is accumulated in float64 -- "
                                             "no arithmetic is carried out in the samples' own integer dtype")
    return res


def resp_lemmas(ctx):
    """lemmas over the e_step contract: r >= 0, Σ_c r(c,s) = 1, Σ_c n[c] = N"""
    I = new_interp()
    m, x = G.mk_gmm(I), G.mk_data()
    F = G.facts()
    s, c = T.fresh("s"), T.fresh("c")
    out = []
    r = G.resp_term(m, x, c, s)
    sg = smt.sign_poly(r, F)
    out.append(Clause("C02.resp.nonneg", "discharged" if sg in ("+", "0+") else "undecided", "sign", "responsibility term is a product of positive factors"))
    V.compare_terms(Sum(G.Cc, lambda k: G.resp_term(m, x, k, s), "c"), ONE, F, "C02.resp.sum1", out)
    st = G.spec_e_step(None, x, m)
    V.compare_terms(Sum(G.Cc, lambda k: P(st.fields["n"].fn(k)), "c"), G.Nn, F, "C02.n.sumN", out)
    return out


def mk_pair(I, same=True):
    a = G.mk_stats(I, "a")
    b = G.mk_stats(I, "b") if same else G.mk_stats(I, "b", C=T.sym("C2", "int"), D=T.sym("D2", "int"))
    return a, b


def add_post(ctx):
    out = []
    for op, spec, nm in (("__add__", G.spec_stats_add, "add"), ("__iadd__", G.spec_stats_iadd, "iadd")):
        I = new_interp()
        cl = K.check_function(I, "gmm.GMMStats." + op, lambda: (list(mk_pair(I, True)), {}), spec,
                              G.facts(dims={"C2", "D2"}), "C02.%s" % nm, result_name="result", state_names={0: "self", 1: "other"})
        for f in ("log_likelihood", "t", "n", "sum_px", "sum_pxx"):
            sel = [c for c in cl if c.name.endswith("result." + f)]
            out += collapse(sel, "C02.%s.%s" % (nm, f), "result.%s == self.%s + other.%s" % (f, f, f))
        fr = [c for c in cl if not any(c.name.endswith("result." + f) for f in ("log_likelihood", "t", "n", "sum_px", "sum_pxx"))]
        out += collapse(fr, "C02.%s.frame" % nm, "other unchanged; %s; shape fields kept" % (
            "self updated in place and returned" if nm == "iadd" else "self unchanged, result fresh"))
        # accumulating into a FRESHLY CONSTRUCTED (empty) container: 0 + other, fieldwise
        I = new_interp()

        def build_fresh(I=I):
            return [I.instantiate(I.classes["GMMStats"], [G.Cc, G.Dd], {}), G.mk_stats(I, "b")], {}

        def spec_fresh(ctx_, self, other, op=op):
            r = self if op == "__iadd__" else Obj(self.cls, dict(self.fields))
            for f in ("log_likelihood", "t", "n", "sum_px", "sum_pxx"):
                r.fields[f] = other.fields[f] + 0
            return r
        cl2 = K.check_function(I, "gmm.GMMStats." + op, build_fresh, spec_fresh, G.facts(), "C02.%s.fresh" % nm, state_names={0: "self", 1: "other"})
        out += collapse(cl2, "C02.%s.fresh" % nm, "GMMStats(C, D) %s s has exactly the statistics of s (no field shares storage with another)" % ("+=" if nm == "iadd" else "+"))
        # shape refusal: symbolic, possibly different, dimensions -> raises iff they differ
        I = new_interp()
        cl = K.check_function(I, "gmm.GMMStats." + op, lambda: (list(mk_pair(I, False)), {}), spec,
                              G.facts(dims={"C2", "D2"}), "C02.%s.shape" % nm)
        out += collapse(cl, "C02.%s.shape-raise" % nm, "raises ValueError iff n_gaussians or n_features differ (4 paths)")
    return out


def split_lemma(ctx):
    """for every partition of the rows into consecutive blocks, the statistics of
    the blocks added up (the package's own += reduction) equal the statistics of
    the whole set -- fieldwise, by the partition-sum rule"""
    I = new_interp({"gmm.GMMStats.__iadd__": G.spec_stats_iadd, "gmm.GMMStats.__add__": G.spec_stats_add})
    m = G.mk_gmm(I)
    x = G.mk_data()
    tag, nb, sz, off = T.new_partition(G.Nn, "rows")

    def block(b):
        return Arr((sz(b), G.Dd), lambda j, d: x.fn(off(b) + j, d))
    out = []
    for how, inplace in (("iadd", True), ("add", False)):
        stats = SList(nb, lambda b: G.spec_e_step(None, block(b), m))
        first = stats.elem(Poly.const(0))
        rest = SList(nb - 1, lambda i: stats.elem(i + 1))
        tot = I.fold_slist(rest, first, ast.Add, inplace=inplace)
        whole = G.spec_e_step(None, x, m)
        cl = []
        # Σ_{b<B} = first + Σ_{1<=b<B}: re-join the peeled first block (range-split axiom)
        V.compare(rejoin(tot, stats, nb), whole, G.facts(), "C02.split." + how, cl)
        out += cl
    return collapse(out, "C02.split", "Σ_blocks e_step(block) == e_step(whole) for every consecutive partition (+ and +=)")


def rejoin_generic(tot, stats, nb, fields):
    o = Obj(tot.cls, dict(tot.fields))
    for f in fields:
        v = tot.fields[f]
        if isinstance(v, Arr):
            def mk(f=f, v=v):
                def fn(*idx):
                    full = Sum(nb, lambda b: P(stats.elem(b).fields[f].fn(*idx)), "b")
                    peeled = P(stats.elem(Poly.const(0)).fields[f].fn(*idx)) + Sum(nb - 1, lambda i: P(stats.elem(i + 1).fields[f].fn(*idx)), "b")
                    return full if T.equal(P(v.fn(*idx)), peeled) else P(v.fn(*idx))
                return Arr(v.shape, fn)
            o.fields[f] = mk()
        else:
            full = Sum(nb, lambda b: P(stats.elem(b).fields[f]), "b")
            peeled = P(stats.elem(Poly.const(0)).fields[f]) + Sum(nb - 1, lambda i: P(stats.elem(i + 1).fields[f]), "b")
            o.fields[f] = full if T.equal(P(v), peeled) else v
    return o


def rejoin(tot, stats, nb):
    """tot = stats[0] + Σ_{i<B-1} stats[i+1]  ==  Σ_{b<B} stats[b]; apply the
    range-split axiom Σ_{b<B} f(b) = f(0) + Σ_{i<B-1} f(i+1) field by field (checked)"""
    o = Obj(tot.cls, dict(tot.fields))
    for f in ("log_likelihood", "t", "n", "sum_px", "sum_pxx"):
        v = tot.fields[f]
        if isinstance(v, Arr):
            def mk(f=f, v=v):
                def fn(*idx):
                    full = Sum(nb, lambda b: P(stats.elem(b).fields[f].fn(*idx)), "b")
                    peeled = P(stats.elem(Poly.const(0)).fields[f].fn(*idx)) + Sum(nb - 1, lambda i: P(stats.elem(i + 1).fields[f].fn(*idx)), "b")
                    if not T.equal(P(v.fn(*idx)), peeled):
                        return P(v.fn(*idx))   # the fold is not the peeled sum: leave it, comparison will fail
                    return full
                return Arr(v.shape, fn)
            o.fields[f] = mk()
        else:
            full = Sum(nb, lambda b: P(stats.elem(b).fields[f]), "b")
            peeled = P(stats.elem(Poly.const(0)).fields[f]) + Sum(nb - 1, lambda i: P(stats.elem(i + 1).fields[f]), "b")
            o.fields[f] = full if T.equal(P(v), peeled) else v
    return o


def transform_post(ctx):
    """transform(list)[k] == e_step(list[k])"""
    I = new_interp({"gmm.e_step": G.spec_e_step})
    L = T.sym("L", "int")

    def build():
        xs = SList(L, lambda i: Arr((T.app("Ns", i, sort="int"), G.Dd), lambda s, d: T.app("xs", i, s, d)))
        return [G.mk_gmm(I), xs], {}

    def spec(ctx_, m, xs):
        return SList(xs.length, lambda i: G.spec_e_step(ctx_, xs.elem(i), m))
    F = G.facts(dims={"L"})
    F.pos_apps.add("Ns")
    cl = K.check_function(I, "gmm.GMMMachine.transform", build, spec, F, "C02.transform")
    return collapse(cl, "C02.transform", "GMMMachine.transform(list)[k] == statistics of list[k]")


def ctrl(ctx):
    """vacuity controls: dropping a field from the spec / weighting by r^2 must be refuted"""
    I = new_interp(LWL)

    def wrong(ctx_, data, machine):
        st = G.spec_e_step(ctx_, data, machine)
        v = st.fields["sum_pxx"]
        st.fields["sum_pxx"] = st.fields["sum_px"]
        return st
    cl = K.check_function(I, "gmm.e_step", lambda: ([G.mk_data(), G.mk_gmm(I)], {}), wrong, G.facts(), "ctl")
    bad = [c for c in cl if c.status == "refuted"]
    return [Clause("C02.control.sum_pxx-wrong", "refuted" if bad else ("discharged" if cl and all(c.status == "discharged" for c in cl) else "undecided"), "npsym", "spec with sum_pxx := sum_px")]


GROUPS = [guard(estep_post), guard(resp_lemmas), guard(add_post), guard(split_lemma), guard(transform_post)]
CONTROLS = [ctrl]
SHARED = []
REPLAY = [("C02.iadd.fresh", "gmm_repro.py", "fresh_iadd", {}), ("C02.add.fresh", "gmm_repro.py", "fresh_iadd", {}), ("C02.estep", "gmm_repro.py", "estep", {}), ("C02.resp", "gmm_repro.py", "estep", {}), ("C02.n.", "gmm_repro.py", "estep", {}),
          ("C02.add", "gmm_repro.py", "stats_add", {"inplace": False}), ("C02.iadd", "gmm_repro.py", "stats_add", {"inplace": True}),
          ("C02.split", "gmm_repro.py", "stats_add", {"inplace": True}), ("C02.transform", "gmm_repro.py", "estep", {})]
TRUSTED = ["np.logaddexp.reduce is a stable log-sum-exp (DESIGN §3)",
           "range-split axiom Σ_{b<B} f(b) = f(0) + Σ_{i<B-1} f(i+1) and partition-sum axiom Σ_b Σ_{j<size(b)} f(off(b)+j) = Σ_{s<N} f(s)",
           "non-consecutive blocks follow from consecutive ones by commutativity of + (real arithmetic)"]
ASSUMPTIONS = ["Valid(m) as in C01", "the list has at least one element where a reduction is taken"]
XCHECK = ['gmm']
