"""C12 -- training from statistics is independent of bag partitioning and scheduling."""
import ast

import z3

from vt import terms as T
from vt.terms import Poly, P, ZERO, ONE, Sum
from vt import arr as A
from vt.arr import Arr, input_arr, ModelError
from vt.values import Obj, SList, Bag, Delayed
from vt import contract as K
from vt.interp import _Break
from vt.verify import Clause
from vt import verify as V
from vt import smt
from contracts import gmm as G
from contracts import ivector as IV
from props.common import new_interp, collapse, guard, bounded

FUNCTIONS = ["ivector.IVectorMachine.fit (bag branch: per-partition E-step, pairwise tree reduction, copy-back; list branch)",
             "ivector.IVectorStats.__add__", "ivector.e_step / m_step (by contract)"]


class TreeProbe:
    """loop hook for the pairwise reduction `while (length := len(stats)) > 1`:
    one generic round is executed on index-tagged elements; the operand indices
    are read off the result and the coverage VC is discharged for all lengths."""

    def __init__(self):
        self.clauses = []
        self.done = False

    def __call__(self, I, s, env):
        stats = env.lookup("stats")
        if not isinstance(stats, SList):
            raise ModelError("tree reduction over a concrete list")
        if not self.done:
            self.verify_round(I, s, env)
            self.done = True
        # summary justified by the VC: after the loop stats == [Σ of all partitions]
        vals = I.dask_compute(stats)
        n = vals.slen()
        first = vals.elem(Poly.const(0))
        rest = SList(n - 1, lambda i: vals.elem(i + 1))
        tot = I.fold_slist(rest, first, ast.Add, inplace=False)
        # write the fold as one Σ over all partitions (range-split axiom, as in C02.split)
        from props.C02 import rejoin_generic
        tot = rejoin_generic(tot, vals, n, ("nij_sigma_wij2", "fnorm_sigma_wij", "snormij", "nij"))
        env.local["stats"] = [tot]
        # walrus variable of the guard
        env.local["length"] = ONE

    def verify_round(self, I, s, env):
        L = T.sym("Ltree", "int")
        sub_env = type(env)(env.module, dict(env.local), env.parent)
        sub_env.func = getattr(env, "func", None)
        mach = env.lookup("self")

        def part(i):
            """the statistics of partition i: an IVectorStats object every entry of which is the index-tagged scalar part[i]"""
            st = Obj(I.classes["IVectorStats"])
            Cn, Dn, Rn = mach.fields["dim_c"], mach.fields["dim_d"], mach.fields["dim_t"]
            st.fields.update(dim_c=Cn, dim_d=Dn, dim_t=Rn,
                             nij_sigma_wij2=Arr((Cn, Rn, Rn), lambda c, a, b: T.app("part", i)),
                             fnorm_sigma_wij=Arr((Cn, Dn, Rn), lambda c, d, a: T.app("part", i)),
                             snormij=Arr((Cn, Dn), lambda c, d: T.app("part", i)), nij=Arr((Cn,), lambda c: T.app("part", i)))
            return st

        def tagged(v):
            """the index-tagged scalar content of a (computed) round element"""
            v = I.dask_compute(v)
            if isinstance(v, Obj) and isinstance(v.fields.get("nij"), Arr):
                return P(v.fields["nij"].fn(T.fresh("c")))
            return P(v)
        sub_env.local["stats"] = SList(L, part)
        saved_path, saved_assumed = list(I.path), set(I.assumed)
        I.assumed.add(T.cmp_cond("<", ONE, L))
        rounds = []
        # the body forks on the parity of L: enumerate both outcomes by hand
        for parity in (0, 1):
            e2 = type(env)(env.module, dict(sub_env.local), env.parent)
            e2.func = sub_env.func
            I.assumed = set(saved_assumed) | {T.cmp_cond("<", ONE, L)}
            modc = T.cmp_cond("!=", T.mk_mod(L, 2), ZERO)
            I.assumed.add(modc if parity else T.c_not(modc))
            g = I.ev(s.test, e2)
            I.exec_block(s.body, e2)
            new = e2.lookup("stats")
            rounds.append((parity, new))
        I.path, I.assumed = saved_path, saved_assumed
        h_sym = T.mk_floordiv(L, 2)
        Lz, jz, iz = z3.Int("L"), z3.Int("j"), z3.Int("i")
        hz = Lz / 2
        ok_all = True
        details = []
        for parity, new in rounds:
            if not isinstance(new, SList):
                self.clauses.append(Clause("C12.iv.tree", "undecided", "", "round result is not a list"))
                return
            i = T.fresh("i")
            # purity of the reduction tasks (Dask contract): an object handed to EVERY task of the round (the same Python object
            # for two different indices) must not be modified by a task -- the tasks would communicate through it, and the
            # result would depend on the order in which they run
            d1 = new.elem(i)
            iname = T.symname(i)

            def depends(v, depth=0):
                if isinstance(v, Arr):
                    e = v.fn(*[T.fresh("q") for _ in v.shape])
                    return isinstance(e, (Poly, T.Cond)) and iname in e.syms
                if isinstance(v, (Poly, T.Cond)):
                    return iname in v.syms
                if isinstance(v, Obj) and depth < 3:
                    return any(depends(x, depth + 1) for x in v.fields.values())
                return False
            # (the list is built from ONE generic element: an object argument that does not depend on the index is the same
            # object for every task)
            shared = [a for a in getattr(d1, "args", ()) if isinstance(a, Obj) and not depends(a)]
            before = [{k: (id(v), getattr(v, "fn", None)) for k, v in a.fields.items()} for a in shared]
            el = tagged(d1)
            for a, b4 in zip(shared, before):
                now = {k: (id(v), getattr(v, "fn", None)) for k, v in a.fields.items()}
                changed = sorted(k for k in now if now[k] != b4.get(k))
                if changed:
                    self.clauses.append(Clause("C12.iv.tree", "refuted", "npsym",
                                               "a task of the pairwise reduction modifies an object shared by all tasks of the round (%s.%s): the partial "
                                               "sums are accumulated into one accumulator, so later nodes add it to itself and the result depends on the "
                                               "number of partitions and on the execution order" % (a.cls.name, ", ".join(changed))))
                    return
            idxs = part_indices(el)
            extra = [part_indices(tagged(x)) for x in getattr(new, "extra", [])]
            # translate index expressions to z3 (linear in i, L, floordiv(L,2))
            def tz(p):
                tr = smt.Tr(smt.Facts())
                tr.cache[T.Atom("sym", (T.symname(i),), "int")] = iz
                tr.cache[T.Atom("sym", ("Ltree",), "int")] = Lz
                for a in P(p).atoms():
                    if a.kind == "app" and a.args[0] == "floordiv":
                        tr.cache[a] = hz
                return tr.poly(p)
            slots = [tz(e) for e in idxs]
            carry = [tz(e[0]) for e in extra if e]
            newlen = tz(new.length) + len(getattr(new, "extra", []))
            par = (Lz % 2 != 0) if parity else (Lz % 2 == 0)
            covers = [z3.Exists([iz], z3.And(iz >= 0, iz < tz(new.length), sl == jz)) for sl in slots] + [c == jz for c in carry]
            exactly_one = z3.And(z3.Or(*covers), *[z3.Not(z3.And(covers[a], covers[b])) for a in range(len(covers)) for b in range(a + 1, len(covers))])
            # each slot family is injective in i
            i2 = z3.Int("i2")
            inj = z3.And(*[z3.ForAll([iz, i2], z3.Implies(z3.And(sl == z3.substitute(sl, (iz, i2))), iz == i2)) for sl in slots])
            inrange = z3.And(*[z3.ForAll([iz], z3.Implies(z3.And(iz >= 0, iz < tz(new.length)), z3.And(sl >= 0, sl < Lz))) for sl in slots] +
                              [z3.And(c >= 0, c < Lz) for c in carry])
            vc = z3.Implies(z3.And(Lz >= 2, par, jz >= 0, jz < Lz), z3.And(exactly_one, inj, inrange, newlen >= 1, newlen < Lz))
            sol = z3.Solver()
            sol.set("timeout", 20000)
            sol.add(z3.Not(vc))
            r = sol.check()
            details.append("L %s: slots %s carry %s -> %s" % ("odd" if parity else "even", [str(x) for x in slots], [str(c) for c in carry], r))
            if r != z3.unsat:
                ok_all = False
                status = "refuted" if r == z3.sat else "undecided"
                wit = {"model": str(sol.model())} if r == z3.sat else None
                self.clauses.append(Clause("C12.iv.tree", status, "z3", "; ".join(details), witness=wit))
        if ok_all:
            self.clauses.append(Clause("C12.iv.tree", "discharged", "z3",
                                       "for every length L >= 2 each partition index occurs in exactly one operand slot of the next round, "
                                       "the new length is in [1, L): " + "; ".join(details)))


def part_indices(p):
    out = []
    for a in p.atoms():
        if a.kind == "app" and a.args[0] == "part":
            out.append(a.args[1])
    return sorted(out, key=lambda x: x.key)


def iv_fit(ctx):
    """IVectorMachine.fit from a bag (any partitioning; shared and isolated tasks) hands the
    M-step the statistics of ALL samples exactly once and ends with the M-step's T and sigma --
    the same as the list branch"""
    out = []
    results = {}
    for variant, isolated in (("list", False), ("bag", False), ("bag", True)):
        I = new_interp({"ivector.e_step": IV.spec_e_step, "ivector.IVectorStats.__add__": IV.spec_stats_add})
        I.isolated = isolated
        probe = TreeProbe()
        I.loop_hooks["ivector.IVectorMachine.fit"] = probe
        seen = []

        def m_step_abs(ctx_, machine, stats, seen=seen):
            seen.append(stats)
            machine.fields["T"] = input_arr("Tnew", (G.Cc, G.Dd, IV.Rr))
            if machine.fields["update_sigma"]:
                machine.fields["sigma"] = input_arr("signew", (G.Cc, G.Dd))
            return machine
        I.contracts["ivector.m_step"] = K.as_contract(m_step_abs)

        def run(I=I, variant=variant):
            m = IV.mk_machine(I, trained=False)
            if variant == "list":
                X = IV.mk_stats_list(I)
            else:
                tag, nb, sz, off = T.new_partition(IV.Jj, "bag")
                X = Bag(nb, sz, lambda p, j: IV.mk_stats_list(I).elem(off(p) + j))
            I.call(K.lookup(I, "ivector.IVectorMachine.fit"), [m, X], {})
            return m
        try:
            paths = I.run_paths(run)
        except ModelError as e:
            out.append(Clause("C12.iv.fit", "undecided", "", "%s%s: %s at %s" % (variant, "/isolated" if isolated else "", e, I.loc)))
            continue
        out += probe.clauses
        results[(variant, isolated)] = (I, paths, list(seen))
    if ("list", False) in results:
        Il, pl, sl = results[("list", False)]
        F = IV.facts()
        for key in (("bag", False), ("bag", True)):
            if key not in results:
                continue
            Ib, pb, sb = results[key]
            label = "bag%s" % ("/isolated" if key[1] else "")
            cl = []
            if len(pb) != 1 or pb[0][1][0] != "ok" or len(sb) != len(sl) or not sl:
                cl.append(Clause("C12.iv.fit", "refuted", "npsym", "%s: %d paths, %d M-steps (list branch: %d)" % (label, len(pb), len(sb), len(sl))))
            else:
                V.compare(sb[0], sl[0], F, "C12.iv.once", cl)
                V.compare(pb[0][1][1], pl[0][1][1], F, "C12.iv.copyback", cl)
            for c in cl:
                c.detail = "%s: %s" % (label, c.detail)
            out += cl
    res = collapse([c for c in out if c.name == "C12.iv.tree"] or [Clause("C12.iv.tree", "undecided", "", "tree loop not reached")], "C12.iv.tree", "")
    res += collapse([c for c in out if c.name.startswith("C12.iv.once")] or [Clause("x", "undecided", "", "no comparison")], "C12.iv.once",
                    "the M-step receives Σ over all samples of the per-sample contributions (each partition exactly once), for every partitioning of the bag")
    res += collapse([c for c in out if c.name.startswith("C12.iv.copyback") or c.name == "C12.iv.fit"] or [Clause("x", "undecided", "", "no comparison")],
                    "C12.iv.copyback", "after fit the machine holds the M-step's T and sigma, with shared and with isolated (serialised) tasks, as on the list branch")
    return res


GROUPS = [guard(iv_fit)]
BOUNDED = [bounded("fa_repro.py", "bag_vs_list", "C12.fa.bag",
                   "ISV/JFA trained from a Dask bag with 1, 2, 3 and one-per-element partitions, partitions mixing classes and unsorted labels, equal list "
                   "training exactly (rationals) in U, V, D -- regrouping by class, per-class reduction and copy-back (thorough tier: also worker processes)")]
SHARED = [("C09", "handover", ["C09.handover"]), ("C09", "reduce_iadd", ["C09.reduce"]), ("C09", "esteps", ["C09.estep.V", "C09.estep.U", "C09.estep.D", "C09.isv.estep"]), ("C09", "finalizers", ["C09.finalize.V", "C09.finalize.U"]),      # copy-back of U, V, D on the Dask path with isolated (serialised) tasks
          ("C10", "stats_ops", ["C10.stats.add"]), ("C10", "estep", ["C10.estep.nij", "C10.estep.snormij", "C10.estep.nij_sigma_wij2", "C10.estep.fnorm_sigma_wij"])]
REPLAY = [("C09", "fa_repro.py", "dask_classes", {}), ("C12.iv", "iv_repro.py", "bag", {}), ("C12.fa", "fa_repro.py", "bag_vs_list", {}), ("C10", "iv_repro.py", "all", {})]
TRUSTED = ["Dask contract (DESIGN §3) incl. Bag.to_delayed() yielding the partitions in order", "range-split / partition-sum axioms for Σ"]
ASSUMPTIONS = ["real schedulers are replaced by the frame argument over the Dask contract", "ISV/JFA bag training is covered by the bounded objrun engine (C12.fa.*)"]
XCHECK = ['ivector']
