"""C17 -- a GMM's likelihood reflects its current visible parameters, whatever its history.

Induction over public mutators: each one re-establishes Inv (I1 log-weights,
I2 variances >= floors, I3 normaliser cache) from Inv, for every argument.
The observational clause follows from C01/C02 being proved under Inv for both
cache states with specifications that mention only the visible parameters."""
from vt import terms as T
from vt.terms import Poly, P, C, ZERO, ONE, Sum
from vt import arr as A
from vt.arr import Arr, input_arr
from vt.values import Obj, PyRaise
from vt import contract as K
from vt.verify import Clause
from vt import verify as V
from contracts import gmm as G
from props.common import new_interp, collapse, guard

FUNCTIONS = ["gmm.GMMMachine.__init__", "gmm.GMMMachine.weights.setter", "gmm.GMMMachine.means.setter",
             "gmm.GMMMachine.variances.setter", "gmm.GMMMachine.variance_thresholds.setter",
             "gmm.GMMMachine.variance_thresholds (getter)", "gmm.GMMMachine.g_norms (getter)",
             "gmm.ml_gmm_m_step", "gmm.map_gmm_m_step", "gmm.GMMMachine.load"]


def run_setter(I, m, attr, val):
    I.setattr(m, attr, val)
    return None


def setter_group(name, attr, spec, arg_builders, machine_kw_list, label):
    out = []
    for mk in machine_kw_list:
        for an, ab in arg_builders:
            I = new_interp()
            F = G.facts_inv(G.mk_gmm(I, **mk), G.facts(extra_pos_apps={"arg", "argm"}, extra_pos_syms={"args"}))
            cl = K.check_function(I, lambda I_, m, v: run_setter(I_, m, attr, v),
                                  lambda: ([G.mk_gmm(I, **mk), ab()], {}), spec, F, name + ".post",
                                  state_names={0: "self"})
            out += cl
            # Inv on the post state (a fresh machine per explored path: the setter mutates it)
            def post_state():
                m = G.mk_gmm(I, **mk)
                I.complete_fixture([m])
                run_setter(I, m, attr, ab())
                return m
            res = I.run_paths(post_state)
            for pc, (k, mm) in res:
                if k == "ok":
                    G.inv_clauses(mm, F.extend(pc), name + ".inv", out)
    return collapse(out, name, label)


def arg_scalar():
    return T.sym("args")


def arg_vec(shape, nm="arg"):
    return lambda: input_arr(nm, shape)


MACHINES = [dict(gnorms="cached", thr="scalar"), dict(gnorms="none", thr="scalar"), dict(gnorms="cached", thr="none"),
            dict(gnorms="cached", thr="matrix"), dict(gnorms="cached", thr="perfeature")]


def set_weights(ctx):
    return setter_group("C17.set.weights", "weights", G.spec_set_weights, [("vec", arg_vec((G.Cc,)))], MACHINES[:2],
                        "weights setter stores the array and refreshes log-weights (I1); I2, I3 untouched")


def set_means(ctx):
    return setter_group("C17.set.means", "means", G.spec_set_means, [("mat", arg_vec((G.Cc, G.Dd)))], MACHINES[:2],
                        "means setter stores the array; Inv preserved")


def set_variances(ctx):
    return setter_group("C17.set.variances", "variances", G.spec_set_variances, [("mat", arg_vec((G.Cc, G.Dd)))], MACHINES,
                        "variances := max(floors, arg) elementwise, normaliser cache recomputed from the clamped values (I2, I3)")


def set_thresholds(ctx):
    out = []
    out += setter_group("C17.set.thresholds.scalar", "variance_thresholds", G.spec_set_thresholds,
                        [("scalar", arg_scalar)], MACHINES + [dict(variances=False, gnorms="none")], "")
    out += setter_group("C17.set.thresholds.shape-change", "variance_thresholds", G.spec_set_thresholds,
                        [("perfeature", arg_vec((G.Dd,), "argm")), ("matrix", arg_vec((G.Cc, G.Dd), "argm"))], MACHINES[:4], "")
    return collapse(out, "C17.set.thresholds", "floors := arg (raising or lowering, scalar / per-feature / per-component); "
                    "existing variances re-clamped, cache refreshed (I2, I3)")


def gnorms_lazy(ctx):
    out = []
    for mk in (dict(gnorms="none"), dict(gnorms="cached"), dict(gnorms="none", variances=False)):
        I = new_interp()
        F = G.facts()
        cl = K.check_function(I, lambda I_, m: I_.getattr(m, "g_norms"), lambda: ([G.mk_gmm(I, **mk)], {}),
                              G.spec_get_gnorms, F, "C17.gnorms.lazy", state_names={0: "self"})
        out += cl
    return collapse(out, "C17.gnorms.lazy", "g_norms getter returns D log 2pi + Σ_d log var (filling the cache from the current variances)")


def init_inv(ctx):
    """constructor: Inv holds; with a UBM the parameters equal the prior's"""
    out = []
    for label, kw in (("plain", {}), ("weights", {"weights": "w"}), ("ubm", {"ubm": True}), ("map", {"ubm": True, "trainer": "map"})):
        I = new_interp()
        F = G.facts_inv(G.mk_gmm(I, "0"), G.facts(extra_pos_apps={"wgiven"}), "0")     # the prior satisfies Inv (its variances >= its floors)

        def build(kw=kw, I=I):
            k = {}
            if kw.get("ubm"):
                k["ubm"] = G.mk_gmm(I, "0")
            if kw.get("weights"):
                k["weights"] = input_arr("wgiven", (G.Cc,))
            if kw.get("trainer"):
                k["trainer"] = kw["trainer"]
            return [G.Cc], k
        res = I.run_paths(lambda: I.call(I.classes["GMMMachine"], *build()))
        for pc, (k, m) in res:
            if k != "ok":
                out.append(Clause("C17.init." + label, "refuted", "npsym", "constructor raises %s" % (m,)))
                continue
            G.inv_clauses(m, F.extend(pc), "C17.init." + label, out)
            if kw.get("ubm"):
                u = build()[1]["ubm"]
                for fld in ("_means", "_variances", "_weights"):
                    exp = u.fields[fld]
                    V.compare(m.fields[fld], exp, F, "C17.init.%s.%s" % (label, fld), out)
    return collapse(out, "C17.init", "constructor establishes Inv (default weights 1/C, given weights, copy of a prior)")


def mstep_inv(ctx):
    """after any single M-step (ML or MAP, any switches) Inv holds"""
    out = []
    for trainer in ("ml", "map"):
        for um in (True, False):
            for uv in (True, False):
                for uw in (True, False):
                    I = new_interp()
                    F = G.facts(extra_pos_apps={"n"})
                    F.pos_syms |= {"t", "alpha"}
                    ubm = G.mk_gmm(I, "0") if trainer == "map" else None
                    m = G.mk_gmm(I, trainer=trainer, ubm=ubm, update=(um, uv, uw))
                    F = G.facts_inv(m, F)
                    st = G.mk_stats(I)
                    fn = I.modules["gmm"].globals["m_step"]
                    try:
                        res = I.run_paths(lambda: (I.call(fn, [[st], m], {}), m)[1])
                    except A.ModelError as e:
                        out.append(Clause("C17.mstep.%s" % trainer, "undecided", "", str(e)))
                        continue
                    for pc, (k, mm) in res:
                        if k == "ok":
                            G.inv_clauses(mm, F.extend(pc), "C17.mstep.%s[%d%d%d]" % (trainer, um, uv, uw), out)
    ml = [c for c in out if ".ml" in c.name]
    mp = [c for c in out if ".map" in c.name]
    return collapse(ml, "C17.mstep.ml", "Inv after an ML M-step, all 8 switch combinations") + \
        collapse(mp, "C17.mstep.map", "Inv after a MAP M-step incl. the in-place renormalisation of the weights, all 8 combinations")


def observational(ctx):
    """the specifications of log_weighted_likelihood / log_likelihood / e_step
    mention only the visible weights, means, variances (and the data)"""
    I = new_interp()
    m, x = G.mk_gmm(I), G.mk_data()
    out = []
    allowed = {"w", "mu", "v", "x"}
    for nm, val in (("lwl", G.spec_log_weighted_likelihood(None, x, m)), ("ll", G.spec_log_likelihood(None, x, m)),
                    ("estep", G.spec_e_step(None, x, m))):
        vals = [val] if isinstance(val, Arr) else [v for v in val.fields.values() if isinstance(v, (Arr, Poly))]
        used = set()
        for v in vals:
            t = P(v.fn(*[T.fresh("q") for _ in v.shape])) if isinstance(v, Arr) else P(v)
            from vt.loops import _appnames
            used |= _appnames(t)
        bad = used - allowed
        out.append(Clause("C17.observational." + nm, "discharged" if not bad else "refuted", "normaliser",
                          "" if not bad else "contract mentions hidden state %r" % bad))
    return collapse(out, "C17.observational", "likelihood/statistics contracts are functions of the visible parameters only; "
                    "the code meets them under Inv for both cache states (C01.lwl.post, C01.ll.post, C02.estep.*)")


def ctrl(ctx):
    """control: a machine with a stale cache violates Inv and the lwl contract must then FAIL"""
    I = new_interp()

    def build():
        m = G.mk_gmm(I)
        m.fields["_g_norms"] = input_arr("stale", (G.Cc,))
        return [G.mk_data(), m], {}
    cl = K.check_function(I, "gmm.log_weighted_likelihood", build, G.spec_log_weighted_likelihood, G.facts(), "ctl")
    bad = [c for c in cl if c.status == "refuted" and c.name.endswith("result")]
    return [Clause("C17.control.stale-cache", "refuted" if bad else ("discharged" if cl and all(c.status == "discharged" for c in cl) else "undecided"), "npsym", "stale normaliser must change the likelihood")]


GROUPS = [guard(set_weights), guard(set_means), guard(set_variances), guard(set_thresholds), guard(gnorms_lazy),
          guard(init_inv), guard(mstep_inv), guard(observational)]
CONTROLS = [ctrl]
SHARED = [("C01", "lwl_post", ["C01.lwl.post"]), ("C01", "ll_post", ["C01.ll.post"]), ("C02", "estep_post", ["C02.estep.n", "C02.estep.sum_px", "C02.estep.sum_pxx", "C02.estep.log_likelihood"])]
REPLAY = [("C17", "gmm_repro.py", "history", {})]
TRUSTED = ["copy.deepcopy / pickle copy __dict__ field by field (so Inv is carried over unchanged)",
           "np.maximum / np.log / sum as in the NumPy model"]
ASSUMPTIONS = ["arguments of setters are finite arrays of the documented shapes; floors > 0",
               "user code mutating a returned array in place is outside 'public operations'"]
XCHECK = ['gmm']
