"""C01 -- GMM log-likelihood is the log of a normalised diagonal-Gaussian mixture.

Obligations (DESIGN §5 C01): lwl.post, reduce.ndarray, reduce.dask, ll.post,
lse-of-lwl, row-local, def, gnorm.inv, logw.inv, estep.ll
"""
from fractions import Fraction

from vt import terms as T
from vt.terms import Poly, P, C, ZERO, ONE, Sum, LSE
from vt import arr as A
from vt.arr import Arr, input_arr
from vt.values import Obj
from vt import contract as K
from vt.verify import Clause
from vt import verify as V
from contracts import gmm as G
from props.common import new_interp, collapse, guard

FUNCTIONS = ["gmm.logaddexp_reduce (trusted contract)", "gmm.log_weighted_likelihood", "gmm.reduce_loglikelihood",
             "gmm.log_likelihood", "gmm.e_step", "gmm.GMMMachine.variances.setter", "gmm.GMMMachine.g_norms",
             "gmm.GMMMachine.weights.setter", "gmm.GMMMachine.log_likelihood", "gmm.GMMMachine.log_weighted_likelihood"]


def lwl_post(ctx):
    out = []
    for gn in ("cached", "none"):
        for thr in ("scalar", "none"):
            I = new_interp()
            F = G.facts()
            cl = K.check_function(
                I, "gmm.log_weighted_likelihood",
                lambda: ([G.mk_data(), G.mk_gmm(I, gnorms=gn, thr=thr)], {}),
                G.spec_log_weighted_likelihood, F, "C01.lwl.post", state_names={1: "machine"})
            out += cl
    # the public method is a one-line wrapper: same contract
    I = new_interp()
    cl = K.check_function(
        I, lambda I_, data, m: I_.call(I_.getattr(m, "log_weighted_likelihood"), [data], {}),
        lambda: ([G.mk_data(), G.mk_gmm(I)], {}), G.spec_log_weighted_likelihood, G.facts(), "C01.lwl.post.method")
    out += cl
    # one sample given as a 1-d vector: one value per component, shape (C, 1)
    for target in ("function", "method"):
        I = new_interp()
        tgt = "gmm.log_weighted_likelihood" if target == "function" else (lambda I_, data, m: I_.call(I_.getattr(m, "log_weighted_likelihood"), [data], {}))
        out += K.check_function(I, tgt, lambda I=I: ([G.mk_data(ndim=1), G.mk_gmm(I)], {}), G.spec_log_weighted_likelihood, G.facts(),
                                "C01.lwl.post.single." + target, state_names={1: "machine"})
    # integer-typed samples: same value, nothing computed in the samples' own integer dtype
    I = new_interp()
    out += K.check_function(I, "gmm.log_weighted_likelihood", lambda: ([G.mk_data(intdata=True), G.mk_gmm(I)], {}),
                            G.spec_log_weighted_likelihood, G.facts(), "C01.lwl.post.intdata", state_names={1: "machine"})
    defs = [c for c in out if c.name.endswith(".def")]
    post = [c for c in out if not c.name.endswith(".def")]
    return collapse(post, "C01.lwl.post", "result[c,s] == log w_c - 1/2(D log 2pi + Σ_d log v_cd + Σ_d (x_sd-mu_cd)^2/v_cd), all C,D,N") + \
        collapse(defs, "C01.lwl.def", "divisions/logs defined under Valid(m)")


def ll_post(ctx):
    """log_likelihood == log Σ_c w_c N(x; mu_c, v_c): ndarray branch, Dask branch
    (any partition of the component axis), single sample"""
    res = []
    for label, kind, ndim in (("ndarray", "numpy", 2), ("dask", "dask", 2), ("single", "numpy", 1)):
        I = new_interp({"gmm.log_weighted_likelihood": G.spec_log_weighted_likelihood})
        cl = K.check_function(
            I, "gmm.log_likelihood",
            lambda: ([G.mk_data(kind=kind, ndim=ndim), G.mk_gmm(I, kind="numpy")], {}),
            G.spec_log_likelihood, G.facts(), "C01.ll." + label, state_names={1: "machine"})
        name = {"ndarray": "C01.reduce.ndarray", "dask": "C01.reduce.dask", "single": "C01.ll.single"}[label]
        res += collapse(cl, name, "log_likelihood[s] == LSE_c lwl[c,s] on the %s path" % label)
    # method wrapper + end-to-end without the callee contract (ll.post)
    I = new_interp()
    cl = K.check_function(
        I, lambda I_, data, m: I_.call(I_.getattr(m, "log_likelihood"), [data], {}),
        lambda: ([G.mk_data(), G.mk_gmm(I, gnorms="none")], {}), G.spec_log_likelihood, G.facts(), "C01.ll.post")
    res += collapse(cl, "C01.ll.post", "GMMMachine.log_likelihood(X)[s] == log Σ_c w_c Π_d N(x_sd; mu_cd, v_cd)")
    return res


def lse_of_lwl(ctx):
    """lemma over the contracts: LSE_c(spec_lwl[c,s]) == spec_ll[s], and the implied
    density is the mixture Σ_c w_c Π_d N(...) (exp of the spec is the textbook density)"""
    I = new_interp()
    m = G.mk_gmm(I)
    x = G.mk_data()
    s = T.fresh("s")
    lw = G.spec_log_weighted_likelihood(None, x, m)
    ll = G.spec_log_likelihood(None, x, m)
    lhs = LSE(G.Cc, lambda c: lw.fn(c, s), "c")
    out = []
    V.compare_terms(lhs, P(ll.fn(s)), G.facts(), "C01.lse-of-lwl", out)
    # exp(ll) == Σ_c w_c * Π_d (2 pi v)^-1/2 exp(-(x-mu)^2/(2v))   [density form]
    w, mu, v = m.fields["_weights"], m.fields["_means"], m.fields["_variances"]
    dens = Sum(G.Cc, lambda c: P(w.fn(c)) * T.mk_exp(
        Sum(G.Dd, lambda d: -Fraction(1, 2) * (Poly.const(G.LOG2PI) + T.mk_log(P(v.fn(c, d))))
            - (P(x.fn(s, d)) - P(mu.fn(c, d))) ** 2 / (2 * P(v.fn(c, d))), "d")), "c")
    V.compare_terms(T.mk_exp(P(ll.fn(s))), dens, G.facts(), "C01.density", out)
    return collapse(out, "C01.lse-of-lwl", "LSE_c lwl == ll and exp(ll) == Σ_c w_c Π_d N(x_d; mu_cd, v_cd)")


def row_local(ctx):
    """the value at row s mentions the data only at row s => a sample scores the
    same alone and inside any batch"""
    I = new_interp()
    x = G.mk_data()
    m = G.mk_gmm(I)
    res = I.run_paths(lambda: I.call(I.modules["gmm"].globals["log_likelihood"], [x, m], {}))
    out = []
    for pc, (k, r) in res:
        if k != "ok" or not isinstance(r, Arr):
            out.append(Clause("C01.row-local", "undecided", "", "unexpected outcome %r" % (r,)))
            continue
        s = T.fresh("s")
        t = P(r.fn(s))
        bad = []
        for first in data_rows(t, "x"):
            if not T.equal(first, s):
                bad.append(first)
        out.append(Clause("C01.row-local", "discharged" if not bad else "refuted", "normaliser",
                          "" if not bad else "log_likelihood[s] reads data rows %r" % bad))
    # single sample == the same sample in a batch: instantiate both contracts
    return collapse(out, "C01.row-local", "log_likelihood(X)[s] depends on X[s,:] only")


def data_rows(t, name):
    """first index argument of every occurrence of array `name` in term t that is
    not a bound variable of an enclosing reduction over the *feature* axis"""
    rows = []
    stack = [t]
    seen = set()
    while stack:
        y = stack.pop()
        if isinstance(y, Poly):
            for m, _ in y.terms:
                for a, _p in m:
                    if a not in seen:
                        seen.add(a)
                        stack.append(a)
        elif isinstance(y, T.Cond):
            stack.extend(a for a in y.args if isinstance(a, (Poly, T.Cond)))
        elif isinstance(y, T.Atom):
            if y.kind == "app" and y.args[0] == name:
                rows.append(y.args[1])
            stack.extend(a for a in y.args if isinstance(a, (Poly, T.Cond)))
    return rows


def definedness(ctx):
    """C01.def: the result is defined for all finite inputs under the float
    model of DESIGN §2.4 -- no log() of a sum of exponentials that can underflow
    outside the trusted stable log-add-exp"""
    out = []
    for kind in ("numpy", "dask"):
        I = new_interp()
        log = T.SideLog(I.side_ctx)
        T.SIDE = log
        try:
            I.run_paths(lambda: force(I.call(I.modules["gmm"].globals["log_likelihood"],
                                             [G.mk_data(kind=kind), G.mk_gmm(I)], {})))
        finally:
            T.SIDE = None
        haz = [it for it in log.items if it[0] == "underflow"]
        n = V.check_sides(T_filter(log, lambda it: it[0] != "underflow"), G.facts(), "C01.def." + kind, out)
        for it in haz:
            # a HAZARD, not a counterexample: whether the sum can underflow depends on what was subtracted before the exp (a shift by
            # the maximum the pattern matcher does not recognise is safe) -- undecided; the native far-tail search decides
            out.append(Clause("C01.def", "undecided", "npsym",
                              "log() applied at %s to a sum of exponentials outside the stable log-add-exp (and outside the recognised "
                              "max-shift idiom): underflows to log(0) = -inf for samples far from every mean unless shifted" % it[3],
                              witness={"replay": "far-tail"}))
        if not haz:
            out.append(Clause("C01.def.%s.lse" % kind, "discharged", "npsym",
                              "every log of a sum of exponentials goes through logaddexp.reduce"))
    return collapse(out, "C01.def", "finite for all finite samples (float model §2.4)")


def T_filter(log, pred):
    l2 = T.SideLog()
    l2.items = [it for it in log.items if pred(it)]
    return l2


def force(v):
    if isinstance(v, Arr):
        idx = [T.fresh("q") for _ in v.shape]
        v.fn(*idx)
    return v


GROUPS = [guard(lwl_post), guard(ll_post), guard(lse_of_lwl), guard(row_local), guard(definedness)]
SHARED = [("C17", "set_variances", ["C17.set.variances"]), ("C17", "set_thresholds", ["C17.set.thresholds"]), ("C17", "set_weights", ["C17.set.weights"]),
          ("C17", "gnorms_lazy", ["C17.gnorms.lazy"]), ("C17", "init_inv", ["C17.init"]), ("C17", "mstep_inv", ["C17.mstep.ml", "C17.mstep.map"]),
          ("C17", "set_means", ["C17.set.means"]), ("C02", "estep_post", ["C02.estep.log_likelihood"])]


def ctrl_perturbed_spec(ctx):
    """vacuity control: a specification with the Gaussian constant dropped /
    the result doubled must be REFUTED by the same machinery"""
    I = new_interp()

    def wrong(ctx_, data, machine):
        r = G.spec_log_weighted_likelihood(ctx_, data, machine)
        return Arr(r.shape, lambda c, s: 2 * P(r.fn(c, s)), "real", r.kind)
    cl = K.check_function(I, "gmm.log_weighted_likelihood", lambda: ([G.mk_data(), G.mk_gmm(I)], {}),
                          wrong, G.facts(), "C01.control.lwl-doubled")
    bad = [c for c in cl if c.status == "refuted"]
    out = [Clause("C01.control.lwl-doubled", "refuted" if bad else ("discharged" if cl and all(c.status == "discharged" for c in cl) else "undecided"), "npsym", "doubled specification")]
    # precondition satisfiable: the facts are consistent (a canary False goal must be refuted)
    from vt import smt
    st, info = smt.prove(T.FALSE, G.facts(), [T.cmp_cond("<", ZERO, T.sym("thr"))])
    out.append(Clause("C01.control.pre-sat", "refuted" if st == "refuted" else "discharged", "z3", "False under Valid(m) must not be provable"))
    return out


CONTROLS = [ctrl_perturbed_spec]
REPLAY = [("C17", "gmm_repro.py", "history", {}), ("C02", "gmm_repro.py", "estep", {}), ("C01.lwl", "gmm_repro.py", "lwl", {}), ("C01.reduce", "gmm_repro.py", "ll", {}), ("C01.ll", "gmm_repro.py", "ll", {}),
          ("C01.row-local", "gmm_repro.py", "ll", {}), ("C01.lse-of-lwl", "gmm_repro.py", "ll", {}), ("C01.def", "gmm_repro.py", "tail", {})]
TRUSTED = ["np.logaddexp.reduce(a, axis, initial=-inf) == log Σ exp along axis, computed stably (DESIGN §3)",
           "da.reduction(x, chunk, aggregate, axis=0) == aggregate over the concatenated chunk results of an arbitrary consecutive partition",
           "a Gaussian density integrates to one (mathematics; the oracle is the textbook density)"]
ASSUMPTIONS = ["Valid(m): weights > 0, variances > 0, variance floors > 0 (preconditions of the property)",
               "blocks of a Dask partition are non-empty (an empty block contributes -inf, absorbed by log-add-exp)"]
XCHECK = ['gmm']
