"""C13 -- trained models are valid: finite, weights on the simplex, variances above floors.

Definedness / range obligations (DESIGN §2.4): every division has a non-zero
denominator, every log a positive argument, np.where branches path-sensitively."""
import itertools

from vt import terms as T
from vt.terms import Poly, P, C, ZERO, ONE, Sum
from vt import arr as A
from vt.arr import Arr, input_arr
from vt.values import Obj, SList, PyRaise
from vt import contract as K
from vt.verify import Clause
from vt import verify as V
from vt import smt
from contracts import gmm as G
from contracts import kmeans as KM
from props.common import new_interp, collapse, guard

FUNCTIONS = ["gmm.ml_gmm_m_step", "gmm.map_gmm_m_step", "gmm.GMMMachine.variances.setter", "kmeans.m_step",
             "kmeans.reduce_indices_means_vars", "gmm.GMMMachine.initialize_gaussians", "ivector.m_step"]


def stat_facts(I):
    F = G.facts(extra_pos_syms={"t", "alpha", "relevance"})
    F.nonneg_apps.add("n")                       # a component may receive (almost) no data
    F.conds.append(T.cmp_cond("<", T.sym("alpha"), ONE))
    F.conds.append(T.cmp_cond("==", Sum(G.Cc, lambda k: T.app("n", k), "c"), T.sym("t", "int")))
    G.facts_inv(G.mk_gmm(I), F)
    G.facts_inv(G.mk_gmm(I, "0"), F, "0")
    return F


def gmm_mstep_valid(ctx):
    """after an ML / MAP M-step with ANY non-negative counts (starved components
    included) every parameter is defined, variances >= floors > 0, weights > 0"""
    out = []
    for trainer in ("ml", "map"):
        for um, uv, uw in itertools.product((True, False), repeat=3):
            I = new_interp()
            F = stat_facts(I)
            fn = "gmm.map_gmm_m_step" if trainer == "map" else "gmm.ml_gmm_m_step"

            def build(I=I, trainer=trainer, um=um, uv=uv, uw=uw):
                ubm = G.mk_gmm(I, "0") if trainer == "map" else None
                m = G.mk_gmm(I, trainer=trainer, ubm=ubm, update=(um, uv, uw))
                kw = dict(machine=m, statistics=G.mk_stats(I), update_means=um, update_variances=uv, update_weights=uw,
                          mean_var_update_threshold=m.fields["mean_var_update_threshold"])
                if trainer == "map":
                    kw.update(reynolds_adaptation=True, relevance_factor=T.sym("relevance"), alpha=T.sym("alpha"))
                return [], kw
            log = T.SideLog(I.side_ctx)
            T.SIDE = log
            try:
                holder = {}

                def thunk():
                    a, kw = build()
                    holder["m"] = kw["machine"]
                    I.call(K.lookup(I, fn), a, kw)
                    return kw["machine"]
                paths = I.run_paths(thunk)
            finally:
                T.SIDE = None
            tag = "%s[%d%d%d]" % (trainer, um, uv, uw)
            cl = []
            for pc, (k, m) in paths:
                if k != "ok":
                    cl.append(Clause("C13.gmm.%s.def" % trainer, "refuted", "npsym", "%s raises %s" % (tag, m)))
                    continue
                V.check_sides(log, F, "C13.gmm.%s" % trainer, cl, final_values=[m])
                inv = []
                G.inv_clauses(m, F.extend(pc), "C13.gmm.%s.valid" % trainer, inv)
                c = T.fresh("c")
                st, info = smt.prove_side("pos", P(m.fields["_weights"].fn(c)), F)
                inv.append(Clause("C13.gmm.%s.valid.wpos" % trainer, "discharged" if st == "proved" else ("refuted" if st == "refuted" else "undecided"),
                                  info.get("backend", ""), "weights > 0"))
                cl += inv
            for c_ in cl:
                c_.detail = tag + " " + c_.detail
            out += cl
    res = []
    for trainer in ("ml", "map"):
        d = [c for c in out if c.name.startswith("C13.gmm.%s.def" % trainer)]
        v = [c for c in out if c.name.startswith("C13.gmm.%s.valid" % trainer)]
        res += collapse(d, "C13.gmm.%s.def" % trainer, "no division by zero / log of a non-positive in the %s M-step for counts >= 0 "
                        "(count floor; np.where guards), all 8 switch combinations" % trainer.upper())
        res += collapse(v, "C13.gmm.%s.valid" % trainer, "Valid(machine') after the step: variances >= floors > 0, weights > 0, caches consistent "
                        "(so Valid is an invariant of the training loop: C13.gmm.loop.valid)")
    return res


def gmm_weights(ctx):
    """ML weights: >= 0 and sum to one when no count floor is active; with the floor active the
    sum is >= 1 (documented count floor)"""
    I = new_interp()
    F = stat_facts(I)
    m, st = G.mk_gmm(I, update=(False, False, True)), G.mk_stats(I)
    G.spec_ml_m_step(K.SpecCtx([]), m, st, False, False, True, mean_var_update_threshold=m.fields["mean_var_update_threshold"])
    w = m.fields["_weights"]
    out = []
    c = T.fresh("c")
    eps = P(m.fields["mean_var_update_threshold"])
    ev = T.cmp_cond("<=", eps, T.app("n", c))
    wc = T.simplify_under(P(w.fn(c)), T.c_not(ev), False)
    V.compare_terms(wc, T.app("n", c) / T.sym("t", "int"), F.extend([ev]), "C13.gmm.weights.nofloor", out)
    V.compare_terms(Sum(G.Cc, lambda k: T.app("n", k), "c") / T.sym("t", "int"), ONE, F, "C13.gmm.weights.sum1", out,
                    hyps=[])
    st2, info = smt.prove(T.cmp_cond("<=", T.app("n", c) / T.sym("t", "int"), P(w.fn(c))), F)
    out.append(Clause("C13.gmm.weights.floor", "discharged" if st2 == "proved" else "undecided", info.get("backend", ""),
                      "max(n, eps)/t >= n/t: with the count floor the sum is >= 1 by at most C*eps/t"))
    return collapse(out, "C13.gmm.weights", "ML weights are n_c/t (>= 0, Σ = 1 by Σ_c n_c = t, C02.n.sumN) unless the count floor is active")


def kmeans_def(ctx):
    """centroid division: defined iff every cluster keeps a sample"""
    out = []
    for label, fn, build, what in (
            ("C13.kmeans.def", "kmeans.m_step",
             lambda: ([[(input_arr("z", (KM.Kk,), dtype="int"), input_arr("f", (KM.Kk, KM.Dd)), T.sym("a"))], KM.Nn], {}),
             "k-means M-step divides the per-cluster sums by the per-cluster counts"),
            ("C13.kmeans.varweights.def", "kmeans.reduce_indices_means_vars",
             lambda: ([[(input_arr("idx", (KM.Nn,), dtype="int"), input_arr("s1", (KM.Kk, KM.Dd)), input_arr("s2", (KM.Kk, KM.Dd)))]], {}),
             "cluster variances/weights divide by the per-cluster counts")):
        res = {}
        for variant in ("any", "nonempty"):
            I = new_interp()
            F = KM.facts()
            F.int_apps["idx"] = 2
            F.lower["idx"] = lambda s_: ZERO                      # assignments are indices of clusters
            F.upper = {"idx": lambda s_: KM.Kk - 1}
            if variant == "nonempty":
                F.pos_apps.add("z")
                F.conds.append(T.TRUE)
            else:
                F.nonneg_apps.add("z")
            log = T.SideLog(I.side_ctx)
            T.SIDE = log
            try:
                paths = I.run_paths(lambda: I.call(K.lookup(I, fn), *build()))
            finally:
                T.SIDE = None
            cl = []
            hyps = []
            if variant == "nonempty" and fn.endswith("reduce_indices_means_vars"):
                # every cluster has at least one assigned sample: Σ_s [idx(s) == k] > 0 for every k
                def nonempty(p):
                    a = T._single_atom(p, "sum")
                    if a is None:
                        return False
                    b = T._single_atom(a.args[1], "ind")
                    from vt.loops import _appnames
                    return b is not None and "idx" in _appnames(a.args[1])
                F.pos_preds = [nonempty]
            V.check_sides(log, F, label, cl, final_values=[p[1][1] for p in paths if p[1][0] == "ok"], extra_hyps=hyps)
            res[variant] = cl
        bad = [c for c in res["any"] if c.status != "discharged"]
        ok_nonempty = all(c.status == "discharged" for c in res["nonempty"]) and res["nonempty"]
        if bad:
            for c in bad:
                c.status = "refuted"
                if ok_nonempty and not any("count" not in c.detail and False for _ in [0]):
                    c.witness = dict(c.witness or {}, known_variant="KF-KMEANS-EMPTY")
            out += collapse(bad, label, what)
        else:
            out += collapse(res["any"], label, what)
    return out


def gmm_init_def(ctx):
    """a GMM initialised from k-means is finite iff k-means' centroids/variances/weights are
    (C20.gmm.init: exact hand-over); weights from an empty cluster are 0 -> log-weight -inf"""
    I = new_interp()
    out = []
    F = G.facts(extra_pos_apps={"kvar"})
    F.nonneg_apps.add("kw")
    m = G.mk_gmm(I, means=False, variances=False, gnorms="none")
    log = T.SideLog(I.side_ctx)
    T.SIDE = log
    try:
        I.setattr(m, "variances", input_arr("kvar", (G.Cc, G.Dd)))
        I.setattr(m, "weights", input_arr("kw", (G.Cc,)))
        I.getattr(m, "log_weights").fn(T.fresh("q"))
    finally:
        T.SIDE = None
    cl = []
    V.check_sides(log, F, "C13.gmm.init.def", cl, final_values=[m])
    bad = [c for c in cl if c.status != "discharged"]
    if bad:
        F2 = G.facts(extra_pos_apps={"kvar", "kw"})
        cl2 = []
        V.check_sides(log, F2, "C13.gmm.init.def", cl2, final_values=[m])
        if all(c.status == "discharged" for c in cl2):
            for c in bad:
                c.status = "refuted"
                c.witness = dict(c.witness or {}, known_variant="KF-KMEANS-EMPTY")
        return collapse(bad, "C13.gmm.init.def", "")
    return collapse(cl, "C13.gmm.init.def", "finite GMM from finite, non-degenerate k-means output")


GROUPS = [guard(gmm_mstep_valid), guard(gmm_weights), guard(kmeans_def), guard(gmm_init_def)]
SHARED = [("C03", "mstep_ml", ["C03.m.weights", "C03.m.means", "C03.m.variances"]),      # the ML M-step meets the contract the validity lemmas are stated over
          ("C10", "mstep", ["C10.def", "C10.floor"]), ("C01", "definedness", ["C01.def"]), ("C17", "set_variances", ["C17.set.variances"]), ("C17", "set_thresholds", ["C17.set.thresholds"]),
          ("C05", "sum_to_one", ["C05.alpha"]), ("C05", "mstep_map", ["C05.weights", "C05.means", "C05.def"]), ("C10", "mstep", ["C10.mstep.sigma"])]
REPLAY = [("C10", "iv_repro.py", "all", {}), ("C05", "gmm_repro.py", "map_mstep", {}), ("C13.kmeans", "kmeans_repro.py", "empty_cluster", {}), ("C13.gmm.init", "kmeans_repro.py", "empty_cluster", {}),
          ("C13.gmm.ml", "gmm_repro.py", "starved", {"trainer": "ml"}), ("C13.gmm.map", "gmm_repro.py", "starved", {"trainer": "map"}),
          ("C13.gmm.weights", "gmm_repro.py", "starved", {"trainer": "ml"}), ("C13.gmm_mstep", "gmm_repro.py", "starved", {"trainer": "map"}),
          ("C13.gmm", "gmm_repro.py", "starved", {"trainer": "map"}), ("C05.def", "gmm_repro.py", "starved", {"trainer": "map"}),
          ("C17.set", "gmm_repro.py", "ll", {}), ("C17", "gmm_repro.py", "ll", {})]
TRUSTED = ["np.clip / np.where / np.maximum as in the NumPy model", "overflow to +-inf for astronomically large data is not modelled"]
ASSUMPTIONS = ["finite inputs; floors, count floor, relevance factor > 0; fixed ratio < 1"]
XCHECK = ['gmm', 'kmeans', 'ivector']
