"""C16 -- a trained model is a function of the labelled sample multiset and the seed only."""
import ast

from vt import terms as T
from vt.terms import Poly, P, ZERO, ONE
from vt.arr import Arr, input_arr, ModelError
from vt.values import Obj, SList
from vt import contract as K
from vt import smt
from vt import npmodel as N
from vt.verify import Clause
from contracts import gmm as G
from contracts import kmeans as KM
from props.common import new_interp, collapse, guard, bounded

FUNCTIONS = ["kmeans.KMeansMachine.initialize", "gmm.GMMMachine.initialize_gaussians", "factor_analysis.FactorAnalysisBase.create_UVD",
             "gmm.e_step", "kmeans.e_step", "every module (scan for writes to module state)"]


def rng_kmeans(ctx):
    I = new_interp()
    N.EFFECTS.clear()
    seed = T.sym("seed", "int")
    m = KM.mk_kmeans(I, centroids=False, random_state=seed, init_method="k-means||")
    I.run_paths(lambda: I.call(K.lookup(I, "kmeans.KMeansMachine.initialize"), [m, KM.mk_data()], {}))
    eff = list(N.EFFECTS)
    calls = [e for e in eff if e[0] == "k_init"]
    glob = [e for e in eff if e[0].startswith("np.random")]
    ok = len(calls) >= 1 and all(isinstance(c[1]["random_state"], Poly) and c[1]["random_state"] == seed for c in calls) and not glob
    return [Clause("C16.rng.kmeans", "discharged" if ok else "refuted", "effects",
                   "initialisation passes the machine's random_state to the initialiser and touches no global generator" if ok else
                   "effects observed: %r" % (eff,))]


def rng_gmm(ctx):
    I = new_interp()
    N.EFFECTS.clear()
    seed = T.sym("seed", "int")
    seen = []

    def km_fit(ctx_, self, X, y=None):
        seen.append(self.fields.get("random_state"))
        self.fields["centroids_"] = input_arr("cen", (G.Cc, G.Dd))
        return self

    def km_vw(ctx_, self, data):
        return (input_arr("kvar", (G.Cc, G.Dd)), input_arr("kw", (G.Cc,)))
    I.contracts["kmeans.KMeansMachine.fit"] = K.as_contract(km_fit)
    I.contracts["kmeans.KMeansMachine.get_variances_and_weights_for_each_cluster"] = K.as_contract(km_vw)
    m = G.mk_gmm(I, means=False, variances=False, gnorms="none", random_state=seed)
    I.run_paths(lambda: I.call(K.lookup(I, "gmm.GMMMachine.initialize_gaussians"), [m, G.mk_data()], {}))
    glob = [e for e in N.EFFECTS if e[0].startswith("np.random")]
    ok = len(seen) >= 1 and all(isinstance(s, Poly) and s == seed for s in seen) and not glob
    return [Clause("C16.rng.gmm", "discharged" if ok else "refuted", "effects",
                   "the default k-means initialiser is built with the GMM's random_state; no global generator is used" if ok else
                   "random_state handed to k-means: %r; global RNG effects: %r" % (seen, glob))]


def rng_fa(ctx):
    out = []
    for cls, rv in (("ISVMachine", None), ("JFAMachine", 2)):
        I = new_interp()
        T.PRODUCTS[:] = [(G.Cc, G.Dd)]
        N.EFFECTS.clear()
        N.NPRandom.STATE = ("caller", 0)
        seed = T.sym("seed", "int")
        ci = I.classes[cls]
        m = Obj(ci)
        m.fields.update(ubm=G.mk_gmm(I, "u"), r_U=T.sym("RU", "int"), r_V=(T.sym("RV", "int") if rv else None), random_state=seed,
                        relevance_factor=T.sym("relevance"))
        try:
            I.run_paths(lambda: I.call(K.lookup(I, "factor_analysis.FactorAnalysisBase.create_UVD"), [m], {}))
        except ModelError as e:
            out.append(Clause("C16.rng.fa", "undecided", "", "%s: %s" % (cls, e)))
            continue
        eff = [e for e in N.EFFECTS if e[0].startswith("np.random")]
        draws = [e for e in eff if e[0] == "np.random.normal"]
        # every draw is made in a stream state that is a function of random_state alone: seed(random_state) followed by k draws
        # (the k are then distinct by construction); saving / restoring the caller's state around the draws is allowed
        ok = len(draws) == (2 if rv else 1) and all(len(e) == 3 and e[2][0] == "seeded" and isinstance(e[2][1], Poly) and e[2][1] == seed for e in draws) \
            and len({e[2][2] for e in draws}) == len(draws)
        out.append(Clause("C16.rng.fa", "discharged" if ok else "refuted", "effects",
                          "%s.create_UVD reseeds NumPy's generator from random_state before every draw of U%s" % (cls, " and V" if rv else "")
                          if ok else "%s: RNG effects %r" % (cls, eff)))
    T.PRODUCTS[:] = []
    return collapse(out, "C16.rng.fa", "U/V initialisation is dominated by np.random.seed(random_state)")


def noglobals(ctx):
    """no trainer writes module-level state: no `global` statement, no store into an attribute of an imported module
    other than calls of np.random.seed"""
    I = new_interp()
    bad = []
    for short, mod in I.modules.items():
        imported = set()
        for node in ast.walk(mod.tree):
            if isinstance(node, ast.Import):
                imported |= {(a.asname or a.name).split(".")[0] for a in node.names}
        for node in ast.walk(mod.tree):
            if isinstance(node, (ast.Global, ast.Nonlocal)):
                bad.append("%s:%d global/nonlocal" % (short, node.lineno))
            if isinstance(node, (ast.Assign, ast.AugAssign)):
                tg = node.targets if isinstance(node, ast.Assign) else [node.target]
                for t in tg:
                    b = t
                    while isinstance(b, (ast.Attribute, ast.Subscript)):
                        b = b.value
                    if isinstance(t, (ast.Attribute, ast.Subscript)) and isinstance(b, ast.Name) and b.id in imported:
                        bad.append("%s:%d store into module %s" % (short, node.lineno, b.id))
    return [Clause("C16.noglobals", "discharged" if not bad else "refuted", "effects",
                   "no function writes module-level state" if not bad else "; ".join(bad))]


def row_symmetric(t, name, N_):
    """every occurrence of array `name` in t has as first index a variable bound by a Σ over
    the full row range, and that variable is used nowhere else than as a first index of `name`"""
    problems = []

    def walk(x, bound_rows):
        if isinstance(x, Poly):
            for m, _c in x.terms:
                for a, _p in m:
                    walk_atom(a, bound_rows)
        elif isinstance(x, T.Cond):
            for a in x.args:
                if isinstance(a, (Poly, T.Cond)):
                    walk(a, bound_rows)

    def walk_atom(a, bound_rows):
        k = a.kind
        if k == "app" and a.args[0] == name:
            n0 = T.symname(a.args[1])
            if n0 is None or n0 not in bound_rows:
                problems.append("row index %r of %s is not a full-range summation variable" % (a.args[1], name))
            for x in a.args[2:]:
                walk(x, bound_rows)
                if isinstance(x, Poly) and (x.syms & bound_rows):
                    problems.append("row variable used as a column index")
            return
        if k == "sym":
            if a.args[0] in bound_rows:
                problems.append("row variable used outside a first index of %s" % name)
            return
        if k in T.BINDERS:
            v, bnd, body = T.open_binder(a)
            if bnd is not None:
                walk(bnd, bound_rows)
            if k == "sum" and bnd is not None and T.equal(bnd, N_):
                walk(body, bound_rows | {T.symname(v)})
            else:
                walk(body, bound_rows)
            return
        for x in a.args:
            if isinstance(x, (Poly, T.Cond)):
                walk(x, bound_rows)
    walk(t, frozenset())
    return problems


def perm(ctx):
    """the statistics the EM loops consume are symmetric functions of the rows (given the same
    current parameters): every data access sits under a Σ over all rows"""
    out = []
    # GMM: run the real e_step
    I = new_interp()
    res = I.run_paths(lambda: I.call(K.lookup(I, "gmm.e_step"), [G.mk_data(), G.mk_gmm(I)], {}))
    probs = []
    for pc, (k, st) in res:
        if smt.equality_substitutions(smt.Facts(conds=list(pc))).get("N") == Poly.const(1):
            continue        # a path taken only for ONE row: every function of one row is symmetric in the rows
        for f in ("n", "sum_px", "sum_pxx", "log_likelihood"):
            v = st.fields[f]
            t = P(v.fn(*[T.fresh("q") for _ in v.shape])) if isinstance(v, Arr) else P(v)
            probs += ["%s: %s" % (f, p) for p in row_symmetric(t, "x", G.Nn)]
        if not (isinstance(st.fields["t"], Poly) and st.fields["t"] == G.Nn):
            probs.append("t is not the row count")
    out.append(Clause("C16.perm.gmm", "discharged" if not probs else "refuted", "normaliser",
                      "GMM statistics are Σ_s-bound in the rows" if not probs else "; ".join(probs[:3])))
    # k-means
    I = new_interp()
    res = I.run_paths(lambda: I.call(K.lookup(I, "kmeans.e_step"), [KM.mk_data(), KM.mk_means()], {}))
    probs = []
    for pc, (k, r) in res:
        if smt.equality_substitutions(smt.Facts(conds=list(pc))).get("N") == Poly.const(1):
            continue
        for i, v in enumerate(r):
            t = P(v.fn(*[T.fresh("q") for _ in v.shape])) if isinstance(v, Arr) else P(v)
            probs += ["result[%d]: %s" % (i, p) for p in row_symmetric(t, "x", KM.Nn)]
    out.append(Clause("C16.perm.kmeans", "discharged" if not probs else "refuted", "normaliser",
                      "k-means statistics are Σ_s-bound in the rows" if not probs else "; ".join(probs[:3])))
    return out


BOUNDED = [bounded("fa_repro.py", "perm_relabel", "C16.perm-relabel.fa",
                   "ISV/JFA: presenting the labelled statistics in another order, or renaming the class ids by a permutation of 0..K-1, gives exactly the same U, V, D"),
           bounded("fa_repro.py", "array_vs_list", "C16.fa.array-order",
                   "ISV/JFA fit_using_array (NumPy and Dask arrays): the same labelled samples stored in another order (class ids not first appearing in "
                   "ascending order, unequal class sizes) give the same U, V, D (float64, rel. tol. 1e-7)")]
GROUPS = [guard(rng_kmeans), guard(rng_gmm), guard(rng_fa), guard(noglobals), guard(perm)]
SHARED = [("C14", "wccn", ["C14.wccn.mu"]), ("C14", "partition_only", ["C14.wccn.partition-only"])]
REPLAY = [("C16.fa.array-order", "fa_repro.py", "array_vs_list", {}), ("C14", "effects_repro.py", "determinism", {}), ("C16.perm-relabel", "fa_repro.py", "perm_relabel", {}), ("C16", "effects_repro.py", "determinism", {})]
TRUSTED = ["reindexing a finite sum by a bijection does not change it (real arithmetic)",
           "dask_ml k_init with an integer random_state is a function of its arguments only and neither reads nor writes NumPy's global generator",
           "with a seeded *sampling* initialiser (k-means||, k-means++, random) the initial centroids are chosen by row index, so the clause "
           "'any order of the samples' is verified for explicit initial parameters and assumed for k_init (DESIGN §5 C16)"]
ASSUMPTIONS = ["random_state is an integer seed"]
XCHECK = ['wccn', 'kmeans']
