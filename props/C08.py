"""C08 -- linear scoring is the exact first-order log-likelihood ratio around the UBM."""
from vt import terms as T
from vt.terms import Poly, P, C, ZERO, ONE, Sum
from vt import arr as A
from vt.arr import Arr, input_arr
from vt.values import Obj, SList, PyRaise
from vt import contract as K
from vt.verify import Clause
from vt import verify as V
from vt import smt
from contracts import gmm as G
from contracts import linear_scoring as LS
from props.common import new_interp, collapse, guard

FUNCTIONS = ["linear_scoring.linear_scoring"]


def facts():
    F = G.facts(dims={"M", "Pp"})
    return F


def post(ctx):
    res = {}
    cases = []
    for models in ("array3", "array2", "machines", "machine-list2"):
        for stats in ("list", "single"):
            for off in ("zero", "cd", "pcd"):
                for norm in (False, True):
                    for ubm in ("ml", "map", "ml+seed"):
                        # a covering subset of the 96 combinations: vary one factor at a time around two base points
                        base = [(models, stats, off, norm, ubm)]
                        cases += base
    keep = []
    for c in cases:
        models, stats, off, norm, ubm = c
        nondefault = sum([models != "array3", stats != "list", off != "pcd", ubm != "ml"])
        if nondefault <= 1:
            keep.append(c)
    out = []
    for models, stats, off, norm, ubm in keep:
        I = new_interp()

        def build(I=I, models=models, stats=stats, off=off, norm=norm, ubm=ubm):
            u = G.mk_gmm(I, "u")
            if ubm == "map":
                um = G.mk_gmm(I, "a", trainer="map", ubm=u)
            elif ubm == "ml+seed":
                # an ML-trained UBM that was warm-started from another GMM (GMMMachine(ubm=...) without the MAP trainer):
                # it is its OWN parameters that the property is about
                um = G.mk_gmm(I, "a", trainer="ml", ubm=u)
            else:
                um = u
            if models == "array3":
                mm = input_arr("mm", (LS.Mm, G.Cc, G.Dd))
            elif models == "array2":
                mm = input_arr("mm", (G.Cc, G.Dd))
            elif models == "machines":
                mm = SList(LS.Mm, lambda m: mk_model(I, m))
            else:
                mm = [G.mk_gmm(I, "m0"), G.mk_gmm(I, "m1")]
            st = LS.stats_list(I) if stats == "list" else LS.stats_list(I).elem(Poly.const(0))
            kw = {}
            if off == "cd":
                kw["test_channel_offsets"] = input_arr("off", (G.Cc, G.Dd))
            elif off == "pcd":
                kw["test_channel_offsets"] = input_arr("off", (LS.Pp if stats == "list" else ONE, G.Cc, G.Dd))
            kw["frame_length_normalization"] = norm
            return [mm, um, st], kw
        F = facts()
        F.pos_apps |= {"vu", "wu", "va", "wa", "vm0", "vm1", "wm0", "wm1"}
        cl = K.check_function(I, "linear_scoring.linear_scoring", build, LS.spec_linear_scoring, F,
                              "C08[%s,%s,off=%s,norm=%s,ubm=%s]" % (models, stats, off, norm, ubm))
        for c in cl:
            c.detail = "[models=%s stats=%s offsets=%s norm=%s ubm=%s] %s" % (models, stats, off, norm, ubm, c.detail)
        out.append(((models, stats, off, norm, ubm), cl))
    allc = [c for _, cl in out for c in cl]
    shape = [c for c in allc if c.name.endswith(".shape")]
    res_ = []
    res_ += collapse([c for k, cl in out for c in cl if c.name.endswith(".result") and not k[3]], "C08.post",
                     "score[m,p] == Σ_c Σ_d (model_mcd - ubm_cd)/var_cd (F_pcd - N_pc (ubm_cd + offset_pcd)); shape (n_models, n_probes); "
                     "offsets scalar / (C,D) / (P,C,D); %d configurations" % len(keep))
    res_ += collapse([c for k, cl in out for c in cl if c.name.endswith(".result") and k[3]], "C08.norm",
                     "with frame-length normalisation each column is divided by T_p, and is 0 where |T_p| <= eps (defined there)")
    res_ += collapse([c for k, cl in out for c in cl if k[0] in ("machines", "machine-list2") and c.name.endswith(".result")] or
                     [Clause("C08.machines-vs-arrays", "undecided", "", "no clause")], "C08.machines-vs-arrays",
                     "a list of machines scores as the array of their means")
    res_ += collapse([c for k, cl in out for c in cl if k[4] == "map" and c.name.endswith(".result")], "C08.map-ubm",
                     "a MAP-adapted machine passed as UBM is replaced by its prior")
    rest = [c for c in allc if not c.name.endswith(".result")]
    res_ += collapse(rest, "C08.frame", "models, UBM and statistics unchanged; shape (M, P); divisions defined (variances > 0; T guard)")
    return res_


def mk_model(I, m):
    o = Obj(I.classes["GMMMachine"])
    o.fields.update(n_gaussians=G.Cc, trainer="ml", ubm=None, _means=Arr((G.Cc, G.Dd), lambda c, d: T.app("mmeans", m, c, d)),
                    _variances=None, _weights=None, _log_weights=None, _g_norms=None, _variance_thresholds=None)
    return o


def lemmas(ctx):
    """contract-level: zero for the UBM itself, linear in the model offset, additive over statistics"""
    I = new_interp()
    out = []
    F = facts()
    F.pos_apps |= {"vu", "wu"}
    u = G.mk_gmm(I, "u")
    st = LS.stats_list(I)
    m, p = T.fresh("m"), T.fresh("p")
    # zero at the UBM
    r = LS.spec_linear_scoring(None, u.fields["_means"], u, st, input_arr("off", (LS.Pp, G.Cc, G.Dd)), True)
    V.compare_terms(P(r.fn(ZERO, p)), ZERO, F, "C08.zero-at-ubm", out)
    # linearity: score(ubm + a*(A - ubm) + b*(B - ubm)) = a*score(A) + b*score(B)
    Am, Bm = input_arr("mA", (G.Cc, G.Dd)), input_arr("mB", (G.Cc, G.Dd))
    a, b = T.sym("la"), T.sym("lb")
    mu = u.fields["_means"]
    comb = mu + a * (Am - mu) + b * (Bm - mu)
    off = input_arr("off", (LS.Pp, G.Cc, G.Dd))
    s = lambda mm: P(LS.spec_linear_scoring(None, mm, u, st, off, True).fn(ZERO, p))
    V.compare_terms(s(comb), a * s(Am) + b * s(Bm), F, "C08.linear", out)
    # additivity over statistics (before normalisation), using the contract of GMMStats.__add__
    s1, s2 = LS.stats_list(I, tag="a").elem(ZERO), LS.stats_list(I, tag="b").elem(ZERO)
    ssum = G.spec_stats_add(K.SpecCtx([]), s1, s2)
    offcd = input_arr("off", (G.Cc, G.Dd))
    sc = lambda stt: P(LS.spec_linear_scoring(None, Am, u, stt, offcd, False).fn(ZERO, ZERO))
    V.compare_terms(sc(ssum), sc(s1) + sc(s2), F, "C08.additive", out)
    return out


GROUPS = [guard(post), guard(lemmas)]
SHARED = [("C02", "add_post", ["C02.add.n", "C02.add.sum_px", "C02.add.t"]),
          # "for all UBMs": the UBM is in a state its public mutators can produce -- each of them re-establishes the machine invariant
          # (variances >= floors, caches coherent with the visible parameters) that C08.post assumes of the UBM it is given
          ("C17", "set_variances", ["C17.set.variances"]), ("C17", "set_thresholds", ["C17.set.thresholds"]), ("C17", "set_means", ["C17.set.means"]),
          ("C17", "init_inv", ["C17.init"])]
REPLAY = [("C08", "ls_repro.py", "score", {}), ("C17", "ls_repro.py", "score", {})]
TRUSTED = ["np.tensordot(a, b, 2), np.transpose, np.where, broadcasting as in the NumPy model",
           "the derivative characterisation (score == d/de of the UBM log-likelihood of the test data along ubm + e (model - ubm) at e = 0) "
           "follows from C08.post and C02.estep by the chain rule for LSE; the calculus step itself is not machine-checked"]
ASSUMPTIONS = ["UBM variances > 0"]
XCHECK = ['linear']
