"""C11 -- ISV/JFA scores are channel-compensated linear scores, the same via every entry point."""
from vt import terms as T
from vt.terms import Poly, P, ZERO, ONE, Sum
from vt import arr as A
from vt.arr import Arr, input_arr, ModelError
from vt.values import Obj, SList, PyRaise
from vt import contract as K
from vt.verify import Clause
from vt import verify as V
from contracts import gmm as G
from contracts import fa as FA
from contracts import linear_scoring as LS
from props.common import new_interp, collapse, guard, bounded

FUNCTIONS = ["factor_analysis.FactorAnalysisBase.estimate_x", ".estimate_ux", "._compute_id_plus_us_prod_inv", "._compute_fn_x",
             "factor_analysis.ISVMachine.score", "factor_analysis.JFAMachine.score", ".score_using_array", ".enroll_using_array",
             "factor_analysis.ISVMachine.transform", "linear_scoring.linear_scoring (by contract)", "gmm.GMMStats.__add__ (by contract)"]
Q = "factor_analysis.FactorAnalysisBase."


def est_x(ctx):
    out = []
    for label, build in (("list", lambda I: ([FA.mk_fa(I), FA.sessions(I)], {})),
                         ("one", lambda I: ([FA.mk_fa(I), [FA.one_stats(I)]], {}))):
        FA.setup()
        I = new_interp()
        try:
            cl = K.check_function(I, Q + "estimate_x", lambda: build(I), FA.spec_estimate_x, FA.facts(), "C11.x." + label, state_names={0: "self", 1: "X"})
            out += cl
            I = new_interp({Q + "estimate_x": FA.spec_estimate_x})
            cl = K.check_function(I, Q + "estimate_ux", lambda: build(I), FA.spec_estimate_ux, FA.facts(), "C11.ux." + label, state_names={0: "self", 1: "X"})
            out += cl
        finally:
            T.PRODUCTS[:] = []
    return collapse(out, "C11.x", "estimate_x == (I + Σ_c N_c U_c'S_c^-1U_c)^-1 U'S^-1 (F - N m) with N, F pooled over the probe's statistics; estimate_ux == U x")


def client_mean(self, model, jfa):
    f = self.fields
    m = FA.m_of(self)
    if jfa:
        y, z = model
        return Arr((FA.Cc, FA.Dd), lambda c, d: m(c * FA.Dd + d) + P(f["_D"].fn(c * FA.Dd + d)) * P(z.fn(c * FA.Dd + d)) + FA.matvec(f["_V"], y)(c * FA.Dd + d))
    z = model
    return Arr((FA.Cc, FA.Dd), lambda c, d: m(c * FA.Dd + d) + P(f["_D"].fn(c * FA.Dd + d)) * P(z.fn(c * FA.Dd + d)))


def spec_score(jfa):
    def spec(ctx, self, model, data):
        ux = FA.spec_estimate_ux(ctx, self, data)
        uxcd = Arr((FA.Cc, FA.Dd), lambda c, d: P(ux.fn(c * FA.Dd + d)))
        if isinstance(data, SList):
            if ctx.holds(T.cmp_cond("<", ONE, data.slen())):
                pooled = G.sum_stats(None, data)
            else:
                pooled = data.elem(ZERO)
        else:
            pooled = G.sum_stats(None, data)
        r = LS.spec_linear_scoring(ctx, client_mean(self, model, jfa), self.fields["ubm"], pooled, uxcd, True)
        return r.fn(ZERO, ZERO)
    return spec


def score(ctx):
    out = []
    for cls, jfa in (("ISVMachine", False), ("JFAMachine", True)):
        for label in ("list", "one", "two"):
            FA.setup()
            I = new_interp({Q + "estimate_x": FA.spec_estimate_x, "linear_scoring.linear_scoring": LS.spec_linear_scoring,
                            "gmm.GMMStats.__add__": G.spec_stats_add})

            def build(I=I, cls=cls, jfa=jfa, label=label):
                m = FA.mk_fa(I, cls, with_v=jfa)
                z = input_arr("z", (FA.Cc * FA.Dd,))
                model = (input_arr("y", (FA.RV,)), z) if jfa else z
                data = FA.sessions(I) if label == "list" else ([FA.one_stats(I)] if label == "one" else [FA.one_stats(I, "1"), FA.one_stats(I, "2")])
                return [m, model, data], {}
            try:
                F = FA.facts()
                F.pos_syms.add("H")
                cl = K.check_function(I, "factor_analysis.%s.score" % cls, build, spec_score(jfa), F, "C11.score.%s.%s" % (cls, label),
                                      state_names={0: "self", 1: "model", 2: "data"}, structural=False)
            finally:
                T.PRODUCTS[:] = []
            for c in cl:
                c.detail = "[%s, probe=%s] %s" % (cls, label, c.detail)
            out += cl
    res = collapse([c for c in out if c.name.endswith(".result") or ".raises" in c.name or c.status != "discharged" and "path" in c.name], "C11.score.args",
                   "score == linear_scoring(client mean m + D z (+ V y), UBM, pooled probe, channel offset U x of the probe itself, frame normalisation on)[0][0]")
    res += collapse([c for c in out if not (c.name.endswith(".result") or ".raises" in c.name)], "C11.pool",
                    "several statistics are pooled with the non-mutating + (probe statistics, model and machine unchanged): score(list) == score([Σ list])")
    return res


class Rec:
    """recording stand-in for a callee: returns a tagged opaque value and logs the arguments"""

    def __init__(self, tag):
        self.tag, self.calls = tag, []

    def __call__(self, ctx, *args, **kwargs):
        self.calls.append((args, kwargs))
        return ("<%s>" % self.tag, len(self.calls))


def _stats_match(I, got, arrays, ubm_of, fields, name, out, what):
    """the statistics handed to the statistics-level function are the UBM statistics of the arrays, in the fields that
    function reads (however the code obtained them: GMMMachine.acc_stats or an accumulation of its own)"""
    if not isinstance(got, (list, tuple)) or len(got) != len(arrays):
        out.append(Clause(name, "refuted", "npsym", "%s must receive a LIST with one statistic per array (its contract iterates over it); it received %s"
                          % (what, V._kind(got))))
        return
    F = G.facts()
    for k, (st, X) in enumerate(zip(got, arrays)):
        if not isinstance(st, Obj) or st.cls.name != "GMMStats":
            out.append(Clause(name, "refuted", "npsym", "%s received %s where a GMMStats is required" % (what, V._kind(st))))
            return
        exp = G.spec_e_step(None, X, ubm_of())
        for f in fields:
            V.compare(st.fields.get(f), exp.fields[f], F, "%s.stat%d.%s" % (name, k, f), out)


def entries(ctx):
    """array-level entry points apply the statistics-level ones to the UBM statistics of the same arrays
    (frames given as a 2-D array, and ONE frame given as a 1-D vector)"""
    out = []
    FA.setup()
    acc_contract = K.as_contract(lambda ctx_, self, data: G.spec_e_step(ctx_, data, self))
    try:
        for ndim in (2, 1):
            tag = "" if ndim == 2 else "[1-D frame]"
            # ISVMachine.transform(X) == estimate_ux([UBM statistics of X])
            I = new_interp()
            G._INTERP[0] = I
            eux = Rec("estimate_ux")
            I.contracts["gmm.GMMMachine.acc_stats"] = acc_contract
            I.contracts[Q + "estimate_ux"] = K.as_contract(eux)
            m = FA.mk_fa(I, "ISVMachine", with_v=False)
            X = G.mk_data(ndim=ndim)
            name = "C11.entry.transform"
            try:
                paths = I.run_paths(lambda: I.call(K.lookup(I, "factor_analysis.ISVMachine.transform"), [m, X], {}))
                if len(paths) != 1 or paths[0][1][0] != "ok" or len(eux.calls) != 1:
                    out.append(Clause(name, "undecided", "", "transform%s: %d paths, %d calls of estimate_ux: %r" % (tag, len(paths), len(eux.calls), paths[0][1])))
                elif paths[0][1][1] != ("<estimate_ux>", 1):
                    out.append(Clause(name, "refuted", "npsym", "transform%s does not return what estimate_ux returns" % tag))
                else:
                    n0 = len(out)
                    _stats_match(I, eux.calls[0][0][1], [X], lambda: FA.mk_fa(I, "ISVMachine", with_v=False).fields["ubm"], ("n", "sum_px"), name, out, "estimate_ux")
                    if len(out) == n0:
                        out.append(Clause(name, "undecided", "", "nothing compared"))
            except ModelError as e:
                out.append(Clause(name, "undecided", "", "%s%s" % (e, tag)))
            # enroll_using_array(X) == enroll([UBM statistics of X])   (base class and ISV override)
            for cls in ("ISVMachine", "JFAMachine"):
                mk = lambda cls=cls: FA.mk_fa(I, cls, with_v=(cls == "JFAMachine"))
                I = new_interp()
                G._INTERP[0] = I
                enr = Rec("enroll")
                I.contracts["gmm.GMMMachine.acc_stats"] = acc_contract
                I.contracts["factor_analysis.%s.enroll" % cls] = K.as_contract(enr)
                m = mk()
                X = G.mk_data(ndim=ndim)
                name = "C11.entry.enroll_using_array"
                try:
                    paths = I.run_paths(lambda: I.call(I.getattr(m, "enroll_using_array"), [X], {}))
                    if len(paths) != 1 or paths[0][1][0] != "ok" or len(enr.calls) != 1:
                        out.append(Clause(name, "undecided", "", "%s.enroll_using_array%s: %d paths, %d calls of enroll" % (cls, tag, len(paths), len(enr.calls))))
                    elif paths[0][1][1] != ("<enroll>", 1):
                        out.append(Clause(name, "refuted", "npsym", "%s.enroll_using_array%s does not return what enroll returns" % (cls, tag)))
                    else:
                        _stats_match(I, enr.calls[0][0][1], [X], lambda: mk().fields["ubm"], ("n", "sum_px"), name, out, "enroll")
                except ModelError as e:
                    out.append(Clause(name, "undecided", "", "%s %s%s" % (cls, e, tag)))
                # score_using_array(model, data) == score(model, [UBM statistics of d for d in data])
                I = new_interp()
                G._INTERP[0] = I
                sc = Rec("score")
                I.contracts["gmm.GMMMachine.acc_stats"] = acc_contract
                I.contracts["factor_analysis.%s.score" % cls] = K.as_contract(sc)
                m = mk()
                d1, d2 = G.mk_data("xa", ndim=ndim), G.mk_data("xb", ndim=ndim)
                name = "C11.entry.score_using_array"
                try:
                    paths = I.run_paths(lambda: I.call(I.getattr(m, "score_using_array"), ["<model>", [d1, d2]], {}))
                    if len(paths) != 1 or paths[0][1][0] != "ok" or len(sc.calls) != 1:
                        out.append(Clause(name, "undecided", "", "%s.score_using_array%s: %d paths, %d calls of score" % (cls, tag, len(paths), len(sc.calls))))
                    elif sc.calls[0][0][1] != "<model>" or paths[0][1][1] != ("<score>", 1):
                        out.append(Clause(name, "refuted", "npsym", "%s.score_using_array%s does not pass the model on / return the score" % (cls, tag)))
                    else:
                        # score reads n, sum_px and the frame count t (frame-length normalisation)
                        _stats_match(I, sc.calls[0][0][2], [d1, d2], lambda: mk().fields["ubm"], ("n", "sum_px", "t"), name, out, "score")
                except ModelError as e:
                    out.append(Clause(name, "undecided", "", "%s %s%s" % (cls, e, tag)))
    finally:
        T.PRODUCTS[:] = []
    res = []
    for nm in ("transform", "enroll_using_array", "score_using_array"):
        res += collapse([c for c in out if c.name.startswith("C11.entry." + nm)] or [Clause("x", "undecided", "", "no clause")], "C11.entry." + nm,
                        "the statistics-level function receives a list holding the UBM statistics of each array (n, sum_px%s), and its result is returned" % (", t" if nm.startswith("score") else ""))
    return res


GROUPS = [guard(est_x), guard(score), guard(entries)]
BOUNDED = [bounded("fa_repro.py", "score_entry_points", "C11.native",
                   "score == reference formula (exact rationals); score(list) == score([sum]); probes unchanged; score_using_array / enroll_using_array / "
                   "ISVMachine.transform agree with the statistics-level entry points on the UBM statistics of the same arrays (float64)"),
           bounded("fa_repro.py", "continued", "C11.fa.history",
                   "after fit, enrol/score, fit again (lists and per-class delayed lists, shared and serialised tasks) the score is the channel-compensated "
                   "linear score under the machine's CURRENT U, V, D (independent float64 formula, rel. tol. 1e-8)")]
SHARED = [("C08", "post", ["C08.post", "C08.norm"]), ("C08", "lemmas", ["C08.additive"]), ("C02", "add_post", ["C02.add.n", "C02.add.sum_px", "C02.add.t"]),
          ("C02", "estep_post", ["C02.estep.n", "C02.estep.sum_px"])]
REPLAY = [("C11.fa.history", "fa_repro.py", "continued", {}), ("C11.x", "fa_repro.py", "continued", {}), ("C11", "fa_repro.py", "score_entry_points", {})]
TRUSTED = ["np.linalg.inv contract; compound axis C*D row-major", "linear_scoring and GMMStats.__add__ by their contracts (C08.post, C02.add.*)"]
ASSUMPTIONS = ["UBM variances > 0", "fit_using_array is covered by the bounded objrun engine"]
XCHECK = ['fa', 'linear']
