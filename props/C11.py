"""C11 -- ISV/JFA scores are channel-compensated linear scores, the same via every entry point."""
from vt import terms as T
from vt.terms import Poly, P, ZERO, ONE, Sum
from vt import arr as A
from vt.arr import Arr, input_arr, ModelError
from vt.values import Obj, SList, PyRaise
from vt import contract as K
from vt.verify import Clause
from vt import verify as V
from contracts import gmm as G
from contracts import fa as FA
from contracts import linear_scoring as LS
from props.common import new_interp, collapse, guard, bounded

FUNCTIONS = ["factor_analysis.FactorAnalysisBase.estimate_x", ".estimate_ux", "._compute_id_plus_us_prod_inv", "._compute_fn_x",
             "factor_analysis.ISVMachine.score", "factor_analysis.JFAMachine.score", ".score_using_array", ".enroll_using_array",
             "factor_analysis.ISVMachine.transform", "linear_scoring.linear_scoring (by contract)", "gmm.GMMStats.__add__ (by contract)"]
Q = "factor_analysis.FactorAnalysisBase."


def est_x(ctx):
    out = []
    for label, build in (("list", lambda I: ([FA.mk_fa(I), FA.sessions(I)], {})),
                         ("one", lambda I: ([FA.mk_fa(I), [FA.one_stats(I)]], {}))):
        FA.setup()
        I = new_interp()
        try:
            cl = K.check_function(I, Q + "estimate_x", lambda: build(I), FA.spec_estimate_x, FA.facts(), "C11.x." + label, state_names={0: "self", 1: "X"})
            out += cl
            I = new_interp({Q + "estimate_x": FA.spec_estimate_x})
            cl = K.check_function(I, Q + "estimate_ux", lambda: build(I), FA.spec_estimate_ux, FA.facts(), "C11.ux." + label, state_names={0: "self", 1: "X"})
            out += cl
        finally:
            T.PRODUCTS[:] = []
    return collapse(out, "C11.x", "estimate_x == (I + Σ_c N_c U_c'S_c^-1U_c)^-1 U'S^-1 (F - N m) with N, F pooled over the probe's statistics; estimate_ux == U x")


def client_mean(self, model, jfa):
    f = self.fields
    m = FA.m_of(self)
    if jfa:
        y, z = model
        return Arr((FA.Cc, FA.Dd), lambda c, d: m(c * FA.Dd + d) + P(f["_D"].fn(c * FA.Dd + d)) * P(z.fn(c * FA.Dd + d)) + FA.matvec(f["_V"], y)(c * FA.Dd + d))
    z = model
    return Arr((FA.Cc, FA.Dd), lambda c, d: m(c * FA.Dd + d) + P(f["_D"].fn(c * FA.Dd + d)) * P(z.fn(c * FA.Dd + d)))


def spec_score(jfa):
    def spec(ctx, self, model, data):
        ux = FA.spec_estimate_ux(ctx, self, data)
        uxcd = Arr((FA.Cc, FA.Dd), lambda c, d: P(ux.fn(c * FA.Dd + d)))
        if isinstance(data, SList):
            if ctx.holds(T.cmp_cond("<", ONE, data.slen())):
                pooled = G.sum_stats(None, data)
            else:
                pooled = data.elem(ZERO)
        else:
            pooled = G.sum_stats(None, data)
        r = LS.spec_linear_scoring(ctx, client_mean(self, model, jfa), self.fields["ubm"], pooled, uxcd, True)
        return r.fn(ZERO, ZERO)
    return spec


def score(ctx):
    out = []
    for cls, jfa in (("ISVMachine", False), ("JFAMachine", True)):
        for label in ("list", "one", "two"):
            FA.setup()
            I = new_interp({Q + "estimate_x": FA.spec_estimate_x, "linear_scoring.linear_scoring": LS.spec_linear_scoring,
                            "gmm.GMMStats.__add__": G.spec_stats_add})

            def build(I=I, cls=cls, jfa=jfa, label=label):
                m = FA.mk_fa(I, cls, with_v=jfa)
                z = input_arr("z", (FA.Cc * FA.Dd,))
                model = (input_arr("y", (FA.RV,)), z) if jfa else z
                data = FA.sessions(I) if label == "list" else ([FA.one_stats(I)] if label == "one" else [FA.one_stats(I, "1"), FA.one_stats(I, "2")])
                return [m, model, data], {}
            try:
                F = FA.facts()
                F.pos_syms.add("H")
                cl = K.check_function(I, "factor_analysis.%s.score" % cls, build, spec_score(jfa), F, "C11.score.%s.%s" % (cls, label),
                                      state_names={0: "self", 1: "model", 2: "data"}, structural=False)
            finally:
                T.PRODUCTS[:] = []
            for c in cl:
                c.detail = "[%s, probe=%s] %s" % (cls, label, c.detail)
            out += cl
    res = collapse([c for c in out if c.name.endswith(".result") or ".raises" in c.name or c.status != "discharged" and "path" in c.name], "C11.score.args",
                   "score == linear_scoring(client mean m + D z (+ V y), UBM, pooled probe, channel offset U x of the probe itself, frame normalisation on)[0][0]")
    res += collapse([c for c in out if not (c.name.endswith(".result") or ".raises" in c.name)], "C11.pool",
                    "several statistics are pooled with the non-mutating + (probe statistics, model and machine unchanged): score(list) == score([Σ list])")
    return res


class Rec:
    """recording stand-in for a callee: returns a tagged opaque value and logs the arguments"""

    def __init__(self, tag):
        self.tag, self.calls = tag, []

    def __call__(self, ctx, *args, **kwargs):
        self.calls.append((args, kwargs))
        return ("<%s>" % self.tag, len(self.calls))


def entries(ctx):
    """array-level entry points apply the statistics-level ones to the UBM statistics of the same arrays"""
    out = []
    FA.setup()
    try:
        # ISVMachine.transform(X) == estimate_ux([ubm.acc_stats(X)])
        I = new_interp()
        acc, eux = Rec("acc_stats"), Rec("estimate_ux")
        I.contracts["gmm.GMMMachine.acc_stats"] = K.as_contract(acc)
        I.contracts[Q + "estimate_ux"] = K.as_contract(eux)
        m = FA.mk_fa(I, "ISVMachine", with_v=False)
        X = G.mk_data()
        try:
            paths = I.run_paths(lambda: I.call(K.lookup(I, "factor_analysis.ISVMachine.transform"), [m, X], {}))
            ok = False
            why = ""
            for pc, (k, r) in paths:
                if k != "ok":
                    why = "raises %s" % (r,)
                    continue
                if len(acc.calls) >= 1 and len(eux.calls) >= 1:
                    arg = eux.calls[-1][0][1]
                    ok = isinstance(arg, (list, tuple)) and len(arg) == 1 and arg[0] == ("<acc_stats>", 1) and acc.calls[0][0][1] is X and r == ("<estimate_ux>", 1)
                    why = "estimate_ux received %r" % (arg,)
            out.append(Clause("C11.entry.transform", "discharged" if ok else "refuted", "npsym",
                              "ISVMachine.transform(X) == estimate_ux([ubm.acc_stats(X)])" if ok else
                              "estimate_ux must receive a LIST of statistics (its contract iterates over it): " + why))
        except ModelError as e:
            out.append(Clause("C11.entry.transform", "undecided", "", str(e)))
        # enroll_using_array(X) == enroll([ubm.acc_stats(X)])   (base class and ISV override)
        for cls in ("ISVMachine", "JFAMachine"):
            I = new_interp()
            acc, enr = Rec("acc_stats"), Rec("enroll")
            I.contracts["gmm.GMMMachine.acc_stats"] = K.as_contract(acc)
            I.contracts["factor_analysis.%s.enroll" % cls] = K.as_contract(enr)
            m = FA.mk_fa(I, cls, with_v=(cls == "JFAMachine"))
            X = G.mk_data()
            paths = I.run_paths(lambda: I.call(I.getattr(m, "enroll_using_array"), [X], {}))
            ok = len(paths) == 1 and paths[0][1][0] == "ok" and len(enr.calls) == 1 and isinstance(enr.calls[0][0][1], list) \
                and enr.calls[0][0][1] == [("<acc_stats>", 1)] and acc.calls[0][0][1] is X and paths[0][1][1] == ("<enroll>", 1)
            out.append(Clause("C11.entry.enroll_using_array", "discharged" if ok else "refuted", "npsym",
                              "%s.enroll_using_array(X) == enroll([ubm.acc_stats(X)])" % cls))
            # score_using_array(model, data) == score(model, [ubm.acc_stats(d) for d in data])
            I = new_interp()
            acc, sc = Rec("acc_stats"), Rec("score")
            I.contracts["gmm.GMMMachine.acc_stats"] = K.as_contract(acc)
            I.contracts["factor_analysis.%s.score" % cls] = K.as_contract(sc)
            m = FA.mk_fa(I, cls, with_v=(cls == "JFAMachine"))
            d1, d2 = G.mk_data("xa"), G.mk_data("xb")
            paths = I.run_paths(lambda: I.call(I.getattr(m, "score_using_array"), ["<model>", [d1, d2]], {}))
            ok = len(paths) == 1 and paths[0][1][0] == "ok" and len(sc.calls) == 1 and sc.calls[0][0][1] == "<model>" \
                and sc.calls[0][0][2] == [("<acc_stats>", 1), ("<acc_stats>", 2)] and acc.calls[0][0][1] is d1 and acc.calls[1][0][1] is d2
            out.append(Clause("C11.entry.score_using_array", "discharged" if ok else "refuted", "npsym",
                              "%s.score_using_array(model, arrays) == score(model, [ubm.acc_stats(a) for a in arrays])" % cls))
    finally:
        T.PRODUCTS[:] = []
    res = []
    for nm in ("transform", "enroll_using_array", "score_using_array"):
        res += collapse([c for c in out if c.name == "C11.entry." + nm], "C11.entry." + nm, "")
    return res


GROUPS = [guard(est_x), guard(score), guard(entries)]
BOUNDED = [bounded("fa_repro.py", "score_entry_points", "C11.native",
                   "score == reference formula (exact rationals); score(list) == score([sum]); probes unchanged; score_using_array / enroll_using_array / "
                   "ISVMachine.transform agree with the statistics-level entry points on the UBM statistics of the same arrays (float64)"),
           bounded("fa_repro.py", "continued", "C11.fa.history",
                   "after fit, enrol/score, fit again (lists and per-class delayed lists, shared and serialised tasks) the score is the channel-compensated "
                   "linear score under the machine's CURRENT U, V, D (independent float64 formula, rel. tol. 1e-8)")]
SHARED = [("C08", "post", ["C08.post", "C08.norm"]), ("C08", "lemmas", ["C08.additive"]), ("C02", "add_post", ["C02.add.n", "C02.add.sum_px", "C02.add.t"]),
          ("C02", "estep_post", ["C02.estep.n", "C02.estep.sum_px"])]
REPLAY = [("C11.fa.history", "fa_repro.py", "continued", {}), ("C11.x", "fa_repro.py", "continued", {}), ("C11", "fa_repro.py", "score_entry_points", {})]
TRUSTED = ["np.linalg.inv contract; compound axis C*D row-major", "linear_scoring and GMMStats.__add__ by their contracts (C08.post, C02.add.*)"]
ASSUMPTIONS = ["UBM variances > 0", "fit_using_array is covered by the bounded objrun engine"]
XCHECK = ['fa', 'linear']
