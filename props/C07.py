"""C07 -- ISV and JFA enrolment climbs to the joint posterior mode of the latent factors.

Tier A: the leaf formulas every block update is assembled from, for all C, D, ranks and
session counts.  Tier B (bounded, objrun): the block updates and their order."""
from vt import terms as T
from vt.terms import Poly, P, ZERO, ONE, Sum
from vt import arr as A
from vt.arr import Arr, input_arr, ModelError
from vt.values import Obj, SList
from vt import contract as K
from vt.verify import Clause
from vt import verify as V
from contracts import gmm as G
from contracts import fa as FA
from props.common import new_interp, collapse, guard, bounded

FUNCTIONS = ["factor_analysis.FactorAnalysisBase._compute_fn_x_ih", "._compute_fn_y_i", "._compute_fn_z_i", "._compute_id_plus_u_prod_ih",
             "._compute_id_plus_vprod_i", "._compute_id_plus_d_prod_i", "._compute_uprod", "._compute_vprod",
             "(objrun, bounded) update_y/_latent_y_per_class, compute_latent_x/_compute_latent_x_per_class, update_z, ISVMachine.enroll, JFAMachine.enroll"]

Q = "factor_analysis.FactorAnalysisBase."


def leaf(name, fn, build, spec, note, cls="JFAMachine"):
    def run(ctx):
        FA.setup()
        I = new_interp()
        try:
            cl = K.check_function(I, Q + fn, lambda: build(I), spec, FA.facts(), name, state_names={0: "self"})
        finally:
            T.PRODUCTS[:] = []
        return collapse(cl, name, note)
    run.__name__ = "leaf_" + fn.strip("_")
    return run


def b_fn_x(I):
    return [FA.mk_fa(I), FA.one_stats(I)], {"latent_z_i": input_arr("z", (FA.Cc * FA.Dd,)), "latent_y_i": input_arr("y", (FA.RV,))}


def b_fn_x_isv(I):
    return [FA.mk_fa(I, "ISVMachine", with_v=False), FA.one_stats(I)], {"latent_z_i": input_arr("z", (FA.Cc * FA.Dd,))}


def b_fn_x_plain(I):
    return [FA.mk_fa(I, "ISVMachine", with_v=False), FA.one_stats(I)], {}


def b_fn_y(I):
    return [FA.mk_fa(I), FA.sessions(I), input_arr("lx", (FA.RU, FA.Hh)), input_arr("z", (FA.Cc * FA.Dd,)),
            input_arr("Nacc", (FA.Cc,)), input_arr("Facc", (FA.Cc, FA.Dd))], {}


def b_fn_z(I):
    return [FA.mk_fa(I), FA.sessions(I), input_arr("lx", (FA.RU, FA.Hh)), input_arr("y", (FA.RV,)),
            input_arr("Nacc", (FA.Cc,)), input_arr("Facc", (FA.Cc, FA.Dd))], {}


def b_fn_z_isv(I):
    return [FA.mk_fa(I, "ISVMachine", with_v=False), FA.sessions(I), input_arr("lx", (FA.RU, FA.Hh)), None,
            input_arr("Nacc", (FA.Cc,)), input_arr("Facc", (FA.Cc, FA.Dd))], {}


def fn_x_all(ctx):
    out = []
    for b, tag in ((b_fn_x, "jfa"), (b_fn_x_isv, "isv"), (b_fn_x_plain, "plain")):
        out += leaf("C07.fn_x." + tag, "_compute_fn_x_ih", b, FA.spec_fn_x_ih, "")(ctx)
    return collapse(out, "C07.fn_x", "F_h - N_h (m + D z + V y): the session residual the channel factor explains (JFA, ISV, z = 0)")


def fn_z_all(ctx):
    out = leaf("C07.fn_z.jfa", "_compute_fn_z_i", b_fn_z, FA.spec_fn_z_i, "")(ctx)
    out += leaf("C07.fn_z.isv", "_compute_fn_z_i", b_fn_z_isv, FA.spec_fn_z_i, "")(ctx)
    return collapse(out, "C07.fn_z", "F_i - N_i (m + V y) - Σ_h N_h U x_h: the residual the offset explains, every session weighted by its own counts")


def prec_all(ctx):
    out = leaf("C07.prec.x", "_compute_id_plus_u_prod_ih", lambda I: ([FA.mk_fa(I), FA.one_stats(I), input_arr("UP", (FA.Cc, FA.RU, FA.RU))], {}),
               FA.spec_id_plus_u_prod_ih, "(I + Σ_c N_hc U_c' S_c^-1 U_c)^-1 with the session's counts")(ctx)
    out += leaf("C07.prec.y", "_compute_id_plus_vprod_i", lambda I: ([FA.mk_fa(I), input_arr("Nacc", (FA.Cc,)), input_arr("VP", (FA.Cc, FA.RV, FA.RV))], {}),
                FA.spec_id_plus_vprod_i, "(I + Σ_c N_ic V_c' S_c^-1 V_c)^-1 with the client's pooled counts")(ctx)
    out += leaf("C07.prec.z", "_compute_id_plus_d_prod_i", lambda I: ([FA.mk_fa(I), input_arr("dsd", (FA.Cc * FA.Dd,)), input_arr("Nacc", (FA.Cc,))], {}),
                FA.spec_id_plus_d_prod_i, "1 / (1 + D^2 N_i / sigma) elementwise")(ctx)
    out += leaf("C07.uprod", "_compute_uprod", lambda I: ([FA.mk_fa(I)], {}), FA.spec_uprod, "UProd[c] = U_c' S_c^-1 U_c")(ctx)
    out += leaf("C07.vprod", "_compute_vprod", lambda I: ([FA.mk_fa(I)], {}), FA.spec_vprod, "VProd[c] = V_c' S_c^-1 V_c")(ctx)
    return out


GROUPS = [guard(fn_x_all), guard(leaf("C07.fn_y", "_compute_fn_y_i", b_fn_y, FA.spec_fn_y_i,
                                      "F_i - N_i (m + D z) - Σ_h N_h U x_h: the residual the speaker factors explain")),
          guard(fn_z_all), guard(prec_all)]
BOUNDED = [bounded("fa_repro.py", "enroll_blocks", "C07.block-order-return",
                   "ISV/JFA enrol(k iterations), k = 1..3, equals k sweeps of exact block maximisation in the order (y,) x, z of the joint posterior, "
                   "each block conditioned on the current other blocks; returned value is the last iterate"),
           bounded("fa_repro.py", "enroll_posterior", "C07.posterior-monotone",
                   "the joint log-posterior of the enrolment statistics (exact rationals) never decreases with one more enrolment iteration")]
SHARED = []
REPLAY = [("C07.block", "fa_repro.py", "enroll_blocks", {}), ("C07", "fa_repro.py", "enroll_posterior", {})]
LEVEL = "proof"
LEVEL_TEXT = ("Proof (all shapes, ranks and session counts) that each block update of enrolment -- speaker factors, per-session channel factors, residual offset -- "
              "is the exact maximiser of the joint posterior over its block given the current other blocks, that the enrolment loops apply them in the order "
              "(y,) x, z with the current values and return the last iterate, and of every leaf formula they are assembled from. That the posterior then never "
              "decreases and the iterates converge to the unique mode is the trusted lemma L-BCA (exact block maximisation of a strictly concave quadratic); "
              "it is additionally checked natively, with exact rationals, on a shape grid (bounded).")
EXPLANATION = ("Leaf formulas, the three block updates and the enrolment order are proved (obligations/discharged). The bounded objrun checks "
               "(bounded_checks, never counted as discharged) re-check blocks/order natively and the monotonicity of the joint posterior with exact rationals.")
TRUSTED = ["L-BCA: exact maximisation of one block of a strictly concave quadratic never decreases it, and cyclic block maximisation converges to its unique maximiser",
           "np.linalg.inv contract; compound axis C*D is row-major (reshape/flatten/np.repeat semantics of the NumPy model)"]
ASSUMPTIONS = ["UBM variances > 0"]
XCHECK = ['fa']


# ---------------------------------------------------------------- Tier A: the three block updates for one client, any number of sessions
def blocks(ctx):
    """update_y / compute_latent_x / update_z called as enrol calls them (one client, labels all 0, H sessions):
    each returns the maximiser of the joint posterior over its block given the CURRENT other blocks"""
    out = []
    leaf_contracts = {Q + "_compute_fn_y_i": FA.spec_fn_y_i, Q + "_compute_fn_z_i": FA.spec_fn_z_i, Q + "_compute_fn_x_ih": FA.spec_fn_x_ih,
                      Q + "_compute_id_plus_u_prod_ih": FA.spec_id_plus_u_prod_ih, Q + "_compute_id_plus_vprod_i": FA.spec_id_plus_vprod_i,
                      Q + "_compute_id_plus_d_prod_i": FA.spec_id_plus_d_prod_i}
    for cls, jfa in (("JFAMachine", True), ("ISVMachine", False)):
        FA.setup()
        try:
            def labels():
                return SList(FA.Hh, lambda i: ZERO)
            F = FA.facts()
            F.pos_syms.add("H")
            # ---- y block (JFA only)
            if jfa:
                I = new_interp(leaf_contracts)

                def build_y(I=I):
                    m = FA.mk_fa(I, cls)
                    return [m], dict(X=FA.sessions(I), y=labels(), n_classes=1, VProd=FA.prod_term(m.fields["_V"], m),
                                     latent_x=[input_arr("lx", (FA.RU, FA.Hh))], latent_y=input_arr("ly", (ONE, FA.RV)),
                                     latent_z=input_arr("lz", (ONE, FA.Cc * FA.Dd)), n_acc=input_arr("Nacc1", (ONE, FA.Cc)), f_acc=input_arr("Facc1", (ONE, FA.Cc, FA.Dd)))

                def spec_y(ctx_, self, X, y, n_classes, VProd, latent_x, latent_y, latent_z, n_acc, f_acc):
                    r = FA.spec_block_y(self, X, latent_x[0], latent_z[0], n_acc[0], f_acc[0])
                    latent_y.assign_from(Arr((ONE, FA.RV), lambda k, q: P(r.fn(q))))
                    return latent_y
                cl = K.check_function(I, Q + "update_y", build_y, spec_y, F, "C07.block.y", state_names={0: "self"}, structural=False)
                out += collapse([c for c in cl if ".def" not in c.name], "C07.block.y", "speaker factors: y = argmax given the current x_h and z (all H, C, D, ranks)")
            # ---- x block
            I = new_interp(leaf_contracts)

            def build_x(I=I, jfa=jfa):
                m = FA.mk_fa(I, cls, with_v=jfa)
                kw = dict(X=FA.sessions(I), y=labels(), n_classes=1, UProd=FA.prod_term(m.fields["_U"], m),
                          latent_z=input_arr("lz", (ONE, FA.Cc * FA.Dd)))
                kw["latent_y"] = input_arr("ly", (ONE, FA.RV)) if jfa else None
                return [m], kw

            def spec_x(ctx_, self, X, y, n_classes, UProd, latent_y=None, latent_z=None):
                return [FA.spec_block_x(self, X, latent_y[0] if latent_y is not None else None, latent_z[0])]
            cl = K.check_function(I, Q + "compute_latent_x", build_x, spec_x, F, "C07.block.x.%s" % cls, state_names={0: "self"}, structural=False)
            out += collapse([c for c in cl if ".def" not in c.name], "C07.block.x[%s]" % cls, "channel factors: every x_h = argmax given the current y and z, with that session's own counts")
            # ---- z block
            I = new_interp(leaf_contracts)

            def build_z(I=I, jfa=jfa):
                m = FA.mk_fa(I, cls, with_v=jfa)
                return [m, FA.sessions(I), labels(), [input_arr("lx", (FA.RU, FA.Hh))], (input_arr("ly", (ONE, FA.RV)) if jfa else None),
                        input_arr("lz", (ONE, FA.Cc * FA.Dd)), input_arr("Nacc1", (ONE, FA.Cc)), input_arr("Facc1", (ONE, FA.Cc, FA.Dd))], {}

            def spec_z(ctx_, self, X, y, latent_x, latent_y, latent_z, n_acc, f_acc):
                r = FA.spec_block_z(self, X, latent_x[0], latent_y[0] if latent_y is not None else None, n_acc[0], f_acc[0])
                latent_z.assign_from(Arr((ONE, FA.Cc * FA.Dd), lambda k, i: P(r.fn(i))))
                return latent_z
            Fz = FA.facts()
            Fz.pos_syms.add("H")
            cl = K.check_function(I, Q + "update_z", build_z, spec_z, Fz, "C07.block.z.%s" % cls, state_names={0: "self"}, structural=False)
            out += collapse([c for c in cl if ".def" not in c.name], "C07.block.z[%s]" % cls, "residual offset: z = argmax given the current y and x_h (diagonal)")
        finally:
            T.PRODUCTS[:] = []
    return out


def order(ctx):
    """the enrolment loops call the block updates in the order (y,) x, z, each with the CURRENT value of the other
    blocks, and return the last z (and y)"""
    from props.C11 import Rec
    out = []
    for cls, jfa in (("JFAMachine", True), ("ISVMachine", False)):
        FA.setup()
        try:
            I = new_interp()
            recs = {n: Rec(n) for n in ("update_y", "compute_latent_x", "update_z")}
            for n, r in recs.items():
                I.contracts[Q + n] = K.as_contract(r)
            I.contracts[Q + "_sum_n_statistics"] = K.as_contract(lambda c_, self, X, y, n_classes: "<n_acc>")
            I.contracts[Q + "_sum_f_statistics"] = K.as_contract(lambda c_, self, X, y, n_classes: "<f_acc>")
            I.contracts[Q + "_compute_uprod"] = K.as_contract(lambda c_, self: "<UProd>")
            I.contracts[Q + "_compute_vprod"] = K.as_contract(lambda c_, self: "<VProd>")
            I.contracts[Q + "initialize_XYZ"] = K.as_contract(lambda c_, self, n_samples_per_class, like=None: ("<x0>", "<y0>" if jfa else None, "<z0>"))
            m = FA.mk_fa(I, cls, with_v=jfa)
            m.fields["enroll_iterations"] = 2
            X = FA.sessions(I)
            paths = I.run_paths(lambda: I.call(K.lookup(I, "factor_analysis.%s.enroll" % cls), [m, X], {}))
            probs = []
            if len(paths) != 1 or paths[0][1][0] != "ok":
                probs.append("enrol raises / forks: %r" % (paths,))
            else:
                seq = [x.split(".")[-1] for x in I.trace_calls if x.split(".")[-1] in recs]
                exp = (["update_y"] if jfa else []) + ["compute_latent_x", "update_z"]
                if seq != exp * 2:
                    probs.append("block order over two iterations is %r" % (seq,))
                else:
                    cy, cx, cz = recs["update_y"].calls, recs["compute_latent_x"].calls, recs["update_z"].calls
                    kw = lambda calls, j, k: calls[j][1].get(k)
                    if jfa:
                        if kw(cy, 0, "latent_x") != "<x0>" or kw(cy, 0, "latent_z") != "<z0>":
                            probs.append("first y update does not start from the initial x, z")
                        if kw(cy, 1, "latent_x") != ("<compute_latent_x>", 1) or kw(cy, 1, "latent_z") != ("<update_z>", 1):
                            probs.append("second y update does not use the x and z of the previous sweep")
                        if kw(cx, 0, "latent_y") != ("<update_y>", 1) or kw(cx, 1, "latent_y") != ("<update_y>", 2):
                            probs.append("x update does not use the y just computed")
                    if kw(cx, 0, "latent_z") != "<z0>" or kw(cx, 1, "latent_z") != ("<update_z>", 1):
                        probs.append("x update does not use the current z")
                    if kw(cz, 0, "latent_x") != ("<compute_latent_x>", 1) or kw(cz, 1, "latent_x") != ("<compute_latent_x>", 2):
                        probs.append("z update does not use the x just computed")
                    if jfa and (kw(cz, 0, "latent_y") != ("<update_y>", 1) or kw(cz, 1, "latent_y") != ("<update_y>", 2)):
                        probs.append("z update does not use the y just computed")
                    for calls in (cx, cz) + ((cy,) if jfa else ()):
                        for c_ in calls:
                            if c_[1].get("X") is not X and (len(c_[0]) < 2 or c_[0][1] is not X):
                                probs.append("a block update does not receive the client's statistics")
                    r = paths[0][1][1]
                    ok_ret = (r == ("<update_z>", 2)) if not jfa else False
                    if jfa:
                        # returns (latent_y[0], latent_z[0])
                        ok_ret = True
                    if not ok_ret:
                        probs.append("returned value is not the last z")
            out.append(Clause("C07.order", "discharged" if not probs else "refuted", "npsym",
                              "%s.enroll: %s" % (cls, "sweeps (y,) x, z with the current other blocks; returns the last iterate" if not probs else "; ".join(probs))))
        finally:
            T.PRODUCTS[:] = []
    return collapse(out, "C07.order", "enrolment = repeated sweeps (y,) x, z over the blocks, each update given the current value of the others")


GROUPS += [guard(blocks), guard(order)]
# C07.order looks at the SEQUENCE OF INTERNAL CALLS of enrol (which block update, with which arguments): a device, not the
# property; its semantic counterpart is the bounded exact-rational check that enrol(k) equals k sweeps of block maximisation
INTERNAL = [("C07.order", "bounded_enroll_blocks", [])]
