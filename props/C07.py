"""C07 -- ISV and JFA enrolment climbs to the joint posterior mode of the latent factors.

Tier A: the leaf formulas every block update is assembled from, for all C, D, ranks and
session counts.  Tier B (bounded, objrun): the block updates and their order."""
from vt import terms as T
from vt.terms import Poly, P, ZERO, ONE, Sum
from vt import arr as A
from vt.arr import Arr, input_arr, ModelError
from vt.values import Obj, SList
from vt import contract as K
from vt.verify import Clause
from vt import verify as V
from contracts import gmm as G
from contracts import fa as FA
from props.common import new_interp, collapse, guard, bounded

FUNCTIONS = ["factor_analysis.FactorAnalysisBase._compute_fn_x_ih", "._compute_fn_y_i", "._compute_fn_z_i", "._compute_id_plus_u_prod_ih",
             "._compute_id_plus_vprod_i", "._compute_id_plus_d_prod_i", "._compute_uprod", "._compute_vprod",
             "(objrun, bounded) update_y/_latent_y_per_class, compute_latent_x/_compute_latent_x_per_class, update_z, ISVMachine.enroll, JFAMachine.enroll"]

Q = "factor_analysis.FactorAnalysisBase."


def leaf(name, fn, build, spec, note, cls="JFAMachine"):
    def run(ctx):
        FA.setup()
        I = new_interp()
        try:
            cl = K.check_function(I, Q + fn, lambda: build(I), spec, FA.facts(), name, state_names={0: "self"})
        finally:
            T.PRODUCTS[:] = []
        return collapse(cl, name, note)
    run.__name__ = "leaf_" + fn.strip("_")
    return run


def b_fn_x(I):
    return [FA.mk_fa(I), FA.one_stats(I)], {"latent_z_i": input_arr("z", (FA.Cc * FA.Dd,)), "latent_y_i": input_arr("y", (FA.RV,))}


def b_fn_x_isv(I):
    return [FA.mk_fa(I, "ISVMachine", with_v=False), FA.one_stats(I)], {"latent_z_i": input_arr("z", (FA.Cc * FA.Dd,))}


def b_fn_x_plain(I):
    return [FA.mk_fa(I, "ISVMachine", with_v=False), FA.one_stats(I)], {}


def b_fn_y(I):
    return [FA.mk_fa(I), FA.sessions(I), input_arr("lx", (FA.RU, FA.Hh)), input_arr("z", (FA.Cc * FA.Dd,)),
            input_arr("Nacc", (FA.Cc,)), input_arr("Facc", (FA.Cc, FA.Dd))], {}


def b_fn_z(I):
    return [FA.mk_fa(I), FA.sessions(I), input_arr("lx", (FA.RU, FA.Hh)), input_arr("y", (FA.RV,)),
            input_arr("Nacc", (FA.Cc,)), input_arr("Facc", (FA.Cc, FA.Dd))], {}


def b_fn_z_isv(I):
    return [FA.mk_fa(I, "ISVMachine", with_v=False), FA.sessions(I), input_arr("lx", (FA.RU, FA.Hh)), None,
            input_arr("Nacc", (FA.Cc,)), input_arr("Facc", (FA.Cc, FA.Dd))], {}


def fn_x_all(ctx):
    out = []
    for b, tag in ((b_fn_x, "jfa"), (b_fn_x_isv, "isv"), (b_fn_x_plain, "plain")):
        out += leaf("C07.fn_x." + tag, "_compute_fn_x_ih", b, FA.spec_fn_x_ih, "")(ctx)
    return collapse(out, "C07.fn_x", "F_h - N_h (m + D z + V y): the session residual the channel factor explains (JFA, ISV, z = 0)")


def fn_z_all(ctx):
    out = leaf("C07.fn_z.jfa", "_compute_fn_z_i", b_fn_z, FA.spec_fn_z_i, "")(ctx)
    out += leaf("C07.fn_z.isv", "_compute_fn_z_i", b_fn_z_isv, FA.spec_fn_z_i, "")(ctx)
    return collapse(out, "C07.fn_z", "F_i - N_i (m + V y) - Σ_h N_h U x_h: the residual the offset explains, every session weighted by its own counts")


def prec_all(ctx):
    out = leaf("C07.prec.x", "_compute_id_plus_u_prod_ih", lambda I: ([FA.mk_fa(I), FA.one_stats(I), input_arr("UP", (FA.Cc, FA.RU, FA.RU))], {}),
               FA.spec_id_plus_u_prod_ih, "(I + Σ_c N_hc U_c' S_c^-1 U_c)^-1 with the session's counts")(ctx)
    out += leaf("C07.prec.y", "_compute_id_plus_vprod_i", lambda I: ([FA.mk_fa(I), input_arr("Nacc", (FA.Cc,)), input_arr("VP", (FA.Cc, FA.RV, FA.RV))], {}),
                FA.spec_id_plus_vprod_i, "(I + Σ_c N_ic V_c' S_c^-1 V_c)^-1 with the client's pooled counts")(ctx)
    out += leaf("C07.prec.z", "_compute_id_plus_d_prod_i", lambda I: ([FA.mk_fa(I), input_arr("dsd", (FA.Cc * FA.Dd,)), input_arr("Nacc", (FA.Cc,))], {}),
                FA.spec_id_plus_d_prod_i, "1 / (1 + D^2 N_i / sigma) elementwise")(ctx)
    out += leaf("C07.uprod", "_compute_uprod", lambda I: ([FA.mk_fa(I)], {}), FA.spec_uprod, "UProd[c] = U_c' S_c^-1 U_c")(ctx)
    out += leaf("C07.vprod", "_compute_vprod", lambda I: ([FA.mk_fa(I)], {}), FA.spec_vprod, "VProd[c] = V_c' S_c^-1 V_c")(ctx)
    return out


GROUPS = [guard(fn_x_all), guard(leaf("C07.fn_y", "_compute_fn_y_i", b_fn_y, FA.spec_fn_y_i,
                                      "F_i - N_i (m + D z) - Σ_h N_h U x_h: the residual the speaker factors explain")),
          guard(fn_z_all), guard(prec_all)]
BOUNDED = [bounded("fa_repro.py", "enroll_blocks", "C07.block-order-return",
                   "ISV/JFA enrol(k iterations), k = 1..3, equals k sweeps of exact block maximisation in the order (y,) x, z of the joint posterior, "
                   "each block conditioned on the current other blocks; returned value is the last iterate"),
           bounded("fa_repro.py", "enroll_posterior", "C07.posterior-monotone",
                   "the joint log-posterior of the enrolment statistics (exact rationals) never decreases with one more enrolment iteration")]
SHARED = []
REPLAY = [("C07.block", "fa_repro.py", "enroll_blocks", {}), ("C07", "fa_repro.py", "enroll_posterior", {})]
LEVEL = "other"
EXPLANATION = ("Leaf formulas (residuals, posterior precisions, U'S^-1U products) are proved for all shapes (Tier A, counted in obligations/discharged). "
               "The block updates of the enrolment loops and their order are checked by the bounded objrun engine on a finite shape grid "
               "(bounded_checks, never counted as discharged). Convergence to the mode rests on the trusted lemma L-BCA.")
TRUSTED = ["L-BCA: exact maximisation of one block of a strictly concave quadratic never decreases it, and cyclic block maximisation converges to its unique maximiser",
           "np.linalg.inv contract; compound axis C*D is row-major (reshape/flatten/np.repeat semantics of the NumPy model)"]
ASSUMPTIONS = ["UBM variances > 0"]
XCHECK = ['fa']
