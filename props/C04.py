"""C04 -- array training is independent of chunking, task order and worker isolation.

The schedule quantifier is discharged by a frame argument over the trusted Dask
contract (DESIGN §3): tasks are pure w.r.t. everything but their own arguments
and results, every result the caller needs is taken from the task's *returned*
value (so shared-memory and isolated execution agree), per-block statistics add
up for every partition of the rows, and array_to_delayed_list yields a row
partition for every chunk grid."""
from vt import terms as T
from vt.terms import Poly, P, ZERO, ONE, Sum
from vt.arr import Arr, input_arr, ModelError
from vt.values import Obj, SList
from vt import contract as K
from vt.verify import Clause
from vt import verify as V
from contracts import gmm as G
from props.common import new_interp, collapse, guard, bounded
from props.loopvc import RowChunks, GridChunks

FUNCTIONS = ["utils.check_and_persist_dask_input", "utils.array_to_delayed_list", "gmm.GMMMachine.fit (Dask branch)", "kmeans.KMeansMachine.fit (Dask branch)",
             "kmeans.KMeansMachine.get_variances_and_weights_for_each_cluster (Dask branch)", "gmm.e_step / kmeans.e_step (as tasks)",
             "wccn.WCCN.fit / whitening.Whitening.fit (Dask and NumPy module binding)"]


def spec_array_to_delayed_list(ctx, data, input_is_dask):
    """property-level contract: the list is a ROW partition of data (every element carries all columns)"""
    if not input_is_dask:
        return data
    rows = data.chunks.rows if isinstance(data.chunks, GridChunks) else data.chunks
    return rows.blocks(data)


def partition(ctx):
    out = []
    F = G.facts(dims={"CB"})
    F.pos_apps |= set()
    # row-chunked input
    I = new_interp()

    def build_rows():
        x = G.mk_data(kind="dask")
        x.chunks = RowChunks(G.Nn)
        return [x, True], {}
    # RowChunks partitions are created with fresh tags on every build: compare through a shared instance
    shared = {}

    def build_rows_shared():
        x = G.mk_data(kind="dask")
        if "rc" not in shared:
            shared["rc"] = RowChunks(G.Nn)
        x.chunks = shared["rc"]
        return [x, True], {}
    cl = K.check_function(I, "utils.array_to_delayed_list", build_rows_shared, spec_array_to_delayed_list, F, "C04.partition.rows")
    out += cl
    # rows x columns grid with more than one column block
    I = new_interp()

    def build_grid():
        x = G.mk_data(kind="dask")
        if "gc" not in shared:
            shared["gc"] = GridChunks(G.Nn, G.Dd)
        x.chunks = shared["gc"]
        return [x, True], {}
    build_grid()
    many = T.cmp_cond("<", ONE, shared["gc"].ncb)
    cl = K.check_function(I, "utils.array_to_delayed_list", build_grid, spec_array_to_delayed_list, F, "C04.partition.grid", assume=[many])
    out += cl
    # NumPy input is passed through
    I = new_interp()
    cl = K.check_function(I, "utils.array_to_delayed_list", lambda: ([G.mk_data(), False], {}), spec_array_to_delayed_list, F, "C04.partition.numpy")
    out += cl
    # check_and_persist_dask_input
    for kind in ("numpy", "dask"):
        I = new_interp()
        cl = K.check_function(I, "utils.check_and_persist_dask_input", lambda kind=kind: ([G.mk_data(kind=kind)], {}),
                              lambda c_, data, persist=True: (data.kind == "dask", data), F, "C04.persist." + kind)
        out += cl
    part = [c for c in out if c.name.startswith("C04.partition")]
    pers = [c for c in out if c.name.startswith("C04.persist")]
    return collapse(part, "C04.partition", "array_to_delayed_list(data) is a row partition of data for every chunk grid "
                    "(row blocks only, and rows x columns with > 1 column block); NumPy input passed through") + \
        collapse(pers, "C04.persist", "check_and_persist_dask_input returns (is-dask, the same values)")


GROUPS = [guard(partition)]
BOUNDED = [bounded("fa_repro.py", "array_vs_list", "C04.fa.byclass",
                   "ISV/JFA fit_using_array on a Dask array (3 chunkings, chunks mixing classes) equals the NumPy result in U, V, D (float64, rel. tol. 1e-8)"),
           bounded("fa_repro.py", "continued", "C04.fa.continued",
                   "ISV/JFA: fit, enrol/score, fit again from per-class delayed lists, with shared and with serialised (isolated) tasks, equals the same "
                   "history on lists in U, V, D (float64, rel. tol. 1e-9): no state is kept on the machine besides U, V, D")]
SHARED = [("C02", "split_lemma", ["C02.split"]),
          # the per-block functions meet the contracts the partition lemmas are stated over (modular closure)
          ("C02", "estep_post", ["C02.estep.t", "C02.estep.n", "C02.estep.sum_px", "C02.estep.sum_pxx", "C02.estep.log_likelihood", "C02.estep.frame"]),
          ("C02", "add_post", ["C02.iadd.log_likelihood", "C02.iadd.t", "C02.iadd.n", "C02.iadd.sum_px", "C02.iadd.sum_pxx"]),
          ("C06", "estep", ["C06.assign", "C06.estep.criterion", "C06.estep.frame"]), ("C06", "mstep", ["C06.centroid", "C06.mstep.criterion"]),
          ("C20", "varweights", ["C20.accumulate", "C20.reduce.one", "C20.reduce.blocks"]),
          ("C03", "loop_thr_max", ["C03.loop.body[thr=set,max=set]"]), ("C05", "loop_map", ["C05.loop.body[thr=set,max=set]"]),
          ("C06", "loop_thr_max", ["C06.loop.body[thr=set,max=set]"]), ("C06", "lemmas", ["C06.crit", "C06.centroid.mean"]),
          ("C20", "lemmas", ["C20.blocks"]), ("C20", "entry", ["C20.entry"]),
          ("C14", "dask_same", ["C14.dask"]),
          # ISV/JFA on the Dask path: per-class E-steps are functions of (U, V, D, UBM, arguments) only (leaf contracts: no hidden
          # per-machine state), their outputs are reduced exactly once each and the M-step result is copied back (isolated tasks)
          ("C09", "handover", ["C09.handover"]), ("C09", "reduce_iadd", ["C09.reduce"]), ("C09", "esteps", ["C09.estep.V", "C09.estep.U", "C09.estep.D", "C09.isv.estep"]), ("C09", "finalizers", ["C09.finalize.V", "C09.finalize.U"]),
          ("C07", "prec_all", ["C07.prec.x", "C07.prec.y", "C07.prec.z", "C07.uprod", "C07.vprod"])]
REPLAY = [("C04.fa.continued", "fa_repro.py", "continued", {}), ("C07", "fa_repro.py", "continued", {}), ("C09", "fa_repro.py", "dask_classes", {}), ("C03.loop.body", "gmm_repro.py", "dask_isolated", {"trainer": "ml"}), ("C05.loop.body", "gmm_repro.py", "dask_isolated", {"trainer": "map"}),
          ("C04.fa", "fa_repro.py", "array_vs_list", {}), ("C14", "linear_repro.py", "dask", {}), ("C06", "effects_repro.py", "chunking", {}),
          ("C20", "effects_repro.py", "chunking", {}), ("C04", "effects_repro.py", "chunking", {})]
TRUSTED = ["Dask contract (DESIGN §3): dask.compute(dask.delayed(f)(args)) == f(value-equal args), arguments either shared or fresh copies; tasks run after "
           "their data dependencies in no other guaranteed order; to_delayed().ravel().tolist() lists the chunk grid row-major; persist/rebalance keep values",
           "dask.array implements the NumPy functions used with the same values"]
ASSUMPTIONS = ["real scheduler interleavings and real serialisation are replaced by the frame argument over the Dask contract",
               "rounding differences between chunkings (and iteration-count flips at the threshold caused by them) are not decided"]
LEVEL_NOTE = "proof over the trusted Dask contract; ISV/JFA array training (fit_using_array) is covered by the bounded objrun engine only"
XCHECK = ['gmm', 'kmeans', 'wccn']
