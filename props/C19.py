"""C19 -- training and scoring never modify or alias caller-owned data."""
from vt import terms as T
from vt.terms import Poly, P, ZERO, ONE
from vt.arr import Arr, input_arr
from vt.values import Obj, SList
from vt import contract as K
from vt.verify import Clause
from contracts import gmm as G
from contracts import kmeans as KM
from contracts import linear_scoring as LS
from contracts import ivector as IV
from props.common import new_interp, collapse, guard, bounded
from props.effects import effects_check

FUNCTIONS = ["gmm.GMMMachine.fit (ML, MAP; one full iteration inlined)", "gmm.GMMMachine.__init__", "gmm.GMMMachine.initialize_gaussians",
             "gmm.GMMMachine.acc_stats / transform", "gmm.GMMStats.__add__ / __iadd__", "gmm.m_step", "linear_scoring.linear_scoring",
             "kmeans.KMeansMachine.fit / get_variances_and_weights_for_each_cluster", "ivector.e_step / m_step / project"]

OWNED = lambda o: not o.startswith("@")     # every named input region is caller-owned


def one_iter(m):
    m.fields["max_fitting_steps"] = 1
    m.fields["convergence_threshold"] = None
    return m


def gmm_fit(ctx):
    out = []
    for trainer in ("ml", "map"):
        I = new_interp()
        F = G.facts(extra_pos_apps={"n"})

        def mk(I=I, trainer=trainer):
            ubm = G.mk_gmm(I, "0") if trainer == "map" else None
            m = one_iter(G.mk_gmm(I, trainer=trainer, ubm=ubm, update=(True, True, True)))
            return {"X": G.mk_data(), "ubm": ubm, "machine": m}

        def thunk(I=I, mk=mk):
            ins = mk()
            I.call(K.lookup(I, "gmm.GMMMachine.fit"), [ins["machine"], ins["X"]], {})
            return ({"X": ins["X"], "ubm": ins["ubm"]} if ins["ubm"] is not None else {"X": ins["X"]}, [ins["machine"]])
        # the machine's own previous arrays (w, mu, v) are its to overwrite; the data and the prior are not
        owned = (lambda o: o in ("x",) or o.endswith("0"))
        effects_check(I, "C19.fit.%s" % trainer, thunk, owned, F, out, unchanged=lambda mk=mk: mk())
    return collapse(out, "C19.gmm.fit", "GMMMachine.fit (ML and MAP, one full EM iteration with every callee inlined): data and prior unchanged, "
                    "no in-place write on them, trained parameters share no memory with them")


def map_prior_copy(ctx):
    out = []
    F = G.facts()
    # every array-valued parameter of the prior, INCLUDING array-valued variance floors (scalar floors cannot be shared)
    for thr in ("scalar", "matrix", "perfeature"):
        I = new_interp()

        def thunk(I=I, thr=thr):
            ubm = G.mk_gmm(I, "0", thr=thr)
            m = I.call(I.classes["GMMMachine"], [G.Cc], {"trainer": "map", "ubm": ubm})
            return ({"ubm": ubm}, [m])
        effects_check(I, "C19.map.priorcopy.init[%s]" % thr, thunk, lambda o: o.endswith("0"), F, out,
                      unchanged=lambda I=I, thr=thr: {"ubm": G.mk_gmm(I, "0", thr=thr)})
        I = new_interp()

        def thunk2(I=I, thr=thr):
            ubm = G.mk_gmm(I, "0", thr=thr)
            m = G.mk_gmm(I, trainer="map", ubm=ubm, means=False, variances=False, gnorms="none")
            I.call(K.lookup(I, "gmm.GMMMachine.initialize_gaussians"), [m], {})
            return ({"ubm": ubm}, [m])
        effects_check(I, "C19.map.priorcopy.initialize[%s]" % thr, thunk2, lambda o: o.endswith("0"), F, out,
                      unchanged=lambda I=I, thr=thr: {"ubm": G.mk_gmm(I, "0", thr=thr)})
    return collapse(out, "C19.map.priorcopy", "a MAP machine's parameters are copies of the prior's arrays (constructor and initialize_gaussians)")


def stats_ops(ctx):
    out = []
    F = G.facts()
    for op in ("__add__", "__iadd__"):
        I = new_interp()

        def thunk(I=I, op=op):
            a, b = G.mk_stats(I, "a"), G.mk_stats(I, "b")
            r = I.call(K.lookup(I, "gmm.GMMStats." + op), [a, b], {})
            return ({"other": b} if op == "__iadd__" else {"self": a, "other": b}, [r])
        owned = (lambda o: o.endswith("b")) if op == "__iadd__" else (lambda o: True)
        effects_check(I, "C19.stats.%s" % op.strip("_"), thunk, owned, F, out,
                      unchanged=(lambda I=I, op=op: ({"other": G.mk_stats(I, "b")} if op == "__iadd__" else
                                                     {"self": G.mk_stats(I, "a"), "other": G.mk_stats(I, "b")})))
    # m_step reduces in place into the FIRST statistics object: callers must pass fresh ones (fit does)
    I = new_interp()

    def thunk3():
        m = G.mk_gmm(I, update=(True, True, True))
        x = G.mk_data()
        st = I.call(K.lookup(I, "gmm.GMMMachine.acc_stats"), [m, x], {})
        tr = I.call(K.lookup(I, "gmm.GMMMachine.transform"), [m, [x]], {})
        return ({"X": x}, [st, tr])
    effects_check(I, "C19.acc_stats", thunk3, lambda o: True, F, out, unchanged=lambda: {"X": G.mk_data()})
    return collapse(out, "C19.stats", "statistics addition leaves its operands (+=: the right operand) unchanged and returns fresh arrays; "
                    "acc_stats/transform leave machine and data unchanged")


def scoring(ctx):
    out = []
    I = new_interp()
    F = G.facts(dims={"M", "Pp"})
    F.pos_apps |= {"vu", "wu"}

    def mk():
        return {"models": input_arr("mm", (LS.Mm, G.Cc, G.Dd)), "ubm": G.mk_gmm(I, "u"), "stats": LS.stats_list(I),
                "offsets": input_arr("off", (LS.Pp, G.Cc, G.Dd))}

    def thunk():
        ins = mk()
        r = I.call(K.lookup(I, "linear_scoring.linear_scoring"), [ins["models"], ins["ubm"], ins["stats"], ins["offsets"], True], {})
        return (ins, [r])
    effects_check(I, "C19.linear_scoring", thunk, lambda o: True, F, out, unchanged=mk)
    return collapse(out, "C19.linear_scoring", "linear_scoring leaves models, UBM, statistics and offsets unchanged; the score matrix is fresh")


def kmeans_entry(ctx):
    out = []
    F = KM.facts()
    I = new_interp()

    def init_abs(ctx_, self, data):
        # dask_ml k_init returns the caller's array itself for an ndarray init (trusted, DESIGN §3)
        self.fields["centroids_"] = input_arr("cen", (KM.Kk, KM.Dd))
    I.contracts["kmeans.KMeansMachine.initialize"] = K.as_contract(init_abs)

    def thunk():
        m = KM.mk_kmeans(I, centroids=False, max_iter=1, convergence_threshold=None)
        x = KM.mk_data()
        I.call(K.lookup(I, "kmeans.KMeansMachine.fit"), [m, x], {})
        vw = I.call(K.lookup(I, "kmeans.KMeansMachine.get_variances_and_weights_for_each_cluster"), [m, x], {})
        return ({"X": x}, [m, vw])
    effects_check(I, "C19.kmeans.init", thunk, lambda o: True, F, out, unchanged=lambda: {"X": KM.mk_data()})
    return collapse(out, "C19.kmeans.init", "after >= 1 iteration the centroids share no memory with the data or with the initial centroids given "
                    "by the caller; the data are unchanged (with max_iter = 0 the centroids ARE the caller's array: stated precondition)")


BOUNDED = [bounded("fa_repro.py", "inputs_unchanged", "C19.fa",
                   "ISV/JFA fit, enroll and score leave the statistics and labels bit-identical; trained U, V, D share no memory with them")]
def ivector_entry(ctx):
    """IVectorMachine.fit (one full iteration, list input, with and without covariance updating), project:
    the UBM, the statistics and their arrays are neither written nor captured"""
    out = []
    for upd in (True, False):
        I = new_interp()
        F = IV.facts()

        def mk(I=I):
            return {"X": IV.mk_stats_list(I), "ubm": G.mk_gmm(I, "u")}

        def thunk(I=I, upd=upd, mk=mk):
            ins = mk()
            m = IV.mk_machine(I, update_sigma=upd, trained=False)
            m.fields["ubm"] = ins["ubm"]
            I.call(K.lookup(I, "ivector.IVectorMachine.fit"), [m, ins["X"]], {})
            pr = I.call(K.lookup(I, "ivector.IVectorMachine.project"), [m, IV.mk_one_stats(I)], {})
            return (ins, [Obj(m.cls, {k: v for k, v in m.fields.items() if k != "ubm"}), pr])
        effects_check(I, "C19.ivector.fit[update_sigma=%s]" % upd, thunk, lambda o: True, F, out, unchanged=mk)
    return collapse(out, "C19.ivector", "i-vector training (one full EM iteration inlined, update_sigma on and off) and projection leave the UBM and the statistics "
                    "unchanged and unaliased: T and sigma share no memory with the UBM's variances")


GROUPS = [guard(ivector_entry), guard(gmm_fit), guard(map_prior_copy), guard(stats_ops), guard(scoring), guard(kmeans_entry)]
SHARED = [("C02", "add_post", ["C02.add.frame", "C02.iadd.frame"]), ("C05", "mstep_map", ["C05.frame", "C05.m.other"]), ("C03", "mstep_ml", ["C03.m.frame"]),
          ("C08", "post", ["C08.frame"])]
REPLAY = [("C19.stats", "gmm_repro.py", "stats_add", {"inplace": True}), ("C05", "gmm_repro.py", "map_mstep", {"fields": ["weights", "means"]}), ("C19.fa", "fa_repro.py", "inputs_unchanged", {}), ("C19", "effects_repro.py", "inputs", {}), ("C0", "effects_repro.py", "inputs", {})]
TRUSTED = ["library table: arithmetic, np.where, vstack, np.array, .flatten(), copy.deepcopy, boolean/fancy indexing return fresh arrays; "
           "asarray, atleast_2d, .T, transpose, reshape, swapaxes, broadcast_to, basic slicing, .ravel() return views",
           "dask_ml k_init returns the caller's array for an ndarray init"]
ASSUMPTIONS = ["mutation inside third-party code is not analysed", "k-means with max_iter >= 1"]
XCHECK = ['gmm', 'kmeans', 'linear', 'ivector']
