"""Frame / ownership obligations (DESIGN §1.4) derived on the symbolic execution
of the real code: every array carries the set of caller-owned memory regions it
may alias (views propagate it, arithmetic/copies clear it); in-place writes are
logged with the regions they touch."""
from vt import terms as T
from vt.terms import Poly, P
from vt.arr import Arr, ModelError
from vt.values import Obj, SList, PyRaise
from vt.verify import Clause
from vt import verify as V


def origins_of(v, acc=None, path="", seen=None, skip_fields=()):
    """(path, origin set) of every array reachable from v"""
    acc = [] if acc is None else acc
    seen = set() if seen is None else seen
    if isinstance(v, Arr):
        acc.append((path, v.origin))
    elif isinstance(v, Obj):
        if id(v) in seen:
            return acc
        seen.add(id(v))
        for k, x in v.fields.items():
            if k in skip_fields:
                continue
            origins_of(x, acc, path + "." + k, seen, skip_fields)
    elif isinstance(v, (list, tuple)):
        for i, x in enumerate(v):
            origins_of(x, acc, "%s[%d]" % (path, i), seen, skip_fields)
    elif isinstance(v, SList):
        origins_of(v.elem(T.fresh("q")), acc, path + "[i]", seen, skip_fields)
    elif isinstance(v, dict):
        for k, x in v.items():
            origins_of(x, acc, "%s[%r]" % (path, k), seen, skip_fields)
    return acc


def effects_check(I, name, thunk, owned, F, out, byref=("ubm", "k_means_trainer"), allowed_writes=(), unchanged=None):
    """thunk() -> (inputs dict, result/trained objects list).  owned: predicate on
    region names (caller-owned memory).  Emits:
      <name>.write    no in-place write touches caller-owned memory
      <name>.capture  nothing returned / stored in trained objects aliases caller-owned memory
      <name>.unchanged every input equals a freshly built copy (values)"""
    I.writes = []
    try:
        paths = I.run_paths(thunk)
    except ModelError as e:
        out.append(Clause(name, "undecided", "", "%s at %s" % (e, I.loc)))
        return
    bad_w, bad_c = [], []
    n_sites = 0
    for pc, (k, payload) in paths:
        if k != "ok":
            out.append(Clause(name + ".write", "refuted", "effects", "raises %s" % (payload,)))
            continue
    for loc, org, kind in I.writes:
        n_sites += 1
        hit = [o for o in org if owned(o) and o not in allowed_writes]
        if hit:
            bad_w.append("%s writes in place into caller-owned %s (%s)" % (loc, sorted(hit), kind))
    out.append(Clause(name + ".write", "discharged" if not bad_w else "refuted", "effects",
                      ("%d in-place write sites, all on fresh arrays" % n_sites) if not bad_w else "; ".join(sorted(set(bad_w))[:4])))
    n_fields = 0
    for pc, (k, payload) in paths:
        if k != "ok":
            continue
        ins, results = payload
        for pth, org in origins_of(results, skip_fields=byref):
            n_fields += 1
            hit = [o for o in org if owned(o)]
            if hit:
                bad_c.append("result%s shares memory with caller-owned %s" % (pth, sorted(hit)))
        if unchanged is not None:
            cl = []
            fresh = unchanged()
            for key, val in ins.items():
                V.compare(val, fresh[key], F.extend(pc), "%s.unchanged.%s" % (name, key), cl)
            bad = [c for c in cl if c.status != "discharged"]
            out.append(Clause(name + ".unchanged", "discharged" if not bad else bad[0].status, "normaliser",
                              "%d input fields compared" % len(cl) if not bad else "; ".join("%s: %s" % (c.name, c.detail[:200]) for c in bad[:3])))
    out.append(Clause(name + ".capture", "discharged" if not bad_c else "refuted", "effects",
                      ("%d returned/stored arrays, none aliases an input" % n_fields) if not bad_c else "; ".join(sorted(set(bad_c))[:4])))
