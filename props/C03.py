"""C03 -- ML training never decreases the likelihood and stops by its stated rule."""
import itertools

import z3

from vt import terms as T
from vt.terms import Poly, P, C, ZERO, ONE, Sum
from vt import arr as A
from vt.arr import Arr, input_arr, ModelError
from vt.values import Obj, SList, PyRaise
from vt import contract as K
from vt.verify import Clause
from vt import verify as V
from vt import smt
from contracts import gmm as G
from props.common import new_interp, collapse, guard
from props import loopvc

FUNCTIONS = ["gmm.ml_gmm_m_step", "gmm.m_step", "gmm.GMMMachine.fit (loop skeleton: init, guard, step, stopping test, both branches)",
             "gmm.e_step (by contract)", "gmm.GMMStats.__iadd__ (by contract)", "utils.check_and_persist_dask_input",
             "utils.array_to_delayed_list"]

SETTERS = {}


def ml_facts(m):
    F = G.facts(extra_pos_apps={"n"}, extra_pos_syms={"t"})
    return G.facts_inv(m, F)


def mstep_ml(ctx):
    """code result == block maximiser of Q for each updated block, 8 switch combinations"""
    res = []
    for um, uv, uw in itertools.product((True, False), repeat=3):
        I = new_interp()
        flags = dict(update_means=um, update_variances=uv, update_weights=uw)

        def build(I=I, flags=flags):
            m = G.mk_gmm(I, update=(flags["update_means"], flags["update_variances"], flags["update_weights"]))
            return [], dict(machine=m, statistics=G.mk_stats(I), mean_var_update_threshold=m.fields["mean_var_update_threshold"], **flags)
        F = ml_facts(G.mk_gmm(I))
        cl = K.check_function(I, "gmm.ml_gmm_m_step", build, G.spec_ml_m_step, F, "C03.m", result_name="ret")
        tag = "[um=%d,uv=%d,uw=%d]" % (um, uv, uw)
        for c in cl:
            c.detail = tag + " " + c.detail
        res += cl
    out = []
    sel = lambda suffixes: [c for c in res if any(c.name.endswith(s) for s in suffixes)]
    sw, sm, sv = sel(["machine._weights", "machine._log_weights"]), sel(["machine._means"]), sel(["machine._variances", "machine._g_norms"])
    rest = [c for c in res if c not in sw + sm + sv]
    out += collapse(sw, "C03.m.weights", "weights' = max(n, eps)/t when updated, unchanged otherwise")
    out += collapse(sm, "C03.m.means", "means' = sum_px / max(n, eps) when updated, unchanged otherwise")
    out += collapse(sv, "C03.m.variances",
                    "variances' = max(floors, Σ_s r (x - mu_in_force)^2 / max(n,eps)) -- the maximiser of Q over the variances "
                    "given the means in force (updated or frozen)")
    out += collapse(rest, "C03.m.frame", "statistics and the other machine fields unchanged; divisions defined (count floor)")
    return out


def avg_post(ctx):
    """m_step: statistics summed fieldwise with +=, trainer-specific M-step with the
    machine's own switches, returns (machine, Σ ll / Σ t)"""
    out = []
    contracts = {"gmm.ml_gmm_m_step": G.spec_ml_m_step, "gmm.map_gmm_m_step": G.spec_map_m_step,
                 "gmm.GMMStats.__iadd__": G.spec_stats_iadd}
    for label in ("one", "list"):
        for trainer, stale in (("ml", 0), ("map", 0), ("ml", 1), ("map", 1)):
            I = new_interp(contracts)
            nb = T.sym("B", "int")
            # stale=1: the trainer was re-assigned after construction (set_params / plain attribute store):
            # every field __init__ derived from it still holds the value derived from the old trainer
            snaps = K.stale_snapshots(I, G.mk_gmm(I, trainer=trainer, ubm=(G.mk_gmm(I, "0") if trainer == "map" else None))) if stale else []
            if stale and not snaps:
                continue

            def build(I=I, label=label, trainer=trainer, snaps=snaps):
                ubm = G.mk_gmm(I, "0") if trainer == "map" or snaps else None
                m = G.mk_gmm(I, trainer=trainer, ubm=ubm, update=(True, True, True))
                for _, upd in snaps:
                    m.fields.update(upd)
                if label == "one":
                    return [[G.mk_stats(I)], m], {}
                ci = I.classes["GMMStats"]

                def elem(b):
                    s = Obj(ci)
                    s.fields.update(n_gaussians=G.Cc, n_features=G.Dd, log_likelihood=T.app("llb", b), t=T.app("tb", b, sort="int"),
                                    n=Arr((G.Cc,), lambda c: T.app("nb", b, c)), sum_px=Arr((G.Cc, G.Dd), lambda c, d: T.app("Fb", b, c, d)),
                                    sum_pxx=Arr((G.Cc, G.Dd), lambda c, d: T.app("Sb", b, c, d)))
                    return s
                return [SList(nb, elem), m], {}

            def spec(ctx_, statistics, machine):
                if isinstance(statistics, SList):
                    # Σ_{b<B} written as first + rest (range-split), as the left fold produces it
                    n = statistics.slen()
                    first = statistics.elem(Poly.const(0))
                    rest = SList(n - 1, lambda i: statistics.elem(i + 1))
                    S0 = G.sum_stats(I, rest)
                    S = Obj(first.cls, dict(first.fields))
                    for f in ("log_likelihood", "t", "n", "sum_px", "sum_pxx"):
                        S.fields[f] = first.fields[f] + S0.fields[f]
                    return G.spec_m_step(ctx_, [S], machine)
                return G.spec_m_step(ctx_, statistics, machine)
            F = G.facts(extra_pos_apps={"n", "nb", "tb", "n0"}, extra_pos_syms={"t"}, dims={"B"})
            cl = K.check_function(I, "gmm.m_step", build, spec, F, "C03.avg.%s.%s%s" % (label, trainer, ".reassigned" if stale else ""),
                                  state_names={0: "statistics", 1: "machine"}, structural=False)
            out += cl
    avg = [c for c in out if c.name.endswith("result[1]")]
    rest = [c for c in out if c not in avg]
    return collapse(avg, "C03.avg.post", "m_step returns Σ_b ll_b / Σ_b t_b (the average log-likelihood of the incoming parameters)") + \
        collapse(rest, "C02.mstep.reduce", "functools.reduce(operator.iadd, stats) is the fieldwise Σ over the list; M-step dispatched on the "
                 "machine's trainer with its own switches; machine returned")


def argmax_lemmas(ctx):
    """the closed forms of the contract maximise Q in their block (z3; one instance of
    log t <= t - 1 supplied as the only non-polynomial fact)"""
    out = []
    # means: Q(mu) = -(S - 2 mu F + n mu^2)/(2v); mu* = F/n
    n, Fx, S, v, mu = [z3.Real(x) for x in ("n", "F", "S", "v", "mu")]
    s = z3.Solver()
    s.set("timeout", 10000)
    Q = lambda m_: -(S - 2 * m_ * Fx + n * m_ * m_) / (2 * v)
    s.add(n > 0, v > 0, z3.Not(Q(Fx / n) >= Q(mu)))
    r = s.check()
    out.append(Clause("C03.argmax.mu", "discharged" if r == z3.unsat else "undecided", "z3", "Q(F/n) >= Q(mu) for all mu (n, v > 0)"))
    # variances: g(v) = -n/2 log v - A/(2v), A >= 0, v* = A/n ; g(v*) - g(v) = n/2 (log(v/v*) + v*/v - 1) >= 0
    #   with u = v*/v > 0 : -log u + u - 1 >= 0   [log u <= u - 1]
    u, logu = z3.Real("u"), z3.Real("logu")
    s = z3.Solver()
    s.add(u > 0, logu <= u - 1, n > 0, z3.Not(n / 2 * (-logu + u - 1) >= 0))
    r = s.check()
    out.append(Clause("C03.argmax.v", "discharged" if r == z3.unsat else "undecided", "z3",
                      "Q(A/n) - Q(v) = n/2 (u - 1 - log u) >= 0 with u = A/(n v), using log u <= u - 1"))
    # weights (two components shown; Gibbs for C components follows the same inequality summed over c):
    #   Σ_c n_c log(w*_c / w_c) >= 0 with w*_c = n_c/N, Σ w = 1 : each term n_c(-log(w_c/w*_c)) >= n_c(1 - w_c/w*_c)
    a, lg = z3.Real("a"), z3.Real("lg")   # a = w_c / w*_c
    s = z3.Solver()
    s.add(a > 0, lg <= a - 1, n > 0, z3.Not(n * (-lg) >= n * (1 - a)))
    r = s.check()
    out.append(Clause("C03.argmax.w", "discharged" if r == z3.unsat else "undecided", "z3",
                      "per-component Gibbs step n_c log(w*_c/w_c) >= n_c (1 - w_c/w*_c); summing gives Σ_c (n_c - N w_c) = 0"))
    return out


def loop_thr_max(ctx):
    return loopvc.gmm_fit_loop("C03", "ml", True, True)


def loop_thr_nomax(ctx):
    return loopvc.gmm_fit_loop("C03", "ml", True, False)


def loop_nothr_max(ctx):
    return loopvc.gmm_fit_loop("C03", "ml", False, True)


GROUPS = [guard(mstep_ml), guard(avg_post), guard(argmax_lemmas), guard(loop_thr_max), guard(loop_thr_nomax), guard(loop_nothr_max)]
SHARED = [("C02", "estep_post", ["C02.estep.n", "C02.estep.sum_px", "C02.estep.sum_pxx", "C02.estep.log_likelihood", "C02.estep.t"]),
          ("C02", "split_lemma", ["C02.split"])]
REPLAY = [("C03.loop.body", "gmm_repro.py", "dask_isolated", {"trainer": "ml"}), ("C03.m.", "gmm_repro.py", "ml_mstep", {}), ("C03.avg", "gmm_repro.py", "ml_mstep", {}), ("C02.mstep", "gmm_repro.py", "ml_mstep", {}),
          ("C03.loop", "gmm_repro.py", "fit_loop", {"trainer": "ml"})]
TRUSTED = ["L-EM: for a finite mixture, L(Θ') - L(Θ) >= Q(Θ'|Θ) - Q(Θ|Θ) (Jensen); with the E-step exact (C02) and each updated block the "
           "argmax of Q (C03.m.*, C03.argmax.*) the average log-likelihood cannot decrease",
           "log u <= u - 1 for u > 0",
           "Dask contract of DESIGN §3 (delayed/compute, to_delayed block order)"]
ASSUMPTIONS = ["no variance floor or count floor active for the ascent clause (as in the property statement)",
               "average log-likelihood of the previous iteration is non-zero (division in the convergence test)"]
XCHECK = ['gmm']
