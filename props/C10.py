"""C10 -- i-vectors are posterior means; i-vector EM never decreases the likelihood."""
from vt import terms as T
from vt.terms import Poly, P, ZERO, ONE, Sum
from vt import arr as A
from vt.arr import Arr, input_arr, ModelError
from vt.values import Obj, SList
from vt import contract as K
from vt import npmodel as N
from vt.verify import Clause
from vt import verify as V
from vt import smt
from contracts import gmm as G
from contracts import ivector as IV
from props.common import new_interp, collapse, guard

FUNCTIONS = ["ivector.compute_tct_sigmac_inv", "ivector.compute_tct_sigmac_inv_tc", "ivector.compute_id_tt_sigma_inv_t", "ivector.compute_tt_sigma_inv_fnorm",
             "ivector.IVectorMachine.project", "ivector.IVectorMachine.transform", "ivector.e_step", "ivector.m_step",
             "ivector.IVectorStats.__init__ / __add__ / __iadd__"]


def projection(ctx):
    out = []
    I = new_interp()
    F = IV.facts()
    cl = K.check_function(I, "ivector.compute_id_tt_sigma_inv_t", lambda: ([IV.mk_one_stats(I), input_arr("Tm", (G.Cc, G.Dd, IV.Rr)), input_arr("sig", (G.Cc, G.Dd))], {}),
                          IV.spec_compute_id_tt_sigma_inv_t, F, "C10.A")
    out += collapse(cl, "C10.A", "posterior precision == I + Σ_c N_c T_c' S_c^-1 T_c")
    I = new_interp()
    cl = K.check_function(I, "ivector.compute_tt_sigma_inv_fnorm",
                          lambda: ([input_arr("muu", (G.Cc, G.Dd)), IV.mk_one_stats(I), input_arr("Tm", (G.Cc, G.Dd, IV.Rr)), input_arr("sig", (G.Cc, G.Dd))], {}),
                          IV.spec_compute_tt_sigma_inv_fnorm, F, "C10.b")
    out += collapse(cl, "C10.b", "linear term == Σ_c T_c' S_c^-1 (F_c - N_c m_c)")
    I = new_interp()
    cl = K.check_function(I, "ivector.IVectorMachine.project", lambda: ([IV.mk_machine(I), IV.mk_one_stats(I)], {}), IV.spec_project, F, "C10.project",
                          state_names={0: "self", 1: "stats"})
    I = new_interp({"ivector.IVectorMachine.project": IV.spec_project})
    cl += K.check_function(I, "ivector.IVectorMachine.transform", lambda: ([IV.mk_machine(I), IV.mk_stats_list(I)], {}),
                           lambda c_, self, X: SList(X.slen(), lambda j: IV.spec_project(c_, self, X.elem(j))), F, "C10.transform")
    out += collapse(cl, "C10.project", "project(stats) == the solution of (I + Σ N T'S^-1T) w = Σ T'S^-1 (F - N m) (np.linalg.solve contract); transform maps it over a list")
    # zero statistics -> zero vector
    I = new_interp()
    m = IV.mk_machine(I)
    z = Obj(I.classes["GMMStats"])
    z.fields.update(n_gaussians=G.Cc, n_features=G.Dd, log_likelihood=0, t=0, n=A.const_arr((G.Cc,), 0), sum_px=A.const_arr((G.Cc, G.Dd), 0),
                    sum_pxx=A.const_arr((G.Cc, G.Dd), 0))
    r = IV.spec_project(None, m, z)
    cl = []
    V.compare_terms(P(r.fn(T.fresh("t"))), ZERO, F, "C10.zero", cl)
    out += cl
    return out


def stats_ops(ctx):
    out = []
    for op, spec in (("__add__", IV.spec_stats_add), ("__iadd__", IV.spec_stats_iadd)):
        I = new_interp()
        cl = K.check_function(I, "ivector.IVectorStats." + op, lambda: ([IV.mk_ivstats(I, "a"), IV.mk_ivstats(I, "b")], {}), spec, IV.facts(),
                              "C10.stats." + op.strip("_"), state_names={0: "self", 1: "other"})
        out += cl
    return collapse(out, "C10.stats.add", "IVectorStats + / += add all four accumulators (N E[ww'], Fnorm E[w]', Snorm, N); other unchanged")


def estep(ctx):
    I = new_interp({"ivector.compute_id_tt_sigma_inv_t": IV.spec_compute_id_tt_sigma_inv_t,
                    "ivector.compute_tt_sigma_inv_fnorm": IV.spec_compute_tt_sigma_inv_fnorm})
    cl = K.check_function(I, "ivector.e_step", lambda: ([IV.mk_machine(I), IV.mk_stats_list(I)], {}), IV.spec_e_step, IV.facts(), "C10.estep",
                          state_names={0: "machine", 1: "data"}, structural=False)
    res = []
    for f, note in (("nij", "Σ_j N_j"), ("snormij", "Σ_j (S_j - 2 F_j m + N_j m^2)"),
                    ("nij_sigma_wij2", "Σ_j N_jc (Phi_j + w_j w_j') -- posterior covariance included"), ("fnorm_sigma_wij", "Σ_j (F_j - N_j m) w_j'")):
        res += collapse([c for c in cl if c.name.endswith("result." + f)], "C10.estep." + f, "accumulator == " + note)
    rest = [c for c in cl if not any(c.name.endswith("result." + f) for f in ("nij", "snormij", "nij_sigma_wij2", "fnorm_sigma_wij"))]
    res += collapse(rest, "C10.estep.frame", "machine and statistics unchanged; shapes (C,R,R), (C,D,R), (C,D), (C,)")
    return res


def mstep(ctx):
    out = []
    for upd in (True, False):
        I = new_interp()
        F = IV.facts()
        F.nonneg_apps.add("nij")
        cl = K.check_function(I, "ivector.m_step", lambda: ([IV.mk_machine(I, update_sigma=upd), IV.mk_ivstats(I)], {}), IV.spec_m_step, F,
                              "C10.m[%s]" % ("sigma" if upd else "nosigma"), state_names={0: "machine", 1: "stats"})
        out += cl
    Tcl = [c for c in out if c.name.endswith("machine.T") or ".raises" in c.name]
    Scl = [c for c in out if c.name.endswith("machine.sigma")]
    dcl = [c for c in out if ".def" in c.name]
    rest = [c for c in out if c not in Tcl + Scl + dcl]
    res = collapse(Tcl, "C10.mstep.T", "T'_c = E[Fnorm w']_c E[N w w']_c^-1 per component with data, the zero matrix otherwise")
    res += collapse(Scl, "C10.mstep.sigma", "sigma' = max(floor, (Snorm - diag(E[Fnorm w'] T'))/N) where N > 0 (previous value where a component has no data); unchanged without update_sigma")
    res += collapse(dcl or [Clause("x", "discharged", "", "no division")], "C10.def", "no division by a zero count")
    res += collapse(rest, "C10.mstep.frame", "statistics and the other machine fields unchanged; returns the machine")
    # floor
    I = new_interp()
    m, st = IV.mk_machine(I), IV.mk_ivstats(I)
    IV.spec_m_step(K.SpecCtx([]) if False else _AnyCtx(), m, st)
    c, d = T.fresh("c"), T.fresh("d")
    F = IV.facts()
    st_, info = smt.prove(T.cmp_cond("<=", P(m.fields["variance_floor"]), P(m.fields["sigma"].fn(c, d))), F)
    res.append(Clause("C10.floor", "discharged" if st_ == "proved" else "undecided", info.get("backend", ""), "updated covariances >= variance_floor"))
    return res


class _AnyCtx:
    def holds(self, cond):
        return True


GROUPS = [guard(projection), guard(stats_ops), guard(estep), guard(mstep)]
SHARED = []
REPLAY = [("C10", "iv_repro.py", "all", {})]
TRUSTED = ["np.linalg.inv / np.linalg.solve: the (unique) inverse / solution for an invertible matrix, congruent in the matrix (uninterpreted otherwise)",
           "the posterior precision I + Σ N T'S^-1T is symmetric positive definite, hence invertible",
           "L-EM-LG: exact E-step (posterior mean and covariance) + M-step solving the normal equations never decreases the marginal likelihood of a linear-Gaussian model",
           "np.einsum, batched @, np.outer, np.diagonal as in the NumPy model"]
ASSUMPTIONS = ["covariances > 0, floor > 0, counts >= 0"]
XCHECK = ['ivector']
