"""C14 -- WCCN / whitening map covariance to identity; WCCN depends only on the partition."""
import z3

from vt import terms as T
from vt.terms import Poly, P, ZERO, ONE, Sum
from vt.arr import Arr, input_arr, ModelError
from vt.values import Obj, SList
from vt import contract as K
from vt import interp as IN
from vt.verify import Clause
from vt import verify as V
from contracts import linear as L
from props.common import new_interp, collapse, guard

FUNCTIONS = ["whitening.Whitening.fit", "whitening.Whitening.transform", "wccn.WCCN.fit", "wccn.WCCN.transform"]


def mk_obj(I, cls, **kw):
    o = Obj(I.classes[cls])
    o.fields.update(pinv=False)
    o.fields.update(kw)
    return o


def whitening(ctx):
    out = []
    for kind in ("numpy", "dask"):
        for pinv in (False, True):
            I = new_interp()
            cl = K.check_function(I, "whitening.Whitening.fit", lambda: ([mk_obj(I, "Whitening", pinv=pinv), input_arr("X", (L.Nn, L.Dd), kind)], {}),
                                  L.spec_whitening_fit, L.facts(), "C14.white.%s%s" % (kind, ".pinv" if pinv else ""), state_names={0: "self"},
                                  structural=False)
            out += cl
    # integer-typed samples
    I = new_interp()
    out += K.check_function(I, "whitening.Whitening.fit", lambda: ([mk_obj(I, "Whitening"), input_arr("X", (L.Nn, L.Dd), dtype="int", narrow=True)], {}),
                            L.spec_whitening_fit, L.facts(), "C14.white.numpy.intdata", state_names={0: "self"}, structural=False)
    # a single feature (np.cov returns a 0-d array there)
    I = new_interp()
    cl = K.check_function(I, "whitening.Whitening.fit", lambda: ([mk_obj(I, "Whitening"), input_arr("X", (L.Nn, ONE))], {}),
                          L.spec_whitening_fit, L.facts(), "C14.white.numpy.single-feature", state_names={0: "self"}, structural=False)
    out += cl
    # an estimator that was fitted before (on other data) is fitted again: the result does not depend on the earlier fit
    I = new_interp()
    out += K.check_function(I, "whitening.Whitening.fit",
                            lambda: ([mk_obj(I, "Whitening", weights=input_arr("W0", (L.Dd, L.Dd)), input_subtract=input_arr("mu0", (L.Dd,)), input_divide=1.0),
                                      input_arr("X", (L.Nn, L.Dd))], {}),
                            L.spec_whitening_fit, L.facts(), "C14.white.numpy.refit", state_names={0: "self"}, structural=False)
    # transform = (X - mu) @ W
    I = new_interp()

    def build():
        w = mk_obj(I, "Whitening", weights=input_arr("W", (L.Dd, L.Dd)), input_subtract=input_arr("mu", (L.Dd,)), input_divide=1.0)
        return [w, input_arr("Z", (L.Nn, L.Dd))], {}
    cl = K.check_function(I, "whitening.Whitening.transform", build,
                          lambda c_, self, X: Arr((X.shape[0], L.Dd), lambda s, j: Sum(L.Dd, lambda d: (P(X.fn(s, d)) - P(self.fields["input_subtract"].fn(d)))
                                                                                       * P(self.fields["weights"].fn(d, j)), "d")),
                          L.facts(), "C14.white.transform")
    out += cl
    num = [c for c in out if ".numpy" in c.name or "transform" in c.name]
    dk = [c for c in out if ".dask" in c.name]
    return collapse(num, "C14.white.code", "input_subtract = column means, weights = cholesky(inv(cov(X^T)), lower), transform = (X - mean) @ weights") + \
        collapse(dk, "C14.dask.whitening", "the Dask branch builds the same expression from dask.array / dask.array.linalg")


def wccn(ctx):
    out = []
    for kind, pinv, intdata in (("numpy", False, False), ("numpy", True, False), ("dask", False, False), ("numpy", False, True), ("numpy", "refit", False)):
        I = new_interp()
        refit = pinv == "refit"       # fitted before, on other data
        pinv = False if refit else pinv
        IN.LabelSet.count = 0
        holder = {}

        def build(kind=kind, pinv=pinv, intdata=intdata, refit=refit):
            IN.LabelSet.count = 0
            X = input_arr("X", (L.Nn, L.Dd), kind, dtype="int", narrow=True) if intdata else input_arr("X", (L.Nn, L.Dd), kind)
            old = dict(weights=input_arr("W0", (L.Dd, L.Dd)), input_subtract=0, input_divide=1.0) if refit else {}
            return [mk_obj(I, "WCCN", pinv=pinv, **old), X, input_arr("y", (L.Nn,), dtype="int")], {}

        enum_name = ["pi1"]

        def spec(ctx_, self, X, y):
            # the contract holds for ANY enumeration of the classes used consistently: take the one the code used
            pi = lambda k: T.app(enum_name[0], k, sort="int")
            return L.spec_wccn_fit(ctx_, self, X, y, pi=pi, K=T.sym("K_pi1", "int"))
        # which enumeration(s) of the label set does the code use?
        try:
            probe = I.run_paths(lambda: I.call(K.lookup(I, "wccn.WCCN.fit"), *build()))
            names = set()
            from vt.loops import _appnames
            for pc, (k_, r_) in probe:
                if k_ == "ok":
                    w_ = r_.fields.get("weights")
                    if isinstance(w_, Arr):
                        names |= {n for n in _appnames(P(w_.fn(T.fresh("q"), T.fresh("q")))) if n.startswith("pi") or n.startswith("sorted:")}
            if len(names) == 1:
                enum_name[0] = names.pop()
            elif len(names) > 1:
                out.append(Clause("C14.wccn.%s.result.weights" % kind, "refuted", "npsym",
                                  "the class means and the scatter loop enumerate the classes in two different orders (%s): "
                                  "a class is centred on another class's mean whenever the two orders differ" % ", ".join(sorted(names)),
                                  witness={"enumerations": sorted(names)}))
        except ModelError:
            pass
        F = L.facts()
        F.dims.add("K_pi1")
        F.pos_syms.add("K_pi1")
        cl = K.check_function(I, "wccn.WCCN.fit", build, spec, F, "C14.wccn.%s%s%s%s" % (kind, ".pinv" if pinv else "", ".intdata" if intdata else "", ".refit" if refit else ""), state_names={0: "self"}, structural=False)
        out += cl
    res = []
    num = [c for c in out if ".numpy" in c.name]
    dk = [c for c in out if ".dask" in c.name]
    res += collapse([c for c in num if "weights" in c.name or ".def" in c.name or "range" in c.detail], "C14.wccn.mu",
                    "the mean subtracted from the samples of class pi(k) is the mean of class pi(k) (class means addressed by position, "
                    "not by label value); Sw = Σ_k Σ_{s in class k} (x_s - mu_k)(x_s - mu_k)^T; weights = cholesky(inv(Sw / n_classes), lower)")
    res += collapse([c for c in num if not ("weights" in c.name or ".def" in c.name or "range" in c.detail)], "C14.wccn.frame",
                    "input_subtract = 0, input_divide = 1, data and labels unchanged")
    res += collapse(dk, "C14.dask.wccn", "the Dask branch builds the same expression")
    return res


def dask_same(ctx):
    """C14.dask / C04.wccn-whitening.same-expr"""
    cl = [c for c in whitening(ctx) + wccn(ctx) if c.name.startswith("C14.dask")]
    return collapse(cl, "C14.dask", "WCCN and whitening on a Dask array evaluate the same expression tree as on a NumPy array "
                    "(numerical module bound by name; trusted: dask.array implements the same functions)")


def partition_only(ctx):
    """the contract mentions the labels only through [y_s == pi(k)] under Σ_k over all classes:
    renaming or reordering the class ids re-indexes that sum"""
    X, y = input_arr("X", (L.Nn, L.Dd)), input_arr("y", (L.Nn,), dtype="int")
    Kc = T.sym("K_pi1", "int")
    o = Obj(None)
    L.spec_wccn_fit(None, o, X, y, pi=lambda k: T.app("pi1", k, sort="int"), K=Kc)
    w = o.fields["weights"]
    t = P(w.fn(T.fresh("q"), T.fresh("q")))
    bad = []

    def walk(x, inside_ind, bound_k):
        if isinstance(x, Poly):
            for m, _ in x.terms:
                for a, _p in m:
                    walk_atom(a, inside_ind, bound_k)
        elif isinstance(x, T.Cond):
            for a in x.args:
                if isinstance(a, (Poly, T.Cond)):
                    walk(a, inside_ind, bound_k)

    def walk_atom(a, inside_ind, bound_k):
        if a.kind == "app" and a.args[0] in ("y", "pi1"):
            if not inside_ind:
                bad.append("label value used outside a class-membership test: %r" % a)
            if a.args[0] == "pi1" and T.symname(a.args[1]) not in bound_k:
                bad.append("class enumeration used outside Σ over all classes")
            return
        if a.kind in T.BINDERS:
            v, bnd, body = T.open_binder(a)
            nb = bound_k | ({T.symname(v)} if (bnd is not None and T.equal(bnd, Kc)) else set())
            if bnd is not None:
                walk(bnd, inside_ind, bound_k)
            walk(body, inside_ind, nb)
            return
        for x in a.args:
            if isinstance(x, (Poly, T.Cond)):
                walk(x, inside_ind or a.kind == "ind", bound_k)
    walk(t, False, set())
    return [Clause("C14.wccn.partition-only", "discharged" if not bad else "refuted", "normaliser",
                   "labels enter only as [y_s == pi(k)] under Σ_k over all classes" if not bad else "; ".join(bad[:3]))]


def lemmas(ctx):
    """linear-algebra lemma over the trusted contracts, checked for 1x1 and 2x2 (bounded instance):
    L lower-triangular with positive diagonal and L L^T = S^-1  =>  L^T S L = I"""
    out = []
    # 1x1
    l, s_ = z3.Reals("l s")
    sol = z3.Solver()
    sol.add(l > 0, s_ > 0, l * l * s_ == 1, z3.Not(l * s_ * l == 1))
    out.append(Clause("C14.lemma.1x1", "discharged" if sol.check() == z3.unsat else "undecided", "z3", ""))
    # 2x2
    a, b, c, p, q, r = z3.Reals("a b c p q r")   # L = [[a,0],[b,c]], S = [[p,q],[q,r]]
    sol = z3.Solver()
    sol.set("timeout", 20000)
    # (L L^T) S = I
    LLt = [[a * a, a * b], [a * b, b * b + c * c]]
    S = [[p, q], [q, r]]
    prod = [[sum(LLt[i][k] * S[k][j] for k in range(2)) for j in range(2)] for i in range(2)]
    sol.add(a > 0, c > 0, prod[0][0] == 1, prod[0][1] == 0, prod[1][0] == 0, prod[1][1] == 1)
    Lt = [[a, b], [0, c]]
    Lm = [[a, 0], [b, c]]
    LtS = [[sum(Lt[i][k] * S[k][j] for k in range(2)) for j in range(2)] for i in range(2)]
    res = [[sum(LtS[i][k] * Lm[k][j] for k in range(2)) for j in range(2)] for i in range(2)]
    sol.add(z3.Not(z3.And(res[0][0] == 1, res[0][1] == 0, res[1][0] == 0, res[1][1] == 1)))
    r_ = sol.check()
    out.append(Clause("C14.lemma.2x2", "discharged" if r_ == z3.unsat else "undecided", "z3", str(r_)))
    return out


GROUPS = [guard(whitening), guard(wccn), guard(partition_only), guard(dask_same)]
BOUNDED = [guard(lemmas)]
SHARED = []
REPLAY = [("C14.dask.wccn", "linear_repro.py", "wccn", {}), ("C14.wccn", "linear_repro.py", "wccn", {}), ("C14.white", "linear_repro.py", "whitening", {}), ("C14.dask", "linear_repro.py", "dask", {})]
TRUSTED = ["scipy/dask cholesky(S, lower=True): lower-triangular L with positive diagonal and L L^T = S for SPD S; inv of SPD is SPD; pinv = inv on full rank",
           "np.cov(X^T) = centred scatter / (N-1); np.mean; matrix product",
           "matrix lemma L^T (L L^T)^-1 L = I (checked by z3 for 1x1 and 2x2 only -- bounded; hence transformed data have identity covariance / scaled within-class scatter)",
           "reindexing of Σ over classes by a bijection (label renaming / set iteration order)"]
ASSUMPTIONS = ["full-rank data, every class non-empty", "numerical rank and rounding are not decided"]
XCHECK = ['wccn']
