"""C09 -- each JFA training phase is exact EM: its marginal likelihood never decreases.

Tier A: M-step formulas (per-component solves, diagonal ratio), the reduction of per-class
accumulators, the hand-over of point estimates between phases and the copy-back of the
updated subspaces on the Dask path (data-flow proof with recording contracts).  Tier B
(bounded, objrun): E-step posteriors and accumulators of the three phases, ascent."""
from vt import terms as T
from vt.terms import Poly, P, ZERO, ONE, Sum
from vt import arr as A
from vt.arr import Arr, input_arr, ModelError
from vt.values import Obj, SList, Delayed
from vt import contract as K
from vt import npmodel as N
from vt.verify import Clause
from vt import verify as V
from contracts import gmm as G
from contracts import fa as FA
from props.common import new_interp, collapse, guard, bounded
from props.C11 import Rec

FUNCTIONS = ["factor_analysis.FactorAnalysisBase.update_U", "factor_analysis.JFAMachine.m_step_v / m_step_u / m_step_d", "factor_analysis.reduce_iadd",
             "factor_analysis.JFAMachine.fit (phase sequencing, hand-over, copy-back; list and Dask-nested input)",
             "(objrun, bounded) e_step_v/u/d, compute_accumulators_V/U/D, update_y/compute_latent_x/update_z, finalize_v/u"]
Q = "factor_analysis.FactorAnalysisBase."
J = "factor_analysis.JFAMachine."


def msteps(ctx):
    out = []
    FA.setup()
    try:
        # update_U / m_step_u
        I = new_interp()
        cl = K.check_function(I, Q + "update_U", lambda: ([FA.mk_fa(I), input_arr("A1", (FA.Cc, FA.RU, FA.RU)), input_arr("A2", (FA.Cc * FA.Dd, FA.RU))], {}),
                              FA.spec_update_U, FA.facts(), "C09.U.mstep", state_names={0: "self"})
        out += collapse(cl, "C09.U.mstep", "U_c = A2_c A1_c^-1 for every component; shape (C*D, r_U); nothing else changes")
        # m_step_v on a one-element list
        I = new_interp()

        def spec_v(ctx_, self, lst):
            a1, a2 = lst[0]
            inv = N.minv(a1)
            Vn = Arr((FA.Cc * FA.Dd, FA.RV), lambda i, r: Sum(FA.RV, lambda s: P(a2.fn(i, s)) * P(inv.fn(FA.cd(i)[0], s, r)), "s"))
            self.fields["_V"] = Vn
            return Vn
        cl = K.check_function(I, J + "m_step_v", lambda: ([FA.mk_fa(I), [(input_arr("A1", (FA.Cc, FA.RV, FA.RV)), input_arr("A2", (FA.Cc * FA.Dd, FA.RV)))]], {}),
                              spec_v, FA.facts(), "C09.V.mstep", state_names={0: "self"})
        out += collapse(cl, "C09.V.mstep", "V_c = A2_c A1_c^-1; shape (C*D, r_V)")
        I = new_interp()

        def spec_d(ctx_, self, lst):
            a1, a2 = lst[0]
            Dn = a2 / a1
            self.fields["_D"] = Dn
            return Dn
        F = FA.facts()
        F.pos_apps.add("A1d")
        cl = K.check_function(I, J + "m_step_d", lambda: ([FA.mk_fa(I), [(input_arr("A1d", (FA.Cc * FA.Dd,)), input_arr("A2d", (FA.Cc * FA.Dd,)))]], {}),
                              spec_d, F, "C09.D.mstep", state_names={0: "self"})
        out += collapse(cl, "C09.D.mstep", "D = A2 / A1 elementwise (A1 = Σ N E[z^2] > 0); shape (C*D,)")
    finally:
        T.PRODUCTS[:] = []
    return out


def reduce_iadd(ctx):
    """reduce_iadd folds every per-class contribution into the result exactly once"""
    out = []
    I = new_interp()
    nb = T.sym("B", "int")

    def build():
        return [SList(nb, lambda b: Arr((G.Cc, FA.RU, FA.RU), lambda c, r, s: T.app("a1", b, c, r, s))),
                SList(nb, lambda b: Arr((G.Cc,), lambda c: T.app("a2", b, c)))], {}

    def spec(ctx_, *lists):
        res = []
        for l in lists:
            p = l.elem(T.fresh("p"))
            n = l.slen()
            res.append(Arr(p.shape, (lambda l, n: lambda *idx: P(l.elem(ZERO).fn(*idx)) + Sum(n - 1, lambda i: P(l.elem(i + 1).fn(*idx)), "b"))(l, n)))
        return res
    F = FA.facts()
    F.dims.add("B")
    F.pos_syms.add("B")          # at least one per-class contribution
    cl = K.check_function(I, "factor_analysis.reduce_iadd", build, spec, F, "C09.reduce", structural=False)
    cl = [c for c in cl if c.name.startswith("C09.reduce.result") or c.status != "discharged"]
    # concrete list lengths 1..6 (symbolic contents): every element enters the result exactly once
    for n in range(1, 7):
        I = new_interp()

        def build_n(n=n):
            return [[Arr((G.Cc,), (lambda b: lambda c: T.app("a1", Poly.const(b), c))(b)) for b in range(n)],
                    [Arr((G.Cc, FA.RU), (lambda b: lambda c, r: T.app("a2", Poly.const(b), c, r))(b)) for b in range(n)]], {}

        def spec_n(ctx_, *lists):
            res = []
            for l in lists:
                tot = l[0]
                for x in l[1:]:
                    tot = tot + x
                # the in-place fold lands in the first element of each list (they are fresh accumulators)
                res.append(tot)
            return res
        c2 = K.check_function(I, "factor_analysis.reduce_iadd", build_n, spec_n, F, "C09.reduce.len%d" % n, structural=False)
        cl += [c for c in c2 if ".result" in c.name or ".raises" in c.name]
    return collapse(cl, "C09.reduce", "reduce_iadd(lists...) == [Σ of every list] (each element once): symbolic length, and lengths 1..6")


def handover(ctx):
    """JFAMachine.fit: V phase -> finalize_v -> U phase with that latent_y -> finalize_u -> D phase with
    latent_x and latent_y; each phase's M-step result becomes the machine's subspace (also when the task
    runs on an isolated copy)"""
    out = []
    for variant, isolated in (("list", False), ("dask", False), ("dask", True)):
        FA.setup()
        I = new_interp()
        I.isolated = isolated
        recs = {n: Rec(n) for n in ("e_step_v", "m_step_v", "finalize_v", "e_step_u", "m_step_u", "finalize_u", "e_step_d", "m_step_d", "initialize")}
        for n, r in recs.items():
            I.contracts[(J if n != "initialize" else Q) + n] = K.as_contract(r)
        # initialize returns (n_acc, f_acc)
        I.contracts[Q + "initialize"] = K.as_contract(lambda ctx_, self, X, y, n_classes: ("<n_acc>", "<f_acc>"))
        I.contracts["factor_analysis.check_dask_input_samples_per_class"] = K.as_contract(
            lambda ctx_, X, y: (variant == "dask", 2, [1, 1]))
        m = FA.mk_fa(I)
        m.fields["em_iterations"] = 1
        if variant == "list":
            X, y = ["<X>"], ["<y>"]
        else:
            X = [Delayed(lambda: "<X0>", (), {}), Delayed(lambda: "<X1>", (), {})]
            y = ["<y0>", "<y1>"]
        try:
            paths = I.run_paths(lambda: I.call(K.lookup(I, J + "fit"), [m, X, y], {}))
        except ModelError as e:
            out.append(Clause("C09.handover", "undecided", "", "%s: %s at %s" % (variant, e, I.loc)))
            T.PRODUCTS[:] = []
            continue
        finally:
            T.PRODUCTS[:] = []
        label = variant + ("/isolated" if isolated else "")
        probs = []
        if len(paths) != 1 or paths[0][1][0] != "ok":
            probs.append("fit raises or forks: %r" % (paths,))
        else:
            c = {n: r.calls for n, r in recs.items()}
            kw = lambda n, k, j=0: c[n][j][1].get(k)
            nper = 1 if variant == "list" else 2
            for n in ("e_step_v", "e_step_u", "e_step_d"):
                if len(c[n]) != nper:
                    probs.append("%s called %d times (expected %d: once per class list)" % (n, len(c[n]), nper))
            if not probs:
                if kw("e_step_v", "n_acc") != "<n_acc>" or kw("e_step_v", "f_acc") != "<f_acc>":
                    probs.append("V phase does not receive the accumulated statistics of initialize()")
                ly = ("<finalize_v>", 1)
                if kw("e_step_u", "latent_y") != ly or kw("finalize_u", "latent_y") != ly or kw("e_step_d", "latent_y") != ly:
                    probs.append("speaker factors handed to the U/D phases are not finalize_v's result")
                if kw("e_step_d", "latent_x") != ("<finalize_u>", 1):
                    probs.append("channel factors handed to the D phase are not finalize_u's result")
                if kw("e_step_d", "n_acc") != "<n_acc>" or kw("e_step_d", "f_acc") != "<f_acc>":
                    probs.append("D phase does not receive the accumulated statistics")
                order = [x for x in I.trace_calls if x.startswith(J) and x.split(".")[-1] in recs]
                exp_order = [J + n for n in (["e_step_v"] * nper + ["m_step_v", "finalize_v"] + ["e_step_u"] * nper + ["m_step_u", "finalize_u"] + ["e_step_d"] * nper + ["m_step_d"])]
                if order != exp_order:
                    probs.append("phase order %r" % ([o.split(".")[-1] for o in order],))
                # m_step_* receive every E-step output
                for ph in ("v", "u", "d"):
                    got = c["m_step_" + ph][0][0][1]
                    if not (isinstance(got, list) and len(got) == nper and all(g == ("<e_step_%s>" % ph, k + 1) for k, g in enumerate(got))):
                        probs.append("m_step_%s does not receive every per-class E-step output exactly once: %r" % (ph, got))
                if variant == "dask" and isolated:     # with shared memory the (real) M-step updates self in place
                    f = m.fields
                    for fld, ph in (("_V", "v"), ("_U", "u"), ("_D", "d")):
                        if not (isinstance(f[fld], tuple) and f[fld] == ("<m_step_%s>" % ph, 1)):
                            probs.append("after the %s phase self.%s is not the M-step's returned value (copy-back missing)" % (ph.upper(), fld))
        out.append(Clause("C09.handover", "discharged" if not probs else "refuted", "npsym",
                          "%s: " % label + ("V -> finalize_v -> U -> finalize_u -> D with the stated arguments" if not probs else "; ".join(probs))))
    return collapse(out, "C09.handover", "phase sequencing and hand-over of point estimates (list input; Dask-nested input with shared and isolated tasks: "
                    "the subspace is taken from the M-step's returned value)")


GROUPS = [guard(msteps), guard(reduce_iadd), guard(handover)]
BOUNDED = [bounded("fa_repro.py", "phases", "C09.estep-acc-mstep",
                   "for each phase (V, U, D) the real E-step accumulators equal A1 = Σ N (Phi + E E'), A2 = Σ Fnorm E' of the exact posterior of that "
                   "phase's latent given the handed-over point estimates, and the M-step solves the normal equations; shapes kept"),
           bounded("fa_repro.py", "phase_ascent", "C09.ascent",
                   "marginal likelihood of each phase non-decreasing over 6 E/M iterations (float64, rel. tol. 1e-9); subspaces finite with the stated shapes")]
SHARED = [("C07", "leaf_compute_fn_y_i", ["C07.fn_y"]), ("C07", "fn_x_all", ["C07.fn_x"]), ("C07", "fn_z_all", ["C07.fn_z"]),
          ("C07", "prec_all", ["C07.prec.x", "C07.prec.y", "C07.prec.z", "C07.uprod", "C07.vprod"])]
REPLAY = [("C09.reduce", "fa_repro.py", "dask_classes", {}), ("C09.handover", "fa_repro.py", "dask_classes", {}), ("C09.ascent", "fa_repro.py", "phase_ascent", {}), ("C09", "fa_repro.py", "phases", {})]
LEVEL = "other"
TECHNIQUE = "contract-based deductive verification (M-steps, reduction, phase hand-over, leaf formulas) + bounded exact-rational execution of the real E-steps (objrun)"
LEVEL_TEXT = ("M-step formulas, accumulator reduction, phase sequencing/hand-over/copy-back and all leaf formulas are proved for all shapes. The per-class "
              "E-step orchestration of the three phases (loops over label sets with label-indexed lists) is outside the symbolic engine and is checked by running "
              "the real code on exact rationals over a finite grid of shapes against the exact posterior moments (bounded, not counted as proved); the ascent "
              "clause rests on the trusted EM lemma for linear-Gaussian models plus a bounded numeric check.")
EXPLANATION = ("M-steps, accumulator reduction, phase hand-over/copy-back and all leaf formulas are proved for all shapes (obligations/discharged). "
               "The E-step orchestration (posterior per class/session, accumulators) and the ascent clause are checked by the bounded objrun engine "
               "(bounded_checks). EM ascent itself rests on the trusted lemma L-EM-LG.")
TRUSTED = ["L-EM-LG: for a linear-Gaussian latent model, an exact E-step followed by the M-step solving the normal equations never decreases the marginal likelihood",
           "np.linalg.inv contract; compound axis C*D row-major"]
ASSUMPTIONS = ["UBM variances > 0; every class has >= 1 session"]
XCHECK = ['fa']
