"""C09 -- each JFA training phase is exact EM: its marginal likelihood never decreases.

Tier A: the per-class E-steps of the three phases and the finalisers (exact posterior moments),
M-step formulas (per-component solves, diagonal ratio), the reduction of per-class accumulators,
the hand-over of point estimates between phases and the copy-back of the updated subspaces on
the Dask path (data-flow proof with recording contracts).  Tier B (bounded, objrun): the list
path with several classes per call, numeric ascent."""
from vt import terms as T
from vt.terms import Poly, P, ZERO, ONE, Sum
from vt import arr as A
from vt.arr import Arr, input_arr, ModelError
from vt.values import Obj, SList, Delayed
from vt import contract as K
from vt import npmodel as N
from vt.verify import Clause
from vt import verify as V
from contracts import gmm as G
from contracts import fa as FA
from props.common import new_interp, collapse, guard, bounded
from props.C11 import Rec

FUNCTIONS = ["factor_analysis.FactorAnalysisBase.update_U", "factor_analysis.JFAMachine.m_step_v / m_step_u / m_step_d", "factor_analysis.reduce_iadd",
             "factor_analysis.JFAMachine.fit (phase sequencing, hand-over, copy-back; list and Dask-nested input)",
             "factor_analysis.JFAMachine.e_step_v / e_step_u / e_step_d (one class per call, K classes), update_y, compute_latent_x, update_z, "
             "compute_accumulators_V/U/D, initialize_XYZ, _get_statistics_by_class_id, mult_along_axis, _latent_y_per_class, _compute_latent_x_per_class",
             "factor_analysis.JFAMachine.finalize_v / finalize_u (per-class delayed lists)",
             "(objrun, bounded) the same E-steps on the list path with several classes per call"]
Q = "factor_analysis.FactorAnalysisBase."
J = "factor_analysis.JFAMachine."


def msteps(ctx):
    out = []
    FA.setup()
    try:
        # update_U / m_step_u
        I = new_interp()
        cl = K.check_function(I, Q + "update_U", lambda: ([FA.mk_fa(I), input_arr("A1", (FA.Cc, FA.RU, FA.RU)), input_arr("A2", (FA.Cc * FA.Dd, FA.RU))], {}),
                              FA.spec_update_U, FA.facts(), "C09.U.mstep", state_names={0: "self"})
        out += collapse(cl, "C09.U.mstep", "U_c = A2_c A1_c^-1 for every component; shape (C*D, r_U); nothing else changes")
        # m_step_v on a one-element list
        I = new_interp()

        def spec_v(ctx_, self, lst):
            a1, a2 = lst[0]
            inv = N.minv(a1)
            Vn = Arr((FA.Cc * FA.Dd, FA.RV), lambda i, r: Sum(FA.RV, lambda s: P(a2.fn(i, s)) * P(inv.fn(FA.cd(i)[0], s, r)), "s"))
            self.fields["_V"] = Vn
            return Vn
        cl = K.check_function(I, J + "m_step_v", lambda: ([FA.mk_fa(I), [(input_arr("A1", (FA.Cc, FA.RV, FA.RV)), input_arr("A2", (FA.Cc * FA.Dd, FA.RV)))]], {}),
                              spec_v, FA.facts(), "C09.V.mstep", state_names={0: "self"})
        out += collapse(cl, "C09.V.mstep", "V_c = A2_c A1_c^-1; shape (C*D, r_V)")
        I = new_interp()

        def spec_d(ctx_, self, lst):
            a1, a2 = lst[0]
            Dn = a2 / a1
            self.fields["_D"] = Dn
            return Dn
        F = FA.facts()
        F.pos_apps.add("A1d")
        cl = K.check_function(I, J + "m_step_d", lambda: ([FA.mk_fa(I), [(input_arr("A1d", (FA.Cc * FA.Dd,)), input_arr("A2d", (FA.Cc * FA.Dd,)))]], {}),
                              spec_d, F, "C09.D.mstep", state_names={0: "self"})
        out += collapse(cl, "C09.D.mstep", "D = A2 / A1 elementwise (A1 = Σ N E[z^2] > 0); shape (C*D,)")
    finally:
        T.PRODUCTS[:] = []
    return out


def reduce_iadd(ctx):
    """reduce_iadd folds every per-class contribution into the result exactly once"""
    out = []
    I = new_interp()
    nb = T.sym("B", "int")

    def build():
        return [SList(nb, lambda b: Arr((G.Cc, FA.RU, FA.RU), lambda c, r, s: T.app("a1", b, c, r, s))),
                SList(nb, lambda b: Arr((G.Cc,), lambda c: T.app("a2", b, c)))], {}

    def spec(ctx_, *lists):
        res = []
        for l in lists:
            p = l.elem(T.fresh("p"))
            n = l.slen()
            res.append(Arr(p.shape, (lambda l, n: lambda *idx: P(l.elem(ZERO).fn(*idx)) + Sum(n - 1, lambda i: P(l.elem(i + 1).fn(*idx)), "b"))(l, n)))
        return res
    F = FA.facts()
    F.dims.add("B")
    F.pos_syms.add("B")          # at least one per-class contribution
    cl = K.check_function(I, "factor_analysis.reduce_iadd", build, spec, F, "C09.reduce", structural=False)
    cl = [c for c in cl if c.name.startswith("C09.reduce.result") or c.status != "discharged"]
    # concrete list lengths 1..6 (symbolic contents): every element enters the result exactly once
    for n in range(1, 7):
        I = new_interp()

        def build_n(n=n):
            return [[Arr((G.Cc,), (lambda b: lambda c: T.app("a1", Poly.const(b), c))(b)) for b in range(n)],
                    [Arr((G.Cc, FA.RU), (lambda b: lambda c, r: T.app("a2", Poly.const(b), c, r))(b)) for b in range(n)]], {}

        def spec_n(ctx_, *lists):
            res = []
            for l in lists:
                tot = l[0]
                for x in l[1:]:
                    tot = tot + x
                # the in-place fold lands in the first element of each list (they are fresh accumulators)
                res.append(tot)
            return res
        c2 = K.check_function(I, "factor_analysis.reduce_iadd", build_n, spec_n, F, "C09.reduce.len%d" % n, structural=False)
        cl += [c for c in c2 if ".result" in c.name or ".raises" in c.name]
    return collapse(cl, "C09.reduce", "reduce_iadd(lists...) == [Σ of every list] (each element once): symbolic length, and lengths 1..6")


def handover(ctx):
    """JFAMachine.fit: V phase -> finalize_v -> U phase with that latent_y -> finalize_u -> D phase with
    latent_x and latent_y; each phase's M-step result becomes the machine's subspace (also when the task
    runs on an isolated copy)"""
    out = []
    for variant, isolated in (("list", False), ("dask", False), ("dask", True)):
        FA.setup()
        I = new_interp()
        I.isolated = isolated
        recs = {n: Rec(n) for n in ("e_step_v", "m_step_v", "finalize_v", "e_step_u", "m_step_u", "finalize_u", "e_step_d", "m_step_d", "initialize")}
        for n, r in recs.items():
            I.contracts[(J if n != "initialize" else Q) + n] = K.as_contract(r)
        # initialize returns (n_acc, f_acc)
        I.contracts[Q + "initialize"] = K.as_contract(lambda ctx_, self, X, y, n_classes: ("<n_acc>", "<f_acc>"))
        I.contracts["factor_analysis.check_dask_input_samples_per_class"] = K.as_contract(
            lambda ctx_, X, y: (variant == "dask", 2, [1, 1]))
        m = FA.mk_fa(I)
        m.fields["em_iterations"] = 1
        if variant == "list":
            X, y = ["<X>"], ["<y>"]
        else:
            X = [Delayed(lambda: "<X0>", (), {}), Delayed(lambda: "<X1>", (), {})]
            y = ["<y0>", "<y1>"]
        try:
            paths = I.run_paths(lambda: I.call(K.lookup(I, J + "fit"), [m, X, y], {}))
        except ModelError as e:
            out.append(Clause("C09.handover", "undecided", "", "%s: %s at %s" % (variant, e, I.loc)))
            T.PRODUCTS[:] = []
            continue
        finally:
            T.PRODUCTS[:] = []
        label = variant + ("/isolated" if isolated else "")
        probs = []
        if len(paths) != 1 or paths[0][1][0] != "ok":
            probs.append("fit raises or forks: %r" % (paths,))
        else:
            c = {n: r.calls for n, r in recs.items()}
            kw = lambda n, k, j=0: c[n][j][1].get(k)
            nper = 1 if variant == "list" else 2
            for n in ("e_step_v", "e_step_u", "e_step_d"):
                if len(c[n]) != nper:
                    probs.append("%s called %d times (expected %d: once per class list)" % (n, len(c[n]), nper))
            if not probs:
                if kw("e_step_v", "n_acc") != "<n_acc>" or kw("e_step_v", "f_acc") != "<f_acc>":
                    probs.append("V phase does not receive the accumulated statistics of initialize()")
                ly = ("<finalize_v>", 1)
                if kw("e_step_u", "latent_y") != ly or kw("finalize_u", "latent_y") != ly or kw("e_step_d", "latent_y") != ly:
                    probs.append("speaker factors handed to the U/D phases are not finalize_v's result")
                if kw("e_step_d", "latent_x") != ("<finalize_u>", 1):
                    probs.append("channel factors handed to the D phase are not finalize_u's result")
                if kw("e_step_d", "n_acc") != "<n_acc>" or kw("e_step_d", "f_acc") != "<f_acc>":
                    probs.append("D phase does not receive the accumulated statistics")
                order = [x for x in I.trace_calls if x.startswith(J) and x.split(".")[-1] in recs]
                exp_order = [J + n for n in (["e_step_v"] * nper + ["m_step_v", "finalize_v"] + ["e_step_u"] * nper + ["m_step_u", "finalize_u"] + ["e_step_d"] * nper + ["m_step_d"])]
                if order != exp_order:
                    probs.append("phase order %r" % ([o.split(".")[-1] for o in order],))
                # m_step_* receive every E-step output
                for ph in ("v", "u", "d"):
                    got = c["m_step_" + ph][0][0][1]
                    if not (isinstance(got, list) and len(got) == nper and all(g == ("<e_step_%s>" % ph, k + 1) for k, g in enumerate(got))):
                        probs.append("m_step_%s does not receive every per-class E-step output exactly once: %r" % (ph, got))
                if variant == "dask" and isolated:     # with shared memory the (real) M-step updates self in place
                    f = m.fields
                    for fld, ph in (("_V", "v"), ("_U", "u"), ("_D", "d")):
                        if not (isinstance(f[fld], tuple) and f[fld] == ("<m_step_%s>" % ph, 1)):
                            probs.append("after the %s phase self.%s is not the M-step's returned value (copy-back missing)" % (ph.upper(), fld))
        out.append(Clause("C09.handover", "discharged" if not probs else "refuted", "npsym",
                          "%s: " % label + ("V -> finalize_v -> U -> finalize_u -> D with the stated arguments" if not probs else "; ".join(probs))))
    return collapse(out, "C09.handover", "phase sequencing and hand-over of point estimates (list input; Dask-nested input with shared and isolated tasks: "
                    "the subspace is taken from the M-step's returned value)")


def entail(F):
    """branch decisions of the interpreter by entailment from the facts and the current path (instead of forking)"""
    from vt import smt

    def feas(I_, cond):
        Fx = F.extend(list(I_.assumed))
        st, _ = smt.prove(cond, Fx, timeout_ms=3000)
        if st == "proved":
            return True
        st, _ = smt.prove(T.c_not(cond), Fx, timeout_ms=3000)
        if st == "proved":
            return False
        return None
    return feas


def esteps(ctx):
    """Tier A: the E-step of each JFA phase, called as the Dask path calls it (and as the list path does for one class):
    the H sessions of ONE class kk of K, all labels equal to kk, the accumulated statistics of all K classes.
    Every returned accumulator equals the posterior moments of that phase's latent variable given the handed-over point
    estimates -- A1 = Σ N (Phi + E E'), A2 = Σ Fnorm E' -- for all C, D, ranks, session counts and class counts."""
    out = []
    leaf = {Q + "_compute_fn_y_i": FA.spec_fn_y_i, Q + "_compute_fn_z_i": FA.spec_fn_z_i, Q + "_compute_fn_x_ih": FA.spec_fn_x_ih,
            Q + "_compute_id_plus_u_prod_ih": FA.spec_id_plus_u_prod_ih, Q + "_compute_id_plus_vprod_i": FA.spec_id_plus_vprod_i,
            Q + "_compute_id_plus_d_prod_i": FA.spec_id_plus_d_prod_i}
    Kc, kk = T.sym("Kc", "int"), T.sym("kk", "int")
    defs = []
    assume = [T.cmp_cond("<=", ZERO, kk), T.cmp_cond("<", kk, Kc)]
    zeros = lambda *shape: Arr(tuple(shape), lambda *idx: ZERO)

    def row(a, k):
        return Arr(a.shape[1:], lambda *idx: P(a.fn(k, *idx)))
    FA.setup()
    try:
        F = FA.facts()
        F.pos_syms |= {"H", "Kc"}
        F.dims |= {"Kc"}
        F.conds += assume

        def common(I):
            return dict(X=FA.sessions(I), y=SList(FA.Hh, lambda i: kk), n_samples_per_class=SList(Kc, lambda k: T.app("nspc", k, sort="int")))
        # ---------------- V phase
        I = new_interp(leaf)
        I.feasible = entail(F)

        def build_v(I=I):
            kw = common(I)
            kw.update(n_acc=input_arr("Nacc", (Kc, FA.Cc)), f_acc=input_arr("Facc", (Kc, FA.Cc, FA.Dd)))
            return [FA.mk_fa(I)], kw

        def spec_v(ctx_, self, X, y, n_samples_per_class, n_acc, f_acc):
            n, f = row(n_acc, kk), row(f_acc, kk)
            xs0, z0 = zeros(FA.RU, FA.Hh), zeros(FA.Cc * FA.Dd)
            yh = FA.spec_block_y(self, X, xs0, z0, n, f)
            Phi = FA.precision_inv(FA.RV, FA.prod_term(self.fields["_V"], self), n)
            fn = FA.spec_fn_y_i(None, self, X, xs0, z0, n, f)
            A1 = Arr((FA.Cc, FA.RV, FA.RV), lambda c, r, s: P(n.fn(c)) * (P(Phi.fn(r, s)) + P(yh.fn(r)) * P(yh.fn(s))))
            A2 = Arr((FA.Cc * FA.Dd, FA.RV), lambda i, r: P(fn.fn(i)) * P(yh.fn(r)))
            return (A1, A2)
        cl = K.check_function(I, J + "e_step_v", build_v, spec_v, F, "C09.estep.V", state_names={0: "self"}, structural=True, assume=assume, force_sides=True)
        defs += [c for c in cl if ".def" in c.name]
        out += collapse([c for c in cl if ".def" not in c.name], "C09.estep.V",
                        "V phase: A1_c = N_c (Phi_y + y y'), A2 = Fnorm_y y' with y the posterior mean of the class's speaker factor at x = 0, z = 0")
        # ---------------- U phase
        I = new_interp(leaf)
        I.feasible = entail(F)

        def build_u(I=I):
            kw = common(I)
            kw.update(latent_y=input_arr("ly", (Kc, FA.RV)))
            return [FA.mk_fa(I)], kw

        def spec_u(ctx_, self, X, y, n_samples_per_class, latent_y):
            yk = row(latent_y, kk)
            z0 = zeros(FA.Cc * FA.Dd)
            xh = FA.spec_block_x(self, X, yk, z0)
            UP = FA.prod_term(self.fields["_U"], self)

            def a1(c, r, s):
                def per(h):
                    Phi = FA.precision_inv(FA.RU, UP, X.elem(h).fields["n"])
                    return P(X.elem(h).fields["n"].fn(c)) * (P(Phi.fn(r, s)) + P(xh.fn(r, h)) * P(xh.fn(s, h)))
                return Sum(FA.Hh, per, "h")

            def a2(i, r):
                def per(h):
                    fn = FA.spec_fn_x_ih(None, self, X.elem(h), latent_z_i=z0, latent_y_i=yk)
                    return P(fn.fn(i)) * P(xh.fn(r, h))
                return Sum(FA.Hh, per, "h")
            return (Arr((FA.Cc, FA.RU, FA.RU), a1), Arr((FA.Cc * FA.Dd, FA.RU), a2))
        cl = K.check_function(I, J + "e_step_u", build_u, spec_u, F, "C09.estep.U", state_names={0: "self"}, structural=True, assume=assume, force_sides=True)
        defs += [c for c in cl if ".def" in c.name]
        out += collapse([c for c in cl if ".def" not in c.name], "C09.estep.U",
                        "U phase: A1_c = Σ_h N_hc (Phi_h + x_h x_h'), A2 = Σ_h Fnorm_h x_h' with x_h the posterior mean of each session's channel "
                        "factor given the handed-over speaker factors (z = 0)")
        # ---------------- D phase
        I = new_interp(leaf)
        I.feasible = entail(F)

        def build_d(I=I):
            kw = common(I)
            kw.update(latent_x=SList(Kc, lambda k: Arr((FA.RU, FA.Hh), lambda r, h: T.app("lx", k, r, h))),
                      latent_y=input_arr("ly", (Kc, FA.RV)), n_acc=input_arr("Nacc", (Kc, FA.Cc)), f_acc=input_arr("Facc", (Kc, FA.Cc, FA.Dd)))
            return [FA.mk_fa(I)], kw

        def spec_d(ctx_, self, X, y, n_samples_per_class, latent_x, latent_y, n_acc, f_acc):
            n, f = row(n_acc, kk), row(f_acc, kk)
            yk, xs = row(latent_y, kk), latent_x.elem(kk)
            zh = FA.spec_block_z(self, X, xs, yk, n, f)
            fn = FA.spec_fn_z_i(None, self, X, xs, yk, n, f)
            sg = FA.sigma_of(self)
            Dv = self.fields["_D"]
            var = lambda i: ONE / (ONE + P(Dv.fn(i)) ** 2 * P(n.fn(FA.cd(i)[0])) / sg(i))
            A1 = Arr((FA.Cc * FA.Dd,), lambda i: (var(i) + P(zh.fn(i)) ** 2) * P(n.fn(FA.cd(i)[0])))
            A2 = Arr((FA.Cc * FA.Dd,), lambda i: P(fn.fn(i)) * P(zh.fn(i)))
            return (A1, A2)
        cl = K.check_function(I, J + "e_step_d", build_d, spec_d, F, "C09.estep.D", state_names={0: "self"}, structural=True, assume=assume, force_sides=True)
        defs += [c for c in cl if ".def" in c.name]
        out += collapse([c for c in cl if ".def" not in c.name], "C09.estep.D",
                        "D phase: A1 = N (var_z + z^2), A2 = Fnorm_z z with z the posterior mean of the class's residual offset given the handed-over x_h, y")
        # ---------------- ISV training E-step (the same per-class form; used by the chunking / bag / determinism properties)
        I = new_interp(leaf)
        I.feasible = entail(F)
        IS = "factor_analysis.ISVMachine."

        def build_isv(I=I):
            kw = common(I)
            kw.update(n_acc=input_arr("Nacc", (Kc, FA.Cc)), f_acc=input_arr("Facc", (Kc, FA.Cc, FA.Dd)))
            return [FA.mk_fa(I, "ISVMachine", with_v=False)], kw

        def spec_isv(ctx_, self, X, y, n_samples_per_class, n_acc, f_acc):
            n, f = row(n_acc, kk), row(f_acc, kk)
            xh = FA.spec_block_x(self, X, None, zeros(FA.Cc * FA.Dd))
            zh = FA.spec_block_z(self, X, xh, None, n, f)
            UP = FA.prod_term(self.fields["_U"], self)

            def a1(c, r, s):
                def per(h):
                    Phi = FA.precision_inv(FA.RU, UP, X.elem(h).fields["n"])
                    return P(X.elem(h).fields["n"].fn(c)) * (P(Phi.fn(r, s)) + P(xh.fn(r, h)) * P(xh.fn(s, h)))
                return Sum(FA.Hh, per, "h")

            def a2(i, r):
                def per(h):
                    fn = FA.spec_fn_x_ih(None, self, X.elem(h), latent_z_i=zh, latent_y_i=None)
                    return P(fn.fn(i)) * P(xh.fn(r, h))
                return Sum(FA.Hh, per, "h")
            return (Arr((FA.Cc, FA.RU, FA.RU), a1), Arr((FA.Cc * FA.Dd, FA.RU), a2))
        cl = K.check_function(I, IS + "e_step", build_isv, spec_isv, F, "C09.isv.estep", state_names={0: "self"}, structural=True, assume=assume, force_sides=True)
        defs += [c for c in cl if ".def" in c.name]
        out += collapse([c for c in cl if ".def" not in c.name], "C09.isv.estep",
                        "ISV training E-step (one class per call): x_h = posterior mean at z = 0, z = posterior mean given those x_h, "
                        "A1_c = Σ_h N_hc (Phi_h + x_h x_h'), A2 = Σ_h (F_h - N_h (m + D z)) x_h'")
        out += collapse(defs, "C09.estep.def", "every division in the E-steps is defined for all U, V, D (entries of D may be zero), counts >= 0, variances > 0")
    finally:
        T.PRODUCTS[:] = []
    return out


def finalizers(ctx):
    """Tier A: the point estimates handed from one phase to the next on the Dask path (one delayed list of sessions per
    class, K classes, H_k sessions each): finalize_v returns, for EVERY class k, the posterior mean of its speaker factor at
    x = 0, z = 0; finalize_u returns, for every class and every session, the posterior mean of the channel factor given the
    class's speaker factor (z = 0).  With C09.handover (who receives what) and C09.estep.* this closes the E-side of each phase."""
    out = []
    leaf = {Q + "_compute_fn_y_i": FA.spec_fn_y_i, Q + "_compute_fn_z_i": FA.spec_fn_z_i, Q + "_compute_fn_x_ih": FA.spec_fn_x_ih,
            Q + "_compute_id_plus_u_prod_ih": FA.spec_id_plus_u_prod_ih, Q + "_compute_id_plus_vprod_i": FA.spec_id_plus_vprod_i,
            Q + "_compute_id_plus_d_prod_i": FA.spec_id_plus_d_prod_i}
    Kc = T.sym("Kc", "int")
    zeros = lambda *shape: Arr(tuple(shape), lambda *idx: ZERO)
    row = lambda a, k: Arr(a.shape[1:], lambda *idx: P(a.fn(k, *idx)))
    FA.setup()
    try:
        F = FA.facts()
        F.pos_syms |= {"Kc"}
        F.dims |= {"Kc"}
        F.pos_apps.add("Hk")

        def class_sessions_of(I):
            ci = I.classes["GMMStats"]

            def class_sessions(k):
                def elem(h):
                    s = Obj(ci)
                    s.fields.update(n_gaussians=FA.Cc, n_features=FA.Dd, log_likelihood=T.app("kll", k, h), t=T.app("kT", k, h),
                                    n=Arr((FA.Cc,), lambda c: T.app("kN", k, h, c)), sum_px=Arr((FA.Cc, FA.Dd), lambda c, d: T.app("kF", k, h, c, d)),
                                    sum_pxx=Arr((FA.Cc, FA.Dd), lambda c, d: T.app("kS", k, h, c, d)))
                    return s
                return SList(T.app("Hk", k, sort="int"), elem)
            return class_sessions

        def nested(I):
            cs = class_sessions_of(I)
            return dict(X=SList(Kc, lambda k: Delayed(cs, (k,), {})),
                        y=SList(Kc, lambda k: SList(T.app("Hk", k, sort="int"), lambda h: k)),
                        n_samples_per_class=SList(Kc, lambda k: T.app("Hk", k, sort="int")))
        # ---------------- finalize_v
        I = new_interp(leaf)
        I.feasible = entail(F)

        def build_fv(I=I):
            kw = nested(I)
            kw.update(n_acc=input_arr("Nacc", (Kc, FA.Cc)), f_acc=input_arr("Facc", (Kc, FA.Cc, FA.Dd)))
            return [FA.mk_fa(I)], kw

        def spec_fv(ctx_, self, X, y, n_samples_per_class, n_acc, f_acc, I=I):
            def per_class(k):
                Xk = I.dask_compute(X.elem(k))
                return FA.spec_block_y(self, Xk, zeros(FA.RU, Xk.slen()), zeros(FA.Cc * FA.Dd), row(n_acc, k), row(f_acc, k))
            return SList(Kc, per_class)
        cl = K.check_function(I, J + "finalize_v", build_fv, spec_fv, F, "C09.finalize.V", state_names={0: "self"}, structural=False)
        out += collapse([c for c in cl if ".def" not in c.name], "C09.finalize.V",
                        "finalize_v (per-class delayed lists): latent_y[k] = posterior mean of class k's speaker factor at x = 0, z = 0, for every class")
        # ---------------- finalize_u
        I = new_interp(leaf)
        I.feasible = entail(F)

        def build_fu(I=I):
            kw = nested(I)
            kw.update(latent_y=SList(Kc, lambda k: Arr((FA.RV,), lambda r: T.app("ly", k, r))))
            return [FA.mk_fa(I)], kw

        def spec_fu(ctx_, self, X, y, n_samples_per_class, latent_y, I=I):
            def per_class(k):
                Xk = I.dask_compute(X.elem(k))
                return FA.spec_block_x(self, Xk, latent_y.elem(k), zeros(FA.Cc * FA.Dd))
            return SList(Kc, per_class)
        cl = K.check_function(I, J + "finalize_u", build_fu, spec_fu, F, "C09.finalize.U", state_names={0: "self"}, structural=False)
        out += collapse([c for c in cl if ".def" not in c.name], "C09.finalize.U",
                        "finalize_u (per-class delayed lists): latent_x[k][:, h] = posterior mean of session h's channel factor given latent_y[k] (z = 0)")
    finally:
        T.PRODUCTS[:] = []
    return out


GROUPS = [guard(msteps), guard(reduce_iadd), guard(handover), guard(esteps), guard(finalizers)]
BOUNDED = [bounded("fa_repro.py", "phases", "C09.estep-acc-mstep",
                   "for each phase (V, U, D) the real E-step accumulators equal A1 = Σ N (Phi + E E'), A2 = Σ Fnorm E' of the exact posterior of that "
                   "phase's latent given the handed-over point estimates, and the M-step solves the normal equations; shapes kept"),
           bounded("fa_repro.py", "phase_ascent", "C09.ascent",
                   "marginal likelihood of each phase non-decreasing over 6 E/M iterations (float64, rel. tol. 1e-9); subspaces finite with the stated shapes")]
SHARED = [("C07", "leaf_compute_fn_y_i", ["C07.fn_y"]), ("C07", "fn_x_all", ["C07.fn_x"]), ("C07", "fn_z_all", ["C07.fn_z"]),
          ("C07", "prec_all", ["C07.prec.x", "C07.prec.y", "C07.prec.z", "C07.uprod", "C07.vprod"])]
REPLAY = [("C09.estep", "fa_repro.py", "dask_classes", {}), ("C09.reduce", "fa_repro.py", "dask_classes", {}), ("C09.handover", "fa_repro.py", "dask_classes", {}), ("C09.ascent", "fa_repro.py", "phase_ascent", {}), ("C09", "fa_repro.py", "phases", {})]
LEVEL = "proof"
TECHNIQUE = "contract-based deductive verification (per-class E-steps of the three phases, finalisers, M-steps, reduction, phase hand-over, leaf formulas) + bounded exact-rational execution of the list-path E-steps (objrun)"
LEVEL_TEXT = ("Proof, for all shapes, ranks, class counts and session counts, that each phase of JFAMachine.fit is an exact E-step followed by the M-step that "
              "solves the normal equations: the per-class E-steps e_step_v / e_step_u / e_step_d return A1 = Σ N (Phi + E E'), A2 = Σ Fnorm E' of the exact "
              "posterior of that phase's latent given the handed-over point estimates (C09.estep.*); finalize_v / finalize_u hand over the posterior means of "
              "every class (C09.finalize.*); the per-class accumulators are each added exactly once (C09.reduce); the M-steps solve A2_c A1_c^-1 / A2/A1 "
              "(C09.*.mstep); phases run in the stated order with the stated arguments and the result is copied back also from isolated tasks (C09.handover). "
              "That such a step never decreases the phase's marginal likelihood is the trusted EM lemma L-EM-LG. The list path with several classes in one call "
              "(label-indexed filtering inside the E-step) is checked against the same posterior moments by exact-rational execution on a shape grid (bounded, not "
              "counted as proved), as is the numeric ascent.")
EXPLANATION = ("Per-class E-steps, finalisers, M-steps, accumulator reduction, phase hand-over/copy-back and all leaf formulas are proved for all shapes "
               "(obligations/discharged). The list-path E-step with several classes per call and the numeric ascent are bounded objrun checks (bounded_checks). "
               "EM ascent itself rests on the trusted lemma L-EM-LG.")
TRUSTED = ["L-EM-LG: for a linear-Gaussian latent model, an exact E-step followed by the M-step solving the normal equations never decreases the marginal likelihood",
           "np.linalg.inv contract; compound axis C*D row-major"]
ASSUMPTIONS = ["UBM variances > 0; every class has >= 1 session"]
XCHECK = ['fa']
