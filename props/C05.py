"""C05 -- MAP adaptation interpolates between the prior model and the data by relevance."""
import itertools

import z3

from vt import terms as T
from vt.terms import Poly, P, C, ZERO, ONE, Sum
from vt import arr as A
from vt.arr import Arr, input_arr
from vt.values import Obj, SList, PyRaise
from vt import contract as K
from vt.verify import Clause
from vt import verify as V
from vt import smt
from contracts import gmm as G
from props.common import new_interp, collapse, guard
from props import loopvc

FUNCTIONS = ["gmm.map_gmm_m_step", "gmm.m_step", "gmm.GMMMachine.__init__ (prior copy)", "gmm.GMMMachine.initialize_gaussians (MAP branch)",
             "gmm.GMMMachine.fit (loop skeleton, MAP trainer)"]


def map_facts(I):
    F = G.facts(extra_pos_apps={"alphav"}, extra_pos_syms={"t", "alpha", "relevance"})
    F.nonneg_apps.add("n")
    # fixed ratio in [0,1]; the statistics come from at least one frame: Σ_c n_c = t > 0 (C02.n.sumN)
    F.conds.append(T.cmp_cond("<", T.sym("alpha"), ONE))     # a = 1 (weight 0 for a starved component) is the ML limit, C05.limit.ml
    F.conds.append(T.cmp_cond("==", Sum(G.Cc, lambda k: T.app("n", k), "c"), T.sym("t", "int")))
    F.lower["alphav"] = lambda c: ZERO
    F.pos_syms.add("alpha_gap")
    F.upper = {"alphav": lambda c: ONE - T.sym("alpha_gap")}
    G.facts_inv(G.mk_gmm(I), F)
    G.facts_inv(G.mk_gmm(I, "0"), F, "0")
    G.facts_inv(G.mk_gmm(I, "00"), F, "00")
    F.pos_apps |= {"w00", "v00"}
    return F


def mstep_map(ctx):
    out = mstep_map_inner()
    bad = [c for c in out if c.name == "C05.variances" and c.status == "refuted"]
    if bad:
        # is this exactly the recorded finding (prior second moment taken as v0 + mu0)?  re-verify
        # against the contract with that single term replaced; anything else stays a violation
        G.KNOWN_DEFECT["map_var_prior_mean_not_squared"] = True
        try:
            alt = mstep_map_inner()
        finally:
            G.KNOWN_DEFECT["map_var_prior_mean_not_squared"] = False
        if all(c.status == "discharged" for c in alt if c.name == "C05.variances"):
            for c in bad:
                c.witness = dict(c.witness or {}, known_variant="KF-MAP-VAR")
    return out


def mstep_map_inner():
    res = []
    for um, uv, uw in itertools.product((True, False), repeat=3):
        for mode in ("reynolds", "alpha", "alphavec") + (("chained",) if (um and uv and uw) else ()):
            I = new_interp()
            flags = dict(update_means=um, update_variances=uv, update_weights=uw)

            def build(I=I, flags=flags, mode=mode):
                # "chained": the prior is itself an adapted model (it carries a UBM of its own, with other parameters): the blend
                # is with the machine's OWN prior, not with the root of the chain
                ubm = G.mk_gmm(I, "0", ubm=(G.mk_gmm(I, "00") if mode == "chained" else None), trainer=("map" if mode == "chained" else "ml"))
                m = G.mk_gmm(I, trainer="map", ubm=ubm, update=(flags["update_means"], flags["update_variances"], flags["update_weights"]))
                kw = dict(machine=m, statistics=G.mk_stats(I), mean_var_update_threshold=m.fields["mean_var_update_threshold"],
                          reynolds_adaptation=(mode in ("reynolds", "chained")), relevance_factor=T.sym("relevance"),
                          alpha=(input_arr("alphav", (G.Cc,)) if mode == "alphavec" else T.sym("alpha")), **flags)
                return [], kw
            cl = K.check_function(I, "gmm.map_gmm_m_step", build, G.spec_map_m_step, map_facts(I), "C05.m", result_name="ret",
                                  caller_owned=("alpha",))          # a per-Gaussian ratio array is the caller's (reused for the next client)
            tag = "[um=%d,uv=%d,uw=%d,%s]" % (um, uv, uw, mode)
            for c in cl:
                c.detail = tag + " " + c.detail
            res += cl
    sel = lambda suffixes: [c for c in res if any(c.name.endswith(s) for s in suffixes)]
    sw, sm = sel(["machine._weights", "machine._log_weights"]), sel(["machine._means"])
    sv = sel(["machine._variances", "machine._g_norms"])
    su = [c for c in res if ".machine.ubm." in c.name]
    sd = [c for c in res if c.name.endswith(".def") or ".def." in c.name]
    rest = [c for c in res if c not in sw + sm + sv + su + sd]
    out = []
    out += collapse(sw, "C05.weights", "weights' = (a n/t + (1-a) w0) / Σ_c(...), a = n/(n+r) or the fixed ratio; Σ_c weights' = 1")
    out += collapse(sm, "C05.means", "means' = a F/n + (1-a) mu0; = mu0 where the component received no evidence (n < eps)")
    out += collapse(sv, "C05.variances", "variances' = max(floors, a S/n + (1-a)(v0 + mu0^2) - means'^2); = v0 + mu0^2 - means'^2 without evidence")
    out += collapse(su, "C05.frame", "the prior machine is not modified (every field of machine.ubm unchanged)")
    out += collapse(sd, "C05.def", "all selected values defined (0/0 only in unselected np.where branches)")
    out += collapse(rest, "C05.m.other", "statistics and remaining fields unchanged, returns None")
    return out


def limits(ctx):
    """contract-level lemmas: a -> 0 gives the prior, a -> 1 gives the ML M-step"""
    out = []
    I = new_interp()
    for label, aval in (("prior", 0), ("ml", 1)):
        ubm = G.mk_gmm(I, "0")
        m = G.mk_gmm(I, trainer="map", ubm=ubm, update=(True, True, True))
        st = G.mk_stats(I)
        eps = m.fields["mean_var_update_threshold"]
        ctxs = K.SpecCtx([])
        G.spec_map_m_step(ctxs, m, st, True, True, True, reynolds_adaptation=False, alpha=aval, mean_var_update_threshold=eps)
        F = map_facts(I)
        c, d = T.fresh("c"), T.fresh("d")
        ev = T.cmp_cond("<=", P(eps), P(st.fields["n"].fn(c)))      # component has evidence
        Fp = F.extend([ev])
        if label == "prior":
            exp_mu = ubm.fields["_means"]
            V.compare_terms(T.simplify_under(P(m.fields["_means"].fn(c, d)), T.c_not(ev), False), P(exp_mu.fn(c, d)), Fp, "C05.limit.prior.means", out)
            V.compare_terms(P(m.fields["_weights"].fn(c)) * Sum(G.Cc, lambda k: P(ubm.fields["_weights"].fn(k)), "c"),
                            P(ubm.fields["_weights"].fn(c)), Fp, "C05.limit.prior.weights", out)
            # variances: max(thr, v0 + mu0^2 - mu0^2) = max(thr, v0) = v0 under I2 of the prior (same floors)
            vterm = T.simplify_under(P(m.fields["_variances"].fn(c, d)), T.c_not(ev), False)
            exp = T.mk_max(P(G.thr_of(m)), P(ubm.fields["_variances"].fn(c, d)))
            V.compare_terms(vterm, exp, Fp, "C05.limit.prior.variances", out)
        else:
            m2 = G.mk_gmm(I, trainer="map", ubm=G.mk_gmm(I, "0"), update=(True, True, True))
            st2 = G.mk_stats(I)
            G.spec_ml_m_step(ctxs, m2, st2, True, True, False, mean_var_update_threshold=eps)
            # with evidence n >= eps : max(n, eps) = n
            mu_map = T.simplify_under(P(m.fields["_means"].fn(c, d)), T.c_not(ev), False)
            mu_ml = T.simplify_under(P(m2.fields["_means"].fn(c, d)), T.c_not(ev), False)
            V.compare_terms(mu_map, mu_ml, Fp, "C05.limit.ml.means", out)
            v_map = T.simplify_under(P(m.fields["_variances"].fn(c, d)), T.c_not(ev), False)
            v_ml = T.simplify_under(P(m2.fields["_variances"].fn(c, d)), T.c_not(ev), False)
            V.compare_terms(v_map, v_ml, Fp, "C05.limit.ml.variances", out)
            nsum = Sum(G.Cc, lambda k: P(st.fields["n"].fn(k)), "c")
            V.compare_terms(P(m.fields["_weights"].fn(c)) * nsum, P(st.fields["n"].fn(c)), Fp, "C05.limit.ml.weights", out)
    pr = [c for c in out if ".prior." in c.name]
    ml = [c for c in out if ".ml." in c.name]
    return collapse(pr, "C05.limit.prior", "blend at a = 0 is the prior (means, weights, variances up to the floor)") + \
        collapse(ml, "C05.limit.ml", "blend at a = 1 is the ML M-step estimate for components with evidence (weights n/Σn)")


def sum_to_one(ctx):
    I = new_interp()
    ubm = G.mk_gmm(I, "0")
    m = G.mk_gmm(I, trainer="map", ubm=ubm, update=(True, True, True))
    st = G.mk_stats(I)
    G.spec_map_m_step(K.SpecCtx([]), m, st, False, False, True, reynolds_adaptation=True, relevance_factor=T.sym("relevance"),
                      mean_var_update_threshold=m.fields["mean_var_update_threshold"])
    out = []
    V.compare_terms(Sum(G.Cc, lambda k: P(m.fields["_weights"].fn(k)), "c"), ONE, map_facts(I), "C05.weights.sum1", out)
    # a in [0,1): n/(n+r) with n >= 0, r > 0
    n, r = z3.Real("n"), z3.Real("r")
    s = z3.Solver()
    s.add(n >= 0, r > 0, z3.Not(z3.And(n / (n + r) >= 0, n / (n + r) < 1)))
    out.append(Clause("C05.alpha.range", "discharged" if s.check() == z3.unsat else "undecided", "z3", "0 <= n/(n+r) < 1"))
    # means blend maximises the MAP objective in the means: -(n (mu - E)^2 + r (mu - mu0)^2)/(2v)
    E, mu0, mu, v = [z3.Real(x) for x in ("E", "mu0", "mu", "v")]
    obj = lambda m_: -(n * (m_ - E) * (m_ - E) + r * (m_ - mu0) * (m_ - mu0)) / (2 * v)
    a = n / (n + r)
    s = z3.Solver()
    s.set("timeout", 10000)
    s.add(n >= 0, r > 0, v > 0, z3.Not(obj(a * E + (1 - a) * mu0) >= obj(mu)))
    out.append(Clause("C05.argmax.means", "discharged" if s.check() == z3.unsat else "undecided", "z3",
                      "a E + (1-a) mu0 maximises Q + log prior(relevance r) in the mean"))
    return collapse(out[:2], "C05.alpha", "a = n/(n+r) in [0,1); adapted weights sum to one") + out[2:]


def init_copy(ctx):
    """initialize_gaussians / constructor for MAP: parameters are the prior's, through the setters"""
    out = []
    I = new_interp()

    def build():
        ubm = G.mk_gmm(I, "0", thr="scalar")
        m = G.mk_gmm(I, trainer="map", ubm=ubm, means=False, variances=False, gnorms="none")
        return [m], {}

    def spec(ctx_, m, data=None):
        # property-level: the machine starts as an exact copy of the prior (means, variances, floors, weights)
        u = m.fields["ubm"]
        G.spec_set_means(ctx_, m, u.fields["_means"])
        m.fields["_variance_thresholds"] = G.thr_of(u)
        m.fields["_variances"] = u.fields["_variances"]
        m.fields["_g_norms"] = G.gnorms_spec(u.fields["_variances"], G.Cc, G.Dd)
        G.spec_set_weights(ctx_, m, u.fields["_weights"])
    F = map_facts(I)
    cl = K.check_function(I, "gmm.GMMMachine.initialize_gaussians", build, spec, F, "C05.init.copy", state_names={0: "self"})
    return collapse(cl, "C05.init.copy", "MAP initialisation copies the prior's means, variances, floors and weights (prior untouched)")


def loop_map(ctx):
    return loopvc.gmm_fit_loop("C05", "map", True, True)


def ctrl(ctx):
    I = new_interp()

    def wrong(ctx_, machine, statistics, **kw):
        G.spec_map_m_step(ctx_, machine, statistics, **kw)
        machine.fields["_means"] = machine.fields["ubm"].fields["_means"]

    def build():
        ubm = G.mk_gmm(I, "0")
        m = G.mk_gmm(I, trainer="map", ubm=ubm)
        return [], dict(machine=m, statistics=G.mk_stats(I), update_means=True, reynolds_adaptation=True,
                        relevance_factor=T.sym("relevance"), mean_var_update_threshold=m.fields["mean_var_update_threshold"])
    cl = K.check_function(I, "gmm.map_gmm_m_step", build, wrong, map_facts(I), "ctl")
    bad = [c for c in cl if c.status == "refuted"]
    return [Clause("C05.control.means-prior-only", "refuted" if bad else ("discharged" if cl and all(c.status == "discharged" for c in cl) else "undecided"), "npsym", "spec 'means stay at the prior' must be refuted")]


GROUPS = [guard(mstep_map), guard(limits), guard(sum_to_one), guard(init_copy), guard(loop_map)]
CONTROLS = [ctrl]
SHARED = [("C19", "map_prior_copy", ["C19.map.priorcopy"]), ("C03", "avg_post", ["C02.mstep.reduce", "C03.avg.post"]),   # the dispatcher: MAP M-step iff trainer == "map" NOW
          ("C02", "estep_post", ["C02.estep.n", "C02.estep.sum_px", "C02.estep.sum_pxx", "C02.estep.log_likelihood", "C02.estep.t"])]   # "the prior is never modified" needs the adapted machine to own its arrays
REPLAY = [("C05.def", "gmm_repro.py", "starved", {"trainer": "map"}), ("C05.weights", "gmm_repro.py", "map_mstep", {"fields": ["weights"]}), ("C05.means", "gmm_repro.py", "map_mstep", {"fields": ["means"]}),
          ("C05.frame", "gmm_repro.py", "map_mstep", {"fields": ["weights", "means"]}), ("C05.m.other", "gmm_repro.py", "map_mstep", {"fields": ["weights", "means"]}),
          ("C02.mstep", "gmm_repro.py", "map_mstep", {"no_variances": True}), ("C03.avg", "gmm_repro.py", "map_mstep", {"no_variances": True}),
          ("C05.loop.body", "gmm_repro.py", "dask_isolated", {"trainer": "map"}), ("C05", "gmm_repro.py", "map_mstep", {}), ("C05.loop", "gmm_repro.py", "fit_loop", {"trainer": "map"})]
TRUSTED = ["L-MAP-EM: EM on the relevance-penalised likelihood does not decrease it when the M-step maximises Q + log prior (means-only clause)",
           "np.where selects elementwise; values in unselected positions are irrelevant"]
ASSUMPTIONS = ["prior machine valid (weights, variances, floors > 0; variances >= floors)", "relevance factor > 0 or fixed ratio given"]
XCHECK = ['gmm']
