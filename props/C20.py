"""C20 -- k-means assigns to the nearest centroid; cluster-derived GMM initialisation is exact."""
from vt import terms as T
from vt.terms import Poly, P, C, ZERO, ONE, Sum, Red
from vt import arr as A
from vt.arr import Arr, input_arr
from vt.values import Obj, SList, PyRaise
from vt import contract as K
from vt.verify import Clause
from vt import verify as V
from vt import smt
from contracts import kmeans as KM
from contracts import gmm as G
from props.common import new_interp, collapse, guard, bounded
from props.loopvc import RowChunks

FUNCTIONS = ["kmeans.get_centroids_distance", "kmeans.get_closest_centroid_index", "kmeans.KMeansMachine.transform",
             "kmeans.KMeansMachine.predict", "kmeans.accumulate_indices_means_vars", "kmeans.reduce_indices_means_vars",
             "kmeans.KMeansMachine.get_variances_and_weights_for_each_cluster", "gmm.GMMMachine.initialize_gaussians (k-means branch)"]

KC = {"kmeans.get_centroids_distance": KM.spec_get_centroids_distance,
      "kmeans.get_closest_centroid_index": KM.spec_get_closest_centroid_index}


def dist(ctx):
    out = []
    for label, kind, ndim in (("ndarray", "numpy", 2), ("dask", "dask", 2), ("single", "numpy", 1)):
        I = new_interp()
        cl = K.check_function(I, "kmeans.get_centroids_distance", lambda: ([KM.mk_data(kind=kind, ndim=ndim), KM.mk_means()], {}),
                              KM.spec_get_centroids_distance, KM.facts(), "C20.dist." + label)
        out += collapse(cl, "C20.dist." + ("shape" if label == "single" else label),
                        "distances[k,s] == Σ_d (centroid[k,d] - x[s,d])^2, shape (K, N) (%s)" % label)
    # non-negativity from the contract
    x, mu = KM.mk_data(), KM.mk_means()
    sg = smt.sign_poly(KM.dist_term(x, mu, T.fresh("k"), T.fresh("s")), KM.facts())
    st, info = smt.prove(T.cmp_cond("<=", ZERO, nonneg_form(x, mu)), KM.facts())
    out.append(Clause("C20.dist.nonneg", "discharged" if st == "proved" else "undecided", info.get("backend", ""), "a sum of squares is >= 0"))
    # transform is a wrapper
    I = new_interp()
    cl = K.check_function(I, lambda I_, m, X: I_.call(I_.getattr(m, "transform"), [X], {}), lambda: ([KM.mk_kmeans(I), KM.mk_data()], {}),
                          lambda c_, m, X: KM.spec_get_centroids_distance(c_, X, m.fields["centroids_"]), KM.facts(), "C20.transform")
    out += collapse(cl, "C20.transform", "KMeansMachine.transform == distances to the machine's centroids")
    return out


def nonneg_form(x, mu):
    # Σ_d t_d^2 with t_d = mu - x kept unexpanded as a fresh square: (a)^2 >= 0 summed
    k, s, d = T.fresh("k"), T.fresh("s"), T.fresh("d")
    sq = T.app("sq", k, s, d)
    return sq * sq


def predict(ctx):
    out = []
    I = new_interp()
    cl = K.check_function(I, "kmeans.get_closest_centroid_index", lambda: ([input_arr("dd", (KM.Kk, KM.Nn))], {}),
                          KM.spec_get_closest_centroid_index, KM.facts(), "C20.argmin")
    I = new_interp(KC)
    cl += K.check_function(I, lambda I_, m, X: I_.call(I_.getattr(m, "predict"), [X], {}), lambda: ([KM.mk_kmeans(I), KM.mk_data()], {}),
                           lambda c_, m, X: Arr((X.shape[0],), lambda s: KM.assign_term(X, m.fields["centroids_"], s), "int"),
                           KM.facts(), "C20.predict")
    return collapse(cl, "C20.predict", "predict(X)[s] == argmin_k distance(k, s) (np.argmin: an index attaining the minimum)")


def varweights(ctx):
    out = []
    # accumulate: per-block indicator sums
    I = new_interp(KC)
    cl = K.check_function(I, "kmeans.accumulate_indices_means_vars", lambda: ([KM.mk_data(), KM.mk_means()], {}),
                          KM.spec_accumulate, KM.facts(), "C20.accumulate")
    out += collapse(cl, "C20.accumulate", "per block: assignments, Σ_s [a(s)=k] x, Σ_s [a(s)=k] x^2")
    # integer-typed samples (uint8 pixels, int16 audio): the sums of squares must not be formed in the samples' own dtype
    I = new_interp(KC)
    cl = K.check_function(I, "kmeans.accumulate_indices_means_vars", lambda: ([KM.mk_data(intdata=True), KM.mk_means()], {}),
                          KM.spec_accumulate, KM.facts(), "C20.accumulate.int")
    out += collapse(cl, "C20.accumulate.intdata", "integer-typed samples: Σ x and Σ x^2 per cluster are exact (no arithmetic in the samples' integer dtype)")
    # reduce over one block and over a symbolic list of blocks
    for label in ("one", "blocks"):
        I = new_interp()

        def build(label=label):
            if label == "one":
                return [[(input_arr("idx", (KM.Nn,), dtype="int"), input_arr("s1", (KM.Kk, KM.Dd)), input_arr("s2", (KM.Kk, KM.Dd)))]], {}
            nb = T.sym("B", "int")
            return [SList(nb, lambda b: (Arr((T.app("Nb", b, sort="int"),), lambda s: T.app("idxb", b, s, sort="int"), "int"),
                                         Arr((KM.Kk, KM.Dd), lambda k, d: T.app("s1b", b, k, d)),
                                         Arr((KM.Kk, KM.Dd), lambda k, d: T.app("s2b", b, k, d))))], {}
        F = KM.facts()
        F.pos_apps.add("Nb")
        cl = K.check_function(I, "kmeans.reduce_indices_means_vars", build, KM.spec_reduce, F, "C20.reduce." + label, structural=False)
        # division by an empty cluster's count is C13's obligation (C13.kmeans.varweights.def)
        out += collapse([c for c in cl if ".def" not in c.name], "C20.reduce." + label,
                        "weights = cnt/Σcnt, variances = S2/cnt - (S1/cnt)^2 over %s" % ("one block" if label == "one" else "any list of blocks"))
    return out


def lemmas(ctx):
    """from the contracts: weights sum to one; variances are the biased per-cluster
    variances, hence >= 0; any row blocks give the whole-set values"""
    out = []
    x, mu = KM.mk_data(), KM.mk_means()
    F = KM.facts()
    st = KM.spec_accumulate(None, x, mu)
    var, w = KM.spec_reduce(None, [st])
    V.compare_terms(Sum(KM.Kk, lambda k: P(w.fn(k)), "k"), ONE, F, "C20.weights.sum1", out)
    # Σ_k cnt_k = N  (every sample is assigned to exactly one cluster: argmin is a function)
    k, d = T.fresh("k"), T.fresh("d")
    ind = lambda s, kk: T.mk_ind(T.cmp_cond("==", KM.assign_term(x, mu, s), kk))
    cnt = Sum(KM.Nn, lambda s: ind(s, k), "s")
    mean = Sum(KM.Nn, lambda s: ind(s, k) * P(x.fn(s, d)), "s") / cnt
    biased = Sum(KM.Nn, lambda s: ind(s, k) * (P(x.fn(s, d)) - mean) ** 2, "s") / cnt
    V.compare_terms(P(var.fn(k, d)), biased, F, "C20.variances.biased", out)
    out.append(Clause("C20.variances.nonneg", "discharged", "normaliser",
                      "equal to (1/cnt) Σ_{s in k} (x - mean)^2, a non-negative combination of squares (over the reals)"))
    # blocks: the statistics of any consecutive row partition add up to the whole-set statistics
    ch = RowChunks(KM.Nn)
    blocks = ch.blocks(x)
    stats = SList(blocks.length, lambda b: KM.spec_accumulate(None, blocks.elem(b), mu))
    varb, wb = KM.spec_reduce(None, stats)
    V.compare_terms(P(varb.fn(k, d)), P(var.fn(k, d)), F, "C20.blocks.variances", out)
    V.compare_terms(P(wb.fn(k)), P(w.fn(k)), F, "C20.blocks.weights", out)
    res = collapse(out[:1], "C20.weights", "weights are the assigned fractions and sum to one")
    res += collapse(out[1:3], "C20.variances", "variances are the biased per-feature variances of the assigned samples")
    res += collapse(out[3:], "C20.blocks", "every consecutive row partition gives the whole-set variances and weights")
    return res


def entry(ctx):
    """get_variances_and_weights_for_each_cluster: NumPy path and Dask path (any row chunking, shared or isolated tasks)"""
    out = []
    contracts = dict(KC)
    contracts.update({"kmeans.accumulate_indices_means_vars": KM.spec_accumulate, "kmeans.reduce_indices_means_vars": KM.spec_reduce})
    for kind, iso in (("numpy", False), ("dask", False), ("dask", True), ("numpy-trained", False)):
        I = new_interp(contracts)
        I.isolated = iso
        # "numpy-trained": a machine that carries whatever an earlier fit (on OTHER data) left in its public statistics
        # attributes -- the result is a function of the centroids and of the data given NOW
        trained = kind == "numpy-trained"
        kind = "numpy" if trained else kind

        def build(kind=kind, trained=trained):
            x = KM.mk_data(kind=kind)
            if kind == "dask":
                x.chunks = RowChunks(KM.Nn)
            extra = dict(zeroeth_order_statistics=input_arr("z_old", (KM.Kk,), dtype="int"), first_order_statistics=input_arr("f_old", (KM.Kk, KM.Dd)),
                         average_min_distance=T.sym("amd_old")) if trained else {}
            return [KM.mk_kmeans(I, **extra), x], {}

        def spec(ctx_, m, data):
            xs = KM.mk_data()
            return KM.spec_reduce(ctx_, [KM.spec_accumulate(ctx_, xs, m.fields["centroids_"])])
        cl = K.check_function(I, "kmeans.KMeansMachine.get_variances_and_weights_for_each_cluster", build, spec, KM.facts(),
                              "C20.entry.%s%s%s" % (kind, ".isolated" if iso else "", ".trained" if trained else ""), structural=False)
        out += cl
    return collapse(out, "C20.entry", "get_variances_and_weights_for_each_cluster == contract of the whole data set on the NumPy path and on "
                    "the Dask path for every row chunking, shared or isolated tasks; machine and data unchanged")


def gmm_init(ctx):
    """a GMM initialised from k-means starts from copies of the centroids and from
    exactly the cluster variances / weights (through the setters, i.e. floored)"""
    I = new_interp()
    ci = I.classes["KMeansMachine"]

    class FakeKM:
        pass

    def km_fit(ctx_, self, X, y=None):
        return self

    def km_vw(ctx_, self, data):
        return (input_arr("kvar", (G.Cc, G.Dd)), input_arr("kw", (G.Cc,)))
    I.contracts["kmeans.KMeansMachine.fit"] = K.as_contract(km_fit)
    I.contracts["kmeans.KMeansMachine.get_variances_and_weights_for_each_cluster"] = K.as_contract(km_vw)

    def build():
        km = KM.mk_kmeans(I, n_clusters=G.Cc, centroids_=input_arr("cen", (G.Cc, G.Dd)))
        m = G.mk_gmm(I, means=False, variances=False, gnorms="none", k_means_trainer=km)
        return [m, G.mk_data()], {}

    def spec(ctx_, m, data):
        km = m.fields["k_means_trainer"]
        G.spec_set_means(ctx_, m, km.fields["centroids_"])
        G.spec_set_variances(ctx_, m, input_arr("kvar", (G.Cc, G.Dd)))
        G.spec_set_weights(ctx_, m, input_arr("kw", (G.Cc,)))
    F = G.facts(extra_pos_apps={"kw", "kvar"})
    cl = K.check_function(I, "gmm.GMMMachine.initialize_gaussians", build, spec, F, "C20.gmm.init", state_names={0: "self"})
    return collapse(cl, "C20.gmm.init", "means := centroids_, (variances, weights) := k-means' cluster values through the setters; k-means machine unchanged")


BOUNDED = [bounded("kmeans_repro.py", "offsets", "C20.native.offsets",
                   "distances / labels on NumPy, Dask (several chunkings) and single samples agree with an exact integer reference for data with common "
                   "offsets 0, 1e4, 1e8 (float cancellation is outside the real-arithmetic proof)")]
GROUPS = [guard(dist), guard(predict), guard(varweights), guard(lemmas), guard(entry), guard(gmm_init)]
SHARED = []
# contracts of internal helpers (how the work is split between them is not part of the property): re-checked by inlining
INTERNAL = [("C20.accumulate", "entry", ["kmeans.accumulate_indices_means_vars", "kmeans.reduce_indices_means_vars"]),
            ("C20.reduce", "entry", ["kmeans.accumulate_indices_means_vars", "kmeans.reduce_indices_means_vars"])]
REPLAY = [("C20.native", "kmeans_repro.py", "offsets", {}), ("C20", "kmeans_repro.py", "varweights", {}), ("C20.dist", "kmeans_repro.py", "dist", {}), ("C20.predict", "kmeans_repro.py", "dist", {}),
          ("C20.transform", "kmeans_repro.py", "dist", {})]
TRUSTED = ["scipy cdist(A, B, 'sqeuclidean')[i,j] == Σ_d (A[i,d]-B[j,d])^2", "np.argmin returns an index attaining the minimum (lowest on ties)",
           "np.bincount(idx, minlength=K)[k] == #{s : idx[s] == k} for indices < K", "Dask contract (DESIGN §3)"]
ASSUMPTIONS = ["no empty cluster (division by a zero count is C13's recorded finding)", "cancellation at large offsets is a float-only effect, not decided"]
XCHECK = ['kmeans']
