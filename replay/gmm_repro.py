"""Concrete reproduction of GMM obligations against the real code.

Independent reference: the formulas of the property statements written
directly in NumPy/mpmath (no code shared with the repository or with vt/)."""
import json
import os
import sys

import numpy as np

SEED = int(os.environ.get("VERIF_SEED", "0") or 0)


def mk(C, D, seed, trainer="ml", ubm=None, **kw):
    from bob.learn.em import GMMMachine
    rs = np.random.RandomState(seed)
    m = GMMMachine(C, trainer=trainer, ubm=ubm, **kw)
    m.means = rs.normal(size=(C, D)) * 2 + 3
    m.variances = rs.uniform(0.5, 2.0, size=(C, D))
    w = rs.uniform(0.2, 1.0, size=C)
    m.weights = w / w.sum()
    return m


def ref_lwl(x, w, mu, v):
    x = np.atleast_2d(x)
    C, D = mu.shape
    out = np.empty((C, x.shape[0]))
    for c in range(C):
        out[c] = np.log(w[c]) + np.sum(-0.5 * np.log(2 * np.pi * v[c]) - (x - mu[c]) ** 2 / (2 * v[c]), axis=1)
    return out


def ref_ll(x, w, mu, v):
    import math
    l = ref_lwl(x, w, mu, v)
    out = []
    for s in range(l.shape[1]):
        mx = max(l[:, s])                       # max-shifted: exact for the dominant term
        out.append(float(mx + math.log(math.fsum(math.exp(t - mx) for t in l[:, s]))))
    return np.array(out)


def close(a, b, tol=1e-9):
    a, b = np.asarray(a, float), np.asarray(b, float)
    if a.shape != b.shape:
        return False
    if not (np.all(np.isfinite(a)) and np.all(np.isfinite(b))):
        return bool(np.array_equal(np.isfinite(a), np.isfinite(b)) and np.allclose(a[np.isfinite(a)], b[np.isfinite(b)]))
    return bool(np.all(np.abs(a - b) <= tol * (1 + np.abs(a) + np.abs(b))))


def search(fn, tries=200):
    for k in range(tries):
        r = fn(SEED * 1000 + k)
        if r is not None:
            r["reproduced"] = True
            r["seed_used"] = SEED * 1000 + k
            return r
    return {"reproduced": False, "tries": tries, "cases": tries}


def mode_lwl(p):
    def one(seed):
        rs = np.random.RandomState(seed)
        C, D, N = rs.randint(1, 4), rs.randint(1, 4), rs.randint(1, 5)
        if seed % 5 == 2:
            C = int(rs.randint(5, 18))        # more components than the fan-in of a Dask reduction tree (4)
        m = mk(C, D, seed)
        x = rs.normal(size=(N, D)) * 2 + 3
        if seed % 5 == 4:
            # realistic feature dimensions and variance scales (60-90 features, variances ~1e-6 or ~1e4)
            D = int(rs.randint(60, 90))
            m = mk(C, D, seed)
            m.variance_thresholds = 1e-12
            m.variances = rs.uniform(0.5, 2.0, size=(C, D)) * float(rs.choice([1e-6, 1e4]))
            x = m.means[rs.randint(0, C, size=N)] + rs.normal(size=(N, D)) * np.sqrt(m.variances[0])
        one_ = np.asarray(m.log_weighted_likelihood(x[0]))          # ONE sample given as a 1-d vector: one value per component
        exp1 = ref_lwl(x[:1], m.weights, m.means, m.variances)
        if one_.shape != (C, 1) or not close(one_, exp1):
            return {"input": {"C": C, "D": D, "x": x[0].tolist()}, "observed": one_.tolist(), "expected": exp1.tolist(),
                    "what": "log_weighted_likelihood of one sample (1-d vector) is not the column of its per-component values, shape (C, 1)"}
        got = m.log_weighted_likelihood(x)
        exp = ref_lwl(x, m.weights, m.means, m.variances)
        if not close(got, exp):
            return {"input": {"C": C, "D": D, "x": x.tolist(), "weights": m.weights.tolist(), "means": m.means.tolist(),
                              "variances": m.variances.tolist()}, "observed": np.asarray(got).tolist(), "expected": exp.tolist(),
                    "what": "GMMMachine.log_weighted_likelihood differs from log w_c + log N(x; mu_c, v_c)"}
    return search(one)


def mode_ll(p):
    def one(seed):
        rs = np.random.RandomState(seed)
        C, D, N = rs.randint(1, 4), rs.randint(1, 4), rs.randint(1, 5)
        if seed % 5 == 2:
            C = int(rs.randint(5, 18))        # more components than the fan-in of a Dask reduction tree (4)
        m = mk(C, D, seed)
        x = rs.normal(size=(N, D)) * 2 + 3
        if seed % 5 == 4:
            # realistic feature dimensions and variance scales (60-90 features, variances ~1e-6 or ~1e4)
            D = int(rs.randint(60, 90))
            m = mk(C, D, seed)
            m.variance_thresholds = 1e-12
            m.variances = rs.uniform(0.5, 2.0, size=(C, D)) * float(rs.choice([1e-6, 1e4]))
            x = m.means[rs.randint(0, C, size=N)] + rs.normal(size=(N, D)) * np.sqrt(m.variances[0])
        for variant in ("batch", "single", "dask"):
            if variant == "batch":
                got = m.log_likelihood(x)
            elif variant == "single":
                got = np.array([float(m.log_likelihood(x[i])[0]) for i in range(N)])
            else:
                import dask.array as da
                got = np.asarray(m.log_likelihood(da.from_array(x, chunks=(max(1, N // 2), D))))
            exp = ref_ll(x, m.weights, m.means, m.variances)
            if not close(got, exp):
                return {"input": {"variant": variant, "x": x.tolist(), "weights": m.weights.tolist(), "means": m.means.tolist(),
                                  "variances": m.variances.tolist()}, "observed": np.asarray(got).tolist(), "expected": exp.tolist(),
                        "what": "GMMMachine.log_likelihood (%s) differs from log sum_c w_c N(x; mu_c, v_c)" % variant}
    return search(one)


def mode_tail(p):
    """samples far in the tail of every component must get a finite, correct value"""
    def one(seed):
        rs = np.random.RandomState(seed)
        C, D = rs.randint(1, 4), rs.randint(1, 4)
        m = mk(C, D, seed)
        for k in (50.0, 1e3, 1e4):
            x = m.means.max(axis=0) + k * np.sqrt(m.variances.max(axis=0))
            got = np.asarray(m.log_likelihood(x[None, :]))
            exp = ref_ll(x[None, :], m.weights, m.means, m.variances)
            if not np.all(np.isfinite(got)) or not close(got, exp, 1e-7):
                return {"input": {"x": x.tolist(), "weights": m.weights.tolist(), "means": m.means.tolist(),
                                  "variances": m.variances.tolist(), "sigmas_from_means": k},
                        "observed": got.tolist(), "expected": exp.tolist(),
                        "what": "log_likelihood of a far-tail sample is not the finite correct value"}
            # the same tail sample scored INSIDE a batch that also holds samples from the bulk (NumPy and row-chunked Dask)
            bulk = m.means[rs.randint(0, C, size=3)] + rs.normal(size=(3, D)) * 0.1
            xb = np.vstack([bulk[:2], x[None, :], bulk[2:]])
            import dask.array as da
            for variant, data in (("numpy batch", xb), ("dask batch", da.from_array(xb, chunks=(2, D)))):
                with np.errstate(all="ignore"):
                    got = np.asarray(m.log_likelihood(data))
                exp = ref_ll(xb, m.weights, m.means, m.variances)
                if not np.all(np.isfinite(got)) or not close(got, exp, 1e-7):
                    return {"input": {"x": xb.tolist(), "variant": variant, "weights": m.weights.tolist(), "means": m.means.tolist(),
                                      "variances": m.variances.tolist(), "sigmas_from_means": k},
                            "observed": got.tolist(), "expected": exp.tolist(),
                            "what": "a far-tail sample scored inside a %s with bulk samples does not get the finite correct value" % variant}
    r = search(one, 20)
    if not r.get("reproduced"):
        r2 = mode_ll(p)       # the reduction over the components itself: few and many components, NumPy / single / Dask
        if r2.get("reproduced"):
            return r2
    return r


def ref_estep(x, w, mu, v):
    l = ref_lwl(x, w, mu, v)
    ll = ref_ll(x, w, mu, v)
    r = np.exp(l - ll[None, :])
    return {"t": x.shape[0], "n": r.sum(axis=1), "sum_px": r @ x, "sum_pxx": r @ (x * x), "log_likelihood": ll.sum()}


def mode_estep(p):
    def one(seed):
        rs = np.random.RandomState(seed)
        C, D, N = rs.randint(1, 4), rs.randint(1, 4), rs.randint(1, 6)
        m = mk(C, D, seed)
        x = rs.normal(size=(N, D)) * 2 + 3
        if seed % 4 == 2 and C >= 2:
            # a non-default count threshold and a component that receives a small but non-zero share of the data
            m = mk(C, D, seed, mean_var_update_threshold=1e-3)
            mm = m.means.copy()
            mm[-1] = mm[0] + 4.0 * np.sqrt(m.variances[0]) * rs.choice([-1.0, 1.0], size=D)
            m.means = mm
            x = m.means[0] + rs.normal(size=(N, D)) * 0.3 * np.sqrt(m.variances[0])
        # every fourth sample set is stored in a narrow integer dtype (uint8 pixels / int16 audio)
        if seed % 4 == 1:
            x = rs.randint(0, 256, size=(N, D)).astype(np.uint8)
        elif seed % 4 == 3:
            x = rs.randint(-30000, 30000, size=(N, D)).astype(np.int16)
        st = m.acc_stats(x)
        exp = ref_estep(x.astype(float), m.weights, m.means, m.variances)
        for f in ("t", "n", "sum_px", "sum_pxx", "log_likelihood"):
            if not close(getattr(st, f), exp[f], 1e-8):
                return {"input": {"x": x.tolist(), "dtype": str(x.dtype), "weights": m.weights.tolist(), "means": m.means.tolist(),
                                  "variances": m.variances.tolist()}, "field": f,
                        "observed": np.asarray(getattr(st, f)).tolist(), "expected": np.asarray(exp[f]).tolist(),
                        "what": "GMMStats.%s differs from the responsibility-weighted moment" % f}
    return search(one)


def mode_stats_add(p):
    from bob.learn.em import GMMStats
    inplace = p.get("inplace", False)

    def one(seed):
        rs = np.random.RandomState(seed)
        C, D = rs.randint(1, 4), rs.randint(1, 4)
        m = mk(C, D, seed)
        xa, xb = rs.normal(size=(3, D)) + 3, rs.normal(size=(4, D)) + 3
        a, b = m.acc_stats(xa), m.acc_stats(xb)
        whole = m.acc_stats(np.vstack([xa, xb]))
        b0 = {f: np.array(getattr(b, f), copy=True) for f in ("n", "sum_px", "sum_pxx")}
        if inplace:
            a += b
            s = a
        else:
            s = a + b
        for f in ("t", "n", "sum_px", "sum_pxx", "log_likelihood"):
            if not close(getattr(s, f), getattr(whole, f), 1e-8):
                return {"field": f, "observed": np.asarray(getattr(s, f)).tolist(), "expected": np.asarray(getattr(whole, f)).tolist(),
                        "input": {"xa": xa.tolist(), "xb": xb.tolist()},
                        "what": "statistics of two blocks added with %s differ from the statistics of the whole set" % ("+=" if inplace else "+")}
        for f in b0:
            if not np.array_equal(b0[f], getattr(b, f)):
                return {"field": f, "what": "right operand modified by the addition"}
        # an accumulator that starts empty and collects the blocks one after the other: the blocks stay what they were
        a2, b2 = m.acc_stats(xa), m.acc_stats(xb)
        keep = {f: np.array(getattr(a2, f), copy=True) for f in ("t", "n", "sum_px", "sum_pxx", "log_likelihood")}
        acc = GMMStats(C, D)
        if inplace:
            acc += a2
            acc += b2
        else:
            acc = (acc + a2) + b2
        for f in keep:
            if not np.array_equal(keep[f], getattr(a2, f)):
                return {"field": f, "observed": np.asarray(getattr(a2, f)).tolist(), "expected": keep[f].tolist(), "input": {"xa": xa.tolist(), "xb": xb.tolist()},
                        "what": "the statistics of the first block were modified when a second block was added to the accumulator that had received them"}
            if not close(getattr(acc, f), getattr(whole, f), 1e-8):
                return {"field": f, "observed": np.asarray(getattr(acc, f)).tolist(), "expected": np.asarray(getattr(whole, f)).tolist(),
                        "what": "an empty accumulator that collected two blocks differs from the statistics of the whole set"}
        # shape refusal
        for (c2, d2) in ((C + 1, D), (C, D + 1)):
            o = GMMStats(c2, d2)
            try:
                _ = (a.__iadd__(o) if inplace else a + o)
                return {"what": "adding statistics of shape (%d,%d) to (%d,%d) was not refused" % (c2, d2, C, D),
                        "observed": "no exception", "expected": "ValueError"}
            except ValueError:
                pass
    return search(one, 50)


def ref_ml_mstep(m0, st, um, uv, uw, eps, thr):
    """block maximisers of Q (property statement C03), counts floored at eps"""
    w, mu, v = m0["w"].copy(), m0["mu"].copy(), m0["v"].copy()
    nt = np.maximum(st["n"], eps)
    if uw:
        w = nt / st["t"]
    if um:
        mu = st["sum_px"] / nt[:, None]
    if uv:
        v = (st["sum_pxx"] - 2 * mu * st["sum_px"] + nt[:, None] * mu ** 2) / nt[:, None]
        v = np.maximum(thr, v)
    return w, mu, v


def mode_ml_mstep(p):
    from bob.learn.em import GMMMachine
    import itertools

    def one(seed):
        rs = np.random.RandomState(seed)
        C, D, N = rs.randint(1, 4), rs.randint(1, 4), rs.randint(8, 30)
        x = rs.normal(size=(N, D)) * 1.5 + 3
        extra = {}
        if seed % 3 == 1:
            # a non-default count threshold together with features in small units (variances far below the count threshold):
            # the count threshold is a number of frames, not a variance
            x = x * np.array([1e-3, 1.0, 1e-2])[:D]
            extra = dict(mean_var_update_threshold=1e-3)
        # the criterion returned by m_step for several blocks of unequal size is the average over ALL samples
        import bob.learn.em.gmm as g_
        mm_ = mk(C, D, seed, update_means=True, update_variances=True, update_weights=True, **extra)
        if extra:
            mm_.variances = mm_.variances * (np.array([1e-3, 1.0, 1e-2])[:D] ** 2)
            mm_.means = mm_.means * np.array([1e-3, 1.0, 1e-2])[:D]
        cut = max(1, N // 5)
        whole = float(np.mean(ref_ll(x, mm_.weights, mm_.means, mm_.variances)))
        blocks = [g_.e_step(x[:cut], mm_), g_.e_step(x[cut:], mm_)]
        _, avg = g_.m_step(blocks, mm_)
        if not close(float(avg), whole, 1e-9):
            return {"input": {"x": x.tolist(), "block_sizes": [cut, N - cut]}, "observed": float(avg), "expected": whole,
                    "what": "m_step over two blocks of unequal size returns %.9g, the average log-likelihood of all samples is %.9g" % (float(avg), whole)}
        for um, uv, uw in itertools.product((True, False), repeat=3):
            if seed % 4 == 3:
                # the trainer is re-assigned after construction (set_params is the scikit-learn way to configure an estimator)
                m = mk(C, D, seed, trainer="map", ubm=mk(C, D, seed + 100), update_means=um, update_variances=uv, update_weights=uw,
                       max_fitting_steps=1, **extra)
                m.set_params(trainer="ml")
            else:
                m = mk(C, D, seed, update_means=um, update_variances=uv, update_weights=uw, max_fitting_steps=1, **extra)
            if extra:
                m.variance_thresholds = 1e-12
                m.variances = m.variances * (np.array([1e-3, 1.0, 1e-2])[:D] ** 2)
                m.means = m.means * np.array([1e-3, 1.0, 1e-2])[:D]
            if seed % 3 == 2 and C >= 2:
                # a component that attracts no data at all (far from every sample): occupation below the count threshold
                mm2 = m.means.copy()
                mm2[-1] = 500.0
                m.means = mm2
            m0 = {"w": m.weights.copy(), "mu": m.means.copy(), "v": m.variances.copy()}
            st = ref_estep(x, m0["w"], m0["mu"], m0["v"])
            ll0 = float(np.mean(ref_ll(x, m0["w"], m0["mu"], m0["v"])))
            m.fit(x)
            w, mu, v = ref_ml_mstep(m0, st, um, uv, uw, m.mean_var_update_threshold, m.variance_thresholds)
            for nm, got, exp in (("weights", m.weights, w), ("means", m.means, mu), ("variances", m.variances, v)):
                if not close(got, exp, 1e-7):
                    ll1 = float(np.mean(ref_ll(x, m.weights, m.means, m.variances)))
                    return {"input": {"x": x.tolist(), "weights": m0["w"].tolist(), "means": m0["mu"].tolist(), "variances": m0["v"].tolist(),
                                      "update_means": um, "update_variances": uv, "update_weights": uw},
                            "field": nm, "observed": np.asarray(got).tolist(), "expected": exp.tolist(),
                            "avg_loglik_before": ll0, "avg_loglik_after": ll1,
                            "what": "one ML EM step: %s differ from the maximiser of Q (um=%s uv=%s uw=%s); "
                                    "average log-likelihood %.6g -> %.6g" % (nm, um, uv, uw, ll0, ll1)}
    return search(one, 60)


def ref_map_mstep(prior, st, um, uv, uw, r, alpha, eps, thr, known_defect=False):
    """known_defect: the recorded finding KF-MAP-VAR written in (prior second moment taken as v0 + mu0 instead of v0 + mu0^2)"""
    w0, mu0, v0 = prior
    n = st["n"]
    a = n / (n + r) if r is not None else np.full(n.shape, alpha)
    w, mu, v = w0.copy(), mu0.copy(), v0.copy()
    if uw:
        w = a * n / st["t"] + (1 - a) * w0
        w = w / w.sum()
    noev = n < eps
    with np.errstate(all="ignore"):
        if um:
            mu = a[:, None] * (st["sum_px"] / n[:, None]) + (1 - a[:, None]) * mu0
            mu = np.where(noev[:, None], mu0, mu)
        if uv:
            m2 = mu0 if known_defect else mu0 ** 2
            vv = a[:, None] * (st["sum_pxx"] / n[:, None]) + (1 - a[:, None]) * (v0 + m2) - mu ** 2
            vv = np.where(noev[:, None], v0 + m2 - mu ** 2, vv)
            v = np.maximum(thr, vv)
    return w, mu, v


def mode_map_mstep(p):
    import itertools

    def one(seed):
        rs = np.random.RandomState(seed)
        C, D, N = rs.randint(1, 4), rs.randint(1, 4), rs.randint(8, 30)
        x = rs.normal(size=(N, D)) * 1.5 + 3
        ubm = mk(C, D, seed)
        if seed % 3 == 0 and C > 1:
            mm = ubm.means.copy()
            mm[-1] = 1000.0       # a component that receives no evidence
            ubm.means = mm
        if seed % 4 == 2:
            # the prior is itself an ADAPTED model: it carries a UBM of its own (the root of the chain), with other parameters
            from bob.learn.em import GMMMachine as _G
            root = mk(C, D, seed + 50)
            chained = _G(C, trainer="map", ubm=root)
            chained.means, chained.variances, chained.weights = ubm.means.copy(), ubm.variances.copy(), ubm.weights.copy()
            ubm = chained
        prior = (ubm.weights.copy(), ubm.means.copy(), ubm.variances.copy())
        st = ref_estep(x, *prior)
        for um, uv, uw in itertools.product((True, False), repeat=3):
            if uv and (p.get("no_variances") or p.get("skip_known")):
                continue        # the dispatch of the M-step, not the variance blend (recorded finding KF-MAP-VAR), is in question
            for r, alpha in ((4.0, 0.5), (None, 0.3)):
                from bob.learn.em import GMMMachine
                alpha_arr = None
                if r is None and seed % 3 != 1:
                    # the fixed ratio given per Gaussian, as an array the caller keeps (and may use for the next client)
                    alpha_arr = np.full(C, alpha)
                    alpha_keep = alpha_arr.copy()
                if seed % 2:
                    # configured for MAP after construction (set_params / attribute assignment)
                    m = GMMMachine(C, ubm=ubm, update_means=um, update_variances=uv, update_weights=uw,
                                   max_fitting_steps=1, map_relevance_factor=r, map_alpha=alpha if alpha_arr is None else alpha_arr)
                    m.set_params(trainer="map")
                else:
                    m = GMMMachine(C, trainer="map", ubm=ubm, update_means=um, update_variances=uv, update_weights=uw,
                                   max_fitting_steps=1, map_relevance_factor=r, map_alpha=alpha if alpha_arr is None else alpha_arr)
                m.fit(x)
                if alpha_arr is not None and not np.array_equal(alpha_arr, alpha_keep):
                    return {"field": "map_alpha", "observed": alpha_arr.tolist(), "expected": alpha_keep.tolist(), "input": {"x": x.tolist(), "update_means": um},
                            "what": "the per-Gaussian map_alpha array given to the MAP trainer was modified by fit()"}
                w, mu, v = ref_map_mstep(prior, st, um, uv, uw, r, alpha, m.mean_var_update_threshold, m.variance_thresholds)
                for nm, got, exp in (("weights", m.weights, w), ("means", m.means, mu), ("variances", m.variances, v)):
                    if p.get("fields") and nm not in p["fields"]:
                        continue          # only the fields the obligation in question is about
                    if not close(got, exp, 1e-7):
                        res = {"input": {"x": x.tolist(), "prior_weights": prior[0].tolist(), "prior_means": prior[1].tolist(),
                                         "prior_variances": prior[2].tolist(), "update_means": um, "update_variances": uv,
                                         "update_weights": uw, "relevance_factor": r, "alpha": alpha},
                               "field": nm, "observed": np.asarray(got).tolist(), "expected": np.asarray(exp).tolist(),
                               "what": "one MAP step: adapted %s differ from the relevance blend of prior and data" % nm}
                        if nm == "variances":
                            vk = ref_map_mstep(prior, st, um, uv, uw, r, alpha, m.mean_var_update_threshold, m.variance_thresholds, known_defect=True)[2]
                            if close(got, vk, 1e-7):
                                res["known_finding"] = "KF-MAP-VAR"      # exactly the recorded defect, nothing else
                        return res
                for nm, a_, b_ in (("weights", ubm.weights, prior[0]), ("means", ubm.means, prior[1]), ("variances", ubm.variances, prior[2])):
                    if not np.array_equal(a_, b_):
                        return {"what": "the prior's %s were modified by MAP training" % nm}
                # the M-step called directly: on caller-owned statistics (which it must leave alone) and on a machine whose CURRENT
                # parameters are not the prior's (a later iteration, a warm start) -- the blend is between the PRIOR and the data
                import bob.learn.em.gmm as g_
                st_obj = g_.e_step(x, ubm)
                keep = {f: np.array(getattr(st_obj, f), copy=True) for f in ("n", "sum_px", "sum_pxx", "t", "log_likelihood")}
                m2 = GMMMachine(C, trainer="map", ubm=ubm, update_means=um, update_variances=uv, update_weights=uw, map_relevance_factor=r, map_alpha=alpha)
                m2.means = prior[1] + rs.normal(size=prior[1].shape)
                with np.errstate(all="ignore"):
                    g_.map_gmm_m_step(m2, st_obj, update_means=um, update_variances=uv, update_weights=uw, reynolds_adaptation=(r is not None),
                                      relevance_factor=r, alpha=alpha, mean_var_update_threshold=m2.mean_var_update_threshold)
                for f in keep:
                    if not np.array_equal(keep[f], getattr(st_obj, f)):
                        return {"field": f, "observed": np.asarray(getattr(st_obj, f)).tolist(), "expected": keep[f].tolist(),
                                "what": "map_gmm_m_step modified the caller's statistics (%s)" % f}
                if um and C > 1 and seed % 3 == 1 and not (p.get("fields") is not None and "means" not in p["fields"]):
                    # a NON-default count threshold (the historic 1e-3) and a component whose responsibility mass is small but not
                    # zero (between machine epsilon and the threshold): it counts as "no evidence" and keeps the prior mean
                    st3 = g_.e_step(x, ubm)
                    scale = 1e-5 / max(float(st3.n[-1]), 1e-300)
                    st3.n[-1] *= scale
                    st3.sum_px[-1] *= scale
                    st3.sum_pxx[-1] *= scale
                    st3d = {"n": st3.n.copy(), "sum_px": st3.sum_px.copy(), "sum_pxx": st3.sum_pxx.copy(), "t": st3.t}
                    m3 = GMMMachine(C, trainer="map", ubm=ubm, update_means=True, update_variances=False, update_weights=False, map_relevance_factor=r, map_alpha=alpha,
                                    mean_var_update_threshold=1e-3)
                    with np.errstate(all="ignore"):
                        g_.map_gmm_m_step(m3, st3, update_means=True, update_variances=False, update_weights=False, reynolds_adaptation=(r is not None),
                                          relevance_factor=r, alpha=alpha, mean_var_update_threshold=1e-3)
                    mu3 = ref_map_mstep(prior, st3d, True, False, False, r, alpha, 1e-3, m3.variance_thresholds)[1]
                    if not close(m3.means, mu3, 1e-7):
                        return {"field": "means", "observed": np.asarray(m3.means).tolist(), "expected": np.asarray(mu3).tolist(),
                                "input": {"n": st3d["n"].tolist(), "mean_var_update_threshold": 1e-3, "relevance_factor": r, "alpha": alpha},
                                "what": "MAP M-step with count threshold 1e-3: a component with responsibility mass 1e-5 (below the threshold) does not keep the prior mean"}
                if um and not (p.get("fields") is not None and "means" not in p["fields"]):
                    if not close(m2.means, mu, 1e-7):
                        return {"field": "means", "observed": np.asarray(m2.means).tolist(), "expected": np.asarray(mu).tolist(),
                                "input": {"x": x.tolist(), "prior_means": prior[1].tolist(), "relevance_factor": r, "alpha": alpha},
                                "what": "MAP M-step on a machine whose current means are not the prior's: the adapted means are not the blend of the PRIOR and the data"}
    return search(one, 40)


def mode_fit_loop(p):
    """the stopping rule: drive fit with a prescribed criterion sequence (E/M steps
    stubbed per their contracts) and compare the number of iterations with
    min({k >= 2 : |(L[k-1]-L[k])/L[k-1]| <= thr} u {max})"""
    import bob.learn.em.gmm as g
    trainer = p.get("trainer", "ml")

    def one(seed):
        rs = np.random.RandomState(seed)
        K = rs.randint(2, 9)
        # criterion sequences of every magnitude (average log-likelihoods near 0 as well as large ones) and of every
        # size of relative change: the rule is RELATIVE, nothing absolute may enter
        off = float(rs.choice([5.0, 1e-4, 1e3]))
        L = list(-off * (1 + np.cumsum(rs.uniform(0.0, 1.0, size=12)) * rs.choice([1e-3, 1.0, 2e-5])))
        if seed % 2:
            j = rs.randint(1, 10)
            L[j + 1] = L[j] * (1 + rs.choice([0.0, 1e-6, -1e-6, 9e-6]))
        thr = rs.choice([None, 1e-5, 1e-3, 1e-12])
        if seed % 3 == 0:
            # positive average log-likelihoods (densities above 1: tightly clustered features), increasing, with big relative steps
            L = list(off * (1 + np.cumsum(rs.uniform(0.02, 0.3, size=12))))
        if seed % 3 != 1:
            # a threshold just below / just above the relative change of some iteration: any other notion of "relative change"
            # (another denominator, a dropped abs, an absolute difference) decides that iteration differently
            k0 = int(rs.randint(2, 9))
            thr = abs((L[k0 - 1] - L[k0]) / L[k0 - 1]) * float(rs.choice([0.97, 1.03]))
        mx = rs.choice([None, K]) if thr is not None else K
        calls = []
        real_m, real_e = g.m_step, g.e_step

        def fake_e(data, machine):
            return g.GMMStats(machine.n_gaussians, 1)

        def fake_m(stats, machine):
            calls.append(1)
            mm = machine.means.copy()
            mm[0, 0] = len(calls)
            machine.means = mm
            return machine, float(L[len(calls)])
        g.m_step, g.e_step = fake_m, fake_e
        try:
            m = g.GMMMachine(1, convergence_threshold=thr, max_fitting_steps=mx)
            m.means = np.zeros((1, 1))
            m.variances = np.ones((1, 1))
            exp = None
            for k in range(2, 12):
                if thr is not None and abs((L[k - 1] - L[k]) / L[k - 1]) <= thr:
                    exp = k
                    break
            if mx is not None:
                exp = mx if exp is None else min(exp, mx)
            if exp is None:
                return None
            m.fit(np.zeros((3, 1)))
        finally:
            g.m_step, g.e_step = real_m, real_e
        if len(calls) != exp or m.means[0, 0] != exp:
            return {"input": {"criterion_sequence": L, "threshold": thr, "max_fitting_steps": mx},
                    "observed": {"iterations": len(calls), "model_from_iteration": float(m.means[0, 0])},
                    "expected": {"iterations": exp},
                    "what": "fit ran %d iterations, the stated rule gives %d" % (len(calls), exp)}
    return search(one, 200)


def mode_history(p):
    """random histories of public mutators vs a freshly built machine"""
    import copy
    import pickle
    from bob.learn.em import GMMMachine

    def one(seed):
        rs = np.random.RandomState(seed)
        C, D = rs.randint(1, 4), rs.randint(1, 4)
        m = mk(C, D, seed)
        if seed % 2:
            # a MAP machine adapted from a prior (relevance-factor adaptation, every update switch drawn at random below)
            prior = mk(C, D, seed + 1000)
            m = mk(C, D, seed, trainer="map", ubm=prior, map_relevance_factor=float(rs.choice([0.5, 4.0])))
        x = rs.normal(size=(6, D)) + 3
        hist = []
        for step in range(12):
            op = rs.randint(0, 8)
            if op == 0:
                w = rs.uniform(0.2, 1, size=C)
                m.weights = w / w.sum()
            elif op == 1:
                m.means = rs.normal(size=(C, D))
            elif op == 2:
                m.variances = rs.uniform(1e-3, 2, size=(C, D))
            elif op == 3:
                m.variance_thresholds = float(rs.choice([1e-6, 0.5, 1.5]))
            elif op == 4:
                m.variance_thresholds = rs.uniform(1e-3, 3.0, size=[(D,), (C, D), (C, 1), (1, D)][rs.randint(4)])     # per feature, full, per component, row
            elif op == 5:
                m = copy.deepcopy(m)
                # a second machine is given this one's arrays (what the getters return) and is then modified: this one must not follow
                other = GMMMachine(C)
                other.variance_thresholds = 1e-9
                other.means, other.variances, other.weights = m.means, m.variances, m.weights
                other.variance_thresholds = float(rs.choice([0.5, 1.5]))
                other.variances = other.variances * 2.0
                ow = other.weights
                ow /= ow.sum() * 1.0
            elif op == 6:
                m = pickle.loads(pickle.dumps(m))
            else:
                m.update_means, m.update_variances, m.update_weights = [bool(b) for b in rs.randint(0, 2, size=3)]
                m.max_fitting_steps = 1
                m.fit(x)
            hist.append(op)
            f = GMMMachine(C)
            f.variance_thresholds = 1e-300
            f.weights, f.means = m.weights, m.means
            f.variances = m.variances
            a, b = m.log_likelihood(x), f.log_likelihood(x)
            thr = np.broadcast_to(m.variance_thresholds, m.variances.shape)
            if not close(a, b, 1e-10) or np.any(m.variances < thr):
                return {"input": {"history": hist}, "observed": np.asarray(a).tolist(), "expected": np.asarray(b).tolist(),
                        "what": "after the history the machine's likelihood differs from a fresh machine with the same visible parameters, "
                                "or a variance is below its floor"}
    return search(one, 100)


def mode_starved(p):
    """a component that attracts (almost) no data: parameters must stay finite and valid"""
    from bob.learn.em import GMMMachine
    trainer = p.get("trainer", "ml")

    def one(seed):
        rs = np.random.RandomState(seed)
        D = rs.randint(1, 3)
        x = rs.normal(size=(12, D))
        if seed % 2:
            x[:6] = x[0]                     # duplicates
        ubm = mk(2, D, seed)
        mm = ubm.means.copy()
        mm[1] = 1e4
        ubm.means = mm
        import itertools
        for um, uv, uw in itertools.product((True, False), repeat=3):
            if trainer == "map":
                m = GMMMachine(2, trainer="map", ubm=ubm, update_means=um, update_variances=uv, update_weights=uw, max_fitting_steps=3)
            else:
                m = mk(2, D, seed, update_means=um, update_variances=uv, update_weights=uw, max_fitting_steps=3)
                m.means = mm
            with np.errstate(all="ignore"):
                m.fit(x)
            ok = (np.all(np.isfinite(m.means)) and np.all(np.isfinite(m.variances)) and np.all(np.isfinite(m.weights))
                  and np.all(m.variances >= np.broadcast_to(m.variance_thresholds, m.variances.shape)) and np.all(m.weights >= 0)
                  and np.all(np.isfinite(m.log_likelihood(x))))
            if not ok:
                return {"input": {"x": x.tolist(), "update": [um, uv, uw]}, "observed": {"means": m.means.tolist(), "variances": m.variances.tolist(), "weights": m.weights.tolist()},
                        "what": "non-finite or invalid parameters after training with a starved component"}
    return search(one, 30)


def mode_fresh_iadd(p):
    """accumulating block statistics into a freshly constructed container with += / +"""
    from bob.learn.em import GMMStats

    def one(seed):
        rs = np.random.RandomState(seed)
        C, D = rs.randint(1, 4), rs.randint(1, 4)
        m = mk(C, D, seed)
        x = rs.normal(size=(7, D)) + 3
        whole = m.acc_stats(x)
        for inplace in (True, False):
            acc = GMMStats(C, D)
            for blk in (x[:3], x[3:4], x[4:]):
                if inplace:
                    acc += m.acc_stats(blk)
                else:
                    acc = acc + m.acc_stats(blk)
            for f in ("t", "n", "sum_px", "sum_pxx", "log_likelihood"):
                if not close(getattr(acc, f), getattr(whole, f), 1e-8):
                    return {"field": f, "observed": np.asarray(getattr(acc, f)).tolist(), "expected": np.asarray(getattr(whole, f)).tolist(),
                            "what": "statistics accumulated with %s into an empty GMMStats differ from whole-set accumulation" % ("+=" if inplace else "+")}
    return search(one, 20)


def mode_dask_isolated(p):
    """ML / MAP training on a Dask array when the M-step task runs on a serialised copy of the machine"""
    import pickle
    import dask.array as da
    import bob.learn.em.gmm as g
    from bob.learn.em import GMMMachine
    trainer = p.get("trainer", "ml")

    def one(seed):
        rs = np.random.RandomState(seed)
        X = np.vstack([rs.normal(size=(17, 2)), rs.normal(size=(23, 2)) + 4])
        ubm = mk(2, 2, seed)

        def fit(data, isolated):
            m = GMMMachine(2, trainer=trainer, ubm=ubm if trainer == "map" else None, max_fitting_steps=4, convergence_threshold=1e-6,
                           update_means=True, update_variances=True, update_weights=True)
            if trainer == "ml":
                m.means, m.variances = X[[0, 20]].copy(), np.ones((2, 2))
            real = g.m_step
            if isolated:
                g.m_step = lambda stats, machine: pickle.loads(pickle.dumps(real(pickle.loads(pickle.dumps(stats)), pickle.loads(pickle.dumps(machine)))))
            try:
                m.fit(data)
            finally:
                g.m_step = real
            return m
        ref = fit(X, False)
        for chunks in ((40, 2), (13, 2), (1, 2)):
            for iso in (False, True):
                got = fit(da.from_array(X, chunks=chunks), iso)
                for f in ("weights", "means", "variances"):
                    if not close(getattr(got, f), getattr(ref, f), 1e-8) or (trainer == "ml" and f == "variances" and trainer == "map"):
                        if trainer == "map" and f == "variances":
                            continue
                        return {"input": {"chunks": list(chunks), "isolated_m_step": iso, "trainer": trainer}, "field": f,
                                "observed": np.asarray(getattr(got, f)).tolist(), "expected": np.asarray(getattr(ref, f)).tolist(),
                                "what": "GMM (%s) trained on a Dask array%s differs from in-memory training" % (trainer, " with an isolated M-step task" if iso else "")}
                x5 = X[:5]
                if not close(got.log_likelihood(x5), ref.log_likelihood(x5), 1e-8):
                    return {"input": {"chunks": list(chunks), "isolated_m_step": iso}, "what": "the trained machine's likelihoods differ (stale cached log-weights / normalisers)"}
    return search(one, 3)


def mode_affine(p):
    """per-feature x -> a x + b: one ML / MAP step and the likelihoods transform accordingly"""
    from bob.learn.em import GMMMachine

    def one(seed):
        rs = np.random.RandomState(seed)
        C, D, N = 2, rs.randint(1, 4), 25
        x = rs.normal(size=(N, D)) * 1.5 + 3
        a, b = rs.choice([-3.0, -0.5, 0.25, 2.0, 7.0], size=D), rs.normal(size=D) * 4
        base = mk(C, D, seed)
        for trainer in ("ml", "map"):
            def run(xx, mu, var, thr):
                ubm = GMMMachine(C)
                ubm.variance_thresholds = thr
                ubm.weights, ubm.means = base.weights.copy(), mu
                ubm.variances = var
                m = GMMMachine(C, trainer=trainer, ubm=ubm if trainer == "map" else None, update_means=True, update_variances=True, update_weights=True, max_fitting_steps=1)
                if trainer == "ml":
                    m.variance_thresholds = thr
                    m.weights, m.means = base.weights.copy(), mu
                    m.variances = var
                m.fit(xx)
                return ubm, m
            u1, m1 = run(x, base.means.copy(), base.variances.copy(), 1e-12)
            u2, m2 = run(a * x + b, a * base.means + b, a ** 2 * base.variances, 1e-12 * np.min(a ** 2))
            if not close(u2.log_likelihood(a * x + b), u1.log_likelihood(x) - np.sum(np.log(np.abs(a))), 1e-8):
                return {"what": "log-likelihoods do not shift by -sum(log|a|) under x -> a x + b"}
            # the same for features far from the origin (time stamps, absolute temperatures: offset/std ~ 1e7), scored and accumulated
            # as NumPy AND as Dask arrays: the value is the value near the origin (tolerance 1e-5: float64 leaves ~1e-8 here)
            if trainer == "ml":
                import dask.array as da
                far = np.array([1e7, -3e6, 5e6])[:D]
                uf = GMMMachine(C)
                uf.variance_thresholds = 1e-12
                uf.weights, uf.means, uf.variances = base.weights.copy(), base.means + far, base.variances.copy()
                ref_ll0, ref_n = u1.log_likelihood(x), u1.acc_stats(x).n
                for nm_, data in (("numpy", x + far), ("dask", da.from_array(x + far, chunks=(7, D)))):
                    got_ll, got_n = np.asarray(uf.log_likelihood(data)), np.asarray(uf.acc_stats(data).n)
                    if not close(got_ll, ref_ll0, 1e-5) or not close(got_n, ref_n, 1e-5):
                        return {"input": {"shift": far.tolist(), "variant": nm_, "x": x.tolist()}, "observed": got_ll.tolist(), "expected": ref_ll0.tolist(),
                                "what": "log-likelihood / occupations of %s input change when features and means are shifted far from the origin "
                                        "(max |dll| = %.3g)" % (nm_, float(np.max(np.abs(got_ll - ref_ll0))))}
            if trainer == "map":
                checks = (("means", a * m1.means + b), ("weights", m1.weights))     # MAP variances: recorded finding KF-MAP-VAR
            else:
                checks = (("means", a * m1.means + b), ("variances", a ** 2 * m1.variances), ("weights", m1.weights))
            for f, exp in checks:
                if not close(getattr(m2, f), exp, 1e-7):
                    return {"input": {"scales": a.tolist(), "shifts": b.tolist(), "trainer": trainer}, "field": f,
                            "what": "%s-trained %s are not equivariant under per-feature affine rescaling" % (trainer.upper(), f)}
    return search(one, 10)


MODES = {k[5:]: v for k, v in list(globals().items()) if k.startswith("mode_")}

if __name__ == "__main__":
    mode, params = sys.argv[1], json.loads(sys.argv[2]) if len(sys.argv) > 2 else {}
    import dask
    dask.config.set(scheduler="synchronous")
    try:
        r = MODES[mode](params)
    except Exception as e:  # an exception raised inside the package on a valid input is a reproduction
        import traceback
        tb = traceback.format_exc()
        inside = "/bob/learn/em/" in tb.split("Traceback")[-1].rsplit("File", 1)[-1] or "/bob/learn/em/" in tb
        r = {"reproduced": bool(inside), "what": "the real code raised %s: %s" % (type(e).__name__, e),
             "traceback": tb[-1500:], "harness_error": not inside}
    print(json.dumps(r, default=lambda o: np.asarray(o).tolist()))
