"""Concrete reproduction of GMM obligations against the real code.

Independent reference: the formulas of the property statements written
directly in NumPy/mpmath (no code shared with the repository or with vt/)."""
import json
import os
import sys

import numpy as np

SEED = int(os.environ.get("VERIF_SEED", "0") or 0)


def mk(C, D, seed, trainer="ml", ubm=None, **kw):
    from bob.learn.em import GMMMachine
    rs = np.random.RandomState(seed)
    m = GMMMachine(C, trainer=trainer, ubm=ubm, **kw)
    m.means = rs.normal(size=(C, D)) * 2 + 3
    m.variances = rs.uniform(0.5, 2.0, size=(C, D))
    w = rs.uniform(0.2, 1.0, size=C)
    m.weights = w / w.sum()
    return m


def ref_lwl(x, w, mu, v):
    x = np.atleast_2d(x)
    C, D = mu.shape
    out = np.empty((C, x.shape[0]))
    for c in range(C):
        out[c] = np.log(w[c]) + np.sum(-0.5 * np.log(2 * np.pi * v[c]) - (x - mu[c]) ** 2 / (2 * v[c]), axis=1)
    return out


def ref_ll(x, w, mu, v):
    import mpmath
    mpmath.mp.dps = 50
    l = ref_lwl(x, w, mu, v)
    out = []
    for s in range(l.shape[1]):
        mx = max(l[:, s])
        out.append(float(mx + mpmath.log(sum(mpmath.e ** (mpmath.mpf(t) - mx) for t in l[:, s]))))
    return np.array(out)


def close(a, b, tol=1e-9):
    a, b = np.asarray(a, float), np.asarray(b, float)
    if a.shape != b.shape:
        return False
    if not (np.all(np.isfinite(a)) and np.all(np.isfinite(b))):
        return bool(np.array_equal(np.isfinite(a), np.isfinite(b)) and np.allclose(a[np.isfinite(a)], b[np.isfinite(b)]))
    return bool(np.all(np.abs(a - b) <= tol * (1 + np.abs(a) + np.abs(b))))


def search(fn, tries=200):
    for k in range(tries):
        r = fn(SEED * 1000 + k)
        if r is not None:
            r["reproduced"] = True
            r["seed_used"] = SEED * 1000 + k
            return r
    return {"reproduced": False, "tries": tries}


def mode_lwl(p):
    def one(seed):
        rs = np.random.RandomState(seed)
        C, D, N = rs.randint(1, 4), rs.randint(1, 4), rs.randint(1, 5)
        m = mk(C, D, seed)
        x = rs.normal(size=(N, D)) * 2 + 3
        got = m.log_weighted_likelihood(x)
        exp = ref_lwl(x, m.weights, m.means, m.variances)
        if not close(got, exp):
            return {"input": {"C": C, "D": D, "x": x.tolist(), "weights": m.weights.tolist(), "means": m.means.tolist(),
                              "variances": m.variances.tolist()}, "observed": np.asarray(got).tolist(), "expected": exp.tolist(),
                    "what": "GMMMachine.log_weighted_likelihood differs from log w_c + log N(x; mu_c, v_c)"}
    return search(one)


def mode_ll(p):
    def one(seed):
        rs = np.random.RandomState(seed)
        C, D, N = rs.randint(1, 4), rs.randint(1, 4), rs.randint(1, 5)
        m = mk(C, D, seed)
        x = rs.normal(size=(N, D)) * 2 + 3
        for variant in ("batch", "single", "dask"):
            if variant == "batch":
                got = m.log_likelihood(x)
            elif variant == "single":
                got = np.array([float(m.log_likelihood(x[i])[0]) for i in range(N)])
            else:
                import dask.array as da
                got = np.asarray(m.log_likelihood(da.from_array(x, chunks=(max(1, N // 2), D))))
            exp = ref_ll(x, m.weights, m.means, m.variances)
            if not close(got, exp):
                return {"input": {"variant": variant, "x": x.tolist(), "weights": m.weights.tolist(), "means": m.means.tolist(),
                                  "variances": m.variances.tolist()}, "observed": np.asarray(got).tolist(), "expected": exp.tolist(),
                        "what": "GMMMachine.log_likelihood (%s) differs from log sum_c w_c N(x; mu_c, v_c)" % variant}
    return search(one)


def mode_tail(p):
    """samples far in the tail of every component must get a finite, correct value"""
    def one(seed):
        rs = np.random.RandomState(seed)
        C, D = rs.randint(1, 4), rs.randint(1, 4)
        m = mk(C, D, seed)
        for k in (50.0, 1e3, 1e4):
            x = m.means.max(axis=0) + k * np.sqrt(m.variances.max(axis=0))
            got = np.asarray(m.log_likelihood(x[None, :]))
            exp = ref_ll(x[None, :], m.weights, m.means, m.variances)
            if not np.all(np.isfinite(got)) or not close(got, exp, 1e-7):
                return {"input": {"x": x.tolist(), "weights": m.weights.tolist(), "means": m.means.tolist(),
                                  "variances": m.variances.tolist(), "sigmas_from_means": k},
                        "observed": got.tolist(), "expected": exp.tolist(),
                        "what": "log_likelihood of a far-tail sample is not the finite correct value"}
    return search(one, 20)


def ref_estep(x, w, mu, v):
    l = ref_lwl(x, w, mu, v)
    ll = ref_ll(x, w, mu, v)
    r = np.exp(l - ll[None, :])
    return {"t": x.shape[0], "n": r.sum(axis=1), "sum_px": r @ x, "sum_pxx": r @ (x * x), "log_likelihood": ll.sum()}


def mode_estep(p):
    def one(seed):
        rs = np.random.RandomState(seed)
        C, D, N = rs.randint(1, 4), rs.randint(1, 4), rs.randint(1, 6)
        m = mk(C, D, seed)
        x = rs.normal(size=(N, D)) * 2 + 3
        st = m.acc_stats(x)
        exp = ref_estep(x, m.weights, m.means, m.variances)
        for f in ("t", "n", "sum_px", "sum_pxx", "log_likelihood"):
            if not close(getattr(st, f), exp[f], 1e-8):
                return {"input": {"x": x.tolist(), "weights": m.weights.tolist(), "means": m.means.tolist(),
                                  "variances": m.variances.tolist()}, "field": f,
                        "observed": np.asarray(getattr(st, f)).tolist(), "expected": np.asarray(exp[f]).tolist(),
                        "what": "GMMStats.%s differs from the responsibility-weighted moment" % f}
    return search(one)


def mode_stats_add(p):
    from bob.learn.em import GMMStats
    inplace = p.get("inplace", False)

    def one(seed):
        rs = np.random.RandomState(seed)
        C, D = rs.randint(1, 4), rs.randint(1, 4)
        m = mk(C, D, seed)
        xa, xb = rs.normal(size=(3, D)) + 3, rs.normal(size=(4, D)) + 3
        a, b = m.acc_stats(xa), m.acc_stats(xb)
        whole = m.acc_stats(np.vstack([xa, xb]))
        b0 = {f: np.array(getattr(b, f), copy=True) for f in ("n", "sum_px", "sum_pxx")}
        if inplace:
            a += b
            s = a
        else:
            s = a + b
        for f in ("t", "n", "sum_px", "sum_pxx", "log_likelihood"):
            if not close(getattr(s, f), getattr(whole, f), 1e-8):
                return {"field": f, "observed": np.asarray(getattr(s, f)).tolist(), "expected": np.asarray(getattr(whole, f)).tolist(),
                        "input": {"xa": xa.tolist(), "xb": xb.tolist()},
                        "what": "statistics of two blocks added with %s differ from the statistics of the whole set" % ("+=" if inplace else "+")}
        for f in b0:
            if not np.array_equal(b0[f], getattr(b, f)):
                return {"field": f, "what": "right operand modified by the addition"}
        # shape refusal
        for (c2, d2) in ((C + 1, D), (C, D + 1)):
            o = GMMStats(c2, d2)
            try:
                _ = (a.__iadd__(o) if inplace else a + o)
                return {"what": "adding statistics of shape (%d,%d) to (%d,%d) was not refused" % (c2, d2, C, D),
                        "observed": "no exception", "expected": "ValueError"}
            except ValueError:
                pass
    return search(one, 50)


MODES = {k[5:]: v for k, v in list(globals().items()) if k.startswith("mode_")}

if __name__ == "__main__":
    mode, params = sys.argv[1], json.loads(sys.argv[2]) if len(sys.argv) > 2 else {}
    import dask
    dask.config.set(scheduler="synchronous")
    try:
        r = MODES[mode](params)
    except Exception as e:  # an exception in the real code on a valid input is a reproduction
        import traceback
        r = {"reproduced": True, "what": "the real code raised %s: %s" % (type(e).__name__, e),
             "traceback": traceback.format_exc()[-1500:]}
    print(json.dumps(r, default=lambda o: np.asarray(o).tolist()))
