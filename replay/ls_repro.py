"""linear scoring against the formula of the property statement (explicit loops) and against the
finite-difference derivative of the UBM log-likelihood"""
import numpy as np
from common_repro import *


def ref_score(mm, mu, v, F, N, T, off, norm):
    M, C, D = mm.shape
    P = len(F)
    out = np.zeros((M, P))
    for m in range(M):
        for p in range(P):
            s = 0.0
            for c in range(C):
                for d in range(D):
                    o = off if np.ndim(off) == 0 else (off[c, d] if np.ndim(off) == 2 else off[p, c, d])
                    s += (mm[m, c, d] - mu[c, d]) / v[c, d] * (F[p][c, d] - N[p][c] * (mu[c, d] + o))
            if norm:
                s = 0.0 if abs(T[p]) <= np.finfo(float).eps else s / T[p]
            out[m, p] = s
    return out


def mode_score(p):
    from bob.learn.em import GMMMachine, GMMStats, linear_scoring

    def one(seed):
        rs = np.random.RandomState(seed)
        C, D, M, P = rs.randint(1, 4), rs.randint(1, 4), rs.randint(1, 4), rs.randint(1, 4)
        ubm = mk_gmm(C, D, seed)
        if seed % 3 == 1:
            # a UBM whose variance floor is ACTIVE: variances assigned below the floor are clamped by the machine
            ubm.variance_thresholds = 0.8
            ubm.variances = rs.uniform(0.05, 2.0, size=(C, D))
        elif seed % 3 == 2:
            # ... or whose floor was raised after the variances were set
            ubm.variances = rs.uniform(0.05, 2.0, size=(C, D))
            ubm.variance_thresholds = rs.uniform(0.3, 1.0, size=(C, D))
        models = [mk_gmm(C, D, seed + 1 + k) for k in range(M)]
        stats = []
        for k in range(P):
            s = GMMStats(C, D)
            s.n = rs.uniform(0, 5, size=C)
            s.sum_px = rs.normal(size=(C, D)) * 3
            s.t = int(rs.randint(0, 9)) if k else 0          # a zero-frame statistic is included
            stats.append(s)
        for norm in (False, True):
            for offk in ("zero", "cd", "pcd"):
                off = 0 if offk == "zero" else (rs.normal(size=(C, D)) if offk == "cd" else rs.normal(size=(P, C, D)))
                for as_machines in (True, False):
                    for map_ubm in (False, True):
                        mm = np.array([m.means for m in models])
                        u = GMMMachine(C, trainer="map", ubm=ubm) if map_ubm else ubm
                        if map_ubm:
                            u.means = ubm.means + rs.normal(size=(C, D))               # an ADAPTED machine: its own means / variances differ from the prior's
                            u.variances = ubm.variances * rs.uniform(0.5, 2, size=(C, D))
                        got = linear_scoring(models if as_machines else mm, u, stats, off, norm)
                        exp = ref_score(mm, ubm.means, ubm.variances, [s.sum_px for s in stats], [s.n for s in stats], [s.t for s in stats], off, norm)
                        if not close(got, exp, 1e-9):
                            return {"input": {"C": C, "D": D, "models": M, "probes": P, "offsets": offk, "normalise": norm, "machines": as_machines, "map_ubm": map_ubm},
                                    "observed": np.asarray(got).tolist(), "expected": exp.tolist(), "what": "linear_scoring differs from Σ_c (model-ubm)'/var (F - N(ubm+offset)) [/T]"}
        # an ML-trained UBM that was warm-started from another GMM (ubm= without the MAP trainer): scored with ITS OWN parameters
        seed_gmm = mk_gmm(C, D, seed + 77)
        warm = GMMMachine(C, trainer="ml", ubm=seed_gmm)
        warm.means, warm.variances, warm.weights = ubm.means.copy(), ubm.variances.copy(), ubm.weights.copy()
        mm = np.array([m.means for m in models])
        got = linear_scoring(models, warm, stats, 0, False)
        exp = ref_score(mm, warm.means, warm.variances, [s.sum_px for s in stats], [s.n for s in stats], [s.t for s in stats], 0, False)
        if not close(got, exp, 1e-9):
            return {"input": {"ubm": "ML machine constructed with ubm=<seed GMM>"}, "observed": np.asarray(got).tolist(), "expected": exp.tolist(),
                    "what": "a non-MAP UBM that carries a seed GMM is not scored with its own means/variances"}
        # derivative of the UBM log-likelihood along ubm + e (model - ubm)
        x = rs.normal(size=(6, D)) * 1.5 + 3
        st = ubm.acc_stats(x)
        got = linear_scoring([models[0]], ubm, st)[0, 0]
        e = 1e-6
        def ll(eps):
            t = mk_gmm(C, D, seed)
            t.variance_thresholds = ubm.variance_thresholds
            t.variances, t.weights = ubm.variances.copy(), ubm.weights.copy()
            t.means = ubm.means + eps * (models[0].means - ubm.means)
            return float(np.sum(t.log_likelihood(x)))
        fd = (ll(e) - ll(-e)) / (2 * e)
        if abs(fd - got) > 1e-4 * (1 + abs(got)):
            return {"observed": float(got), "expected": fd, "what": "linear score is not the derivative of the UBM log-likelihood along the model direction"}
    return search(one, 30)


main({"score": mode_score})
