"""Concrete reproduction of k-means obligations against the real code."""
import json
import os
import sys

import numpy as np

SEED = int(os.environ.get("VERIF_SEED", "0") or 0)


def close(a, b, tol=1e-9):
    a, b = np.asarray(a, float), np.asarray(b, float)
    return a.shape == b.shape and bool(np.all(np.abs(a - b) <= tol * (1 + np.abs(a) + np.abs(b))))


def search(fn, tries=200):
    for k in range(tries):
        r = fn(SEED * 1000 + k)
        if r is not None:
            r["reproduced"] = True
            r["seed_used"] = SEED * 1000 + k
            return r
    return {"reproduced": False, "tries": tries}


def ref_dist(x, c):
    x = np.atleast_2d(x)
    if x.shape[0] > 1000:
        return ((np.asarray(c, float)[:, None, :] - np.asarray(x, float)[None, :, :]) ** 2).sum(axis=-1)
    return np.array([[float(np.sum((ck - xs) ** 2)) for xs in x] for ck in c])


def blobs(rs, K, D, N):
    cen = rs.normal(size=(K, D)) * 6
    lab = np.arange(N) % K
    return cen[lab] + rs.normal(size=(N, D)), cen + rs.normal(size=(K, D)) * 0.5


def mode_dist(p):
    import dask.array as da
    from bob.learn.em import KMeansMachine

    def one(seed):
        rs = np.random.RandomState(seed)
        K, D, N = rs.randint(1, 4), rs.randint(1, 4), rs.randint(1, 7)
        x, c = rs.normal(size=(N, D)) * 3, rs.normal(size=(K, D)) * 3
        m = KMeansMachine(K)
        m.centroids_ = c
        exp = ref_dist(x, c)
        for variant, got in (("numpy", m.transform(x)), ("dask", np.asarray(m.transform(da.from_array(x, chunks=(max(1, N // 2), D))))),
                             ("single", m.transform(x[0]))):
            e = exp if variant != "single" else exp[:, :1]
            if not close(got, e) or np.any(np.asarray(got) < 0):
                return {"input": {"x": x.tolist(), "centroids": c.tolist(), "variant": variant}, "observed": np.asarray(got).tolist(),
                        "expected": e.tolist(), "what": "distances differ from the squared Euclidean distances"}
        lab = np.asarray(m.predict(x))
        if np.any(exp[lab, np.arange(N)] > exp.min(axis=0) + 1e-12):
            return {"input": {"x": x.tolist(), "centroids": c.tolist()}, "observed": lab.tolist(), "expected": exp.argmin(axis=0).tolist(),
                    "what": "predicted label is not a nearest centroid"}
    r = search(one)
    if not r.get("reproduced"):
        r2 = mode_offsets(p)        # the same entry points on data far from the origin, few and many features (exact integer reference)
        if r2.get("reproduced"):
            return r2
    return r


def mode_offsets(p):
    """exact integer reference: integer-grid data with a large common offset (all values < 2^53)"""
    import dask.array as da
    from bob.learn.em import KMeansMachine
    cases = 0
    # (offset, features, centroid grid spacing, sample noise): also clusters only a few units apart, far from the origin
    for off, D, sp, nz in ((0, 3, 10, 3), (10 ** 4, 3, 10, 3), (10 ** 8, 3, 10, 3), (10 ** 8, 6, 10, 3), (10 ** 7, 9, 10, 3), (0, 8, 10, 3),
                           (10 ** 8, 3, 1, 0), (10 ** 8, 5, 1, 0), (10 ** 8, 6, 1, 0), (10 ** 8, 9, 1, 0), (10 ** 7, 5, 1, 0)):
        rs = np.random.RandomState(SEED + off % 97 + D + sp)
        K, N = 4, 9
        cen = (rs.randint(0, 8 if sp > 1 else 2, size=(K, D)) * sp + off).astype(float)
        x = (cen[rs.randint(0, K, size=N)] + rs.randint(-nz, nz + 1, size=(N, D))).astype(float)
        exact = np.array([[sum((int(c[d]) - int(xs[d])) ** 2 for d in range(D)) for xs in x] for c in cen], dtype=float)
        m = KMeansMachine(K)
        m.centroids_ = cen
        variants = [("numpy", x)] + [("dask%s" % (ch,), da.from_array(x, chunks=(ch, D))) for ch in (9, 4, 1, (2, 7))]
        for nm, data in variants:
            got = np.asarray(m.transform(data))
            cases += 1
            if not np.array_equal(got, exact):
                return {"reproduced": True, "cases": cases, "input": {"offset": off, "variant": nm}, "observed": got.tolist(), "expected": exact.tolist(),
                        "what": "squared distances of %s input differ from the exact values at offset %g" % (nm, off)}
            lab = np.asarray(m.predict(data))
            if np.any(exact[lab, np.arange(N)] != exact.min(axis=0)):
                return {"reproduced": True, "cases": cases, "input": {"offset": off, "variant": nm, "n_features": D, "x": x.tolist(), "centroids": cen.tolist()},
                        "observed": lab.tolist(), "expected": exact.argmin(axis=0).tolist(), "what": "predicted label is not a nearest centroid"}
            for i in range(3):
                one_lab = int(np.asarray(m.predict(x[i])).reshape(-1)[0])
                if exact[one_lab, i] != exact[:, i].min():
                    return {"reproduced": True, "cases": cases, "input": {"offset": off, "n_features": D, "x": x[i].tolist(), "centroids": cen.tolist()},
                            "observed": one_lab, "what": "predicted label of a single sample is not a nearest centroid"}
        for i in range(3):
            for data in (x[i], da.from_array(x[i], chunks=(D,))):
                got = np.asarray(m.transform(data)).reshape(-1)
                cases += 1
                if not np.array_equal(got, exact[:, i]):
                    return {"reproduced": True, "cases": cases, "input": {"offset": off, "variant": "single sample"}, "observed": got.tolist(),
                            "expected": exact[:, i].tolist(), "what": "single-sample distances differ from the exact values"}
    return {"reproduced": False, "cases": cases}


def mode_varweights(p):
    import dask.array as da
    from bob.learn.em import KMeansMachine

    def one(seed):
        rs = np.random.RandomState(seed)
        K, D, N = rs.randint(1, 4), rs.randint(1, 4), rs.randint(6, 14)
        x, c = blobs(rs, K, D, N)
        if seed % 3 == 1:
            # samples stored as uint8 (pixels): same values, narrow integer dtype
            lo, hi = x.min(), x.max()
            x = np.round((x - lo) / max(hi - lo, 1e-9) * 250).astype(np.uint8)
            c = np.round((c - lo) / max(hi - lo, 1e-9) * 250)
        m = KMeansMachine(K)
        m.centroids_ = c
        if seed % 4 == 3:
            # the machine was TRAINED on this data and stopped at its iteration cap (assignments still changing)
            m = KMeansMachine(K, init_method=np.array(c, float), max_iter=int(rs.randint(1, 3)), convergence_threshold=None)
            with np.errstate(all="ignore"):
                m.fit(x.astype(float))
            c = np.asarray(m.centroids_)
            if not np.all(np.isfinite(c)):
                return None
        lab = ref_dist(x.astype(float), c).argmin(axis=0)
        if len(set(lab)) < K:
            return None
        w = np.array([np.mean(lab == k) for k in range(K)])
        v = np.array([x[lab == k].astype(float).var(axis=0) for k in range(K)])
        cuts = sorted(set(rs.randint(1, N, size=rs.randint(0, 3)).tolist()))
        chunks = tuple(np.diff([0] + cuts + [N]).tolist())
        if seed % 4 == 2:
            # stored cluster after cluster: early blocks lack the later clusters, late blocks the earlier ones
            order = np.argsort(lab, kind="stable")
            x, lab = x[order], lab[order]
            v = np.array([x[lab == k].astype(float).var(axis=0) for k in range(K)])
        for variant, data in (("numpy", x), ("dask%s" % (chunks,), da.from_array(x, chunks=(chunks, D)))):
            gv, gw = m.get_variances_and_weights_for_each_cluster(data)
            if not close(gw, w, 1e-9) or not close(gv, v, 1e-7):
                return {"input": {"x": x.tolist(), "dtype": str(x.dtype), "centroids": c.tolist(), "variant": variant}, "observed": {"variances": np.asarray(gv).tolist(), "weights": np.asarray(gw).tolist()},
                        "expected": {"variances": v.tolist(), "weights": w.tolist()}, "what": "cluster variances/weights differ from the biased variance / fraction of the assigned samples"}
    return search(one, 100)


def mode_criterion(p):
    """one k-means iteration from explicit centroids: reported criterion, new centroids, chunk independence"""
    import dask.array as da
    from bob.learn.em import KMeansMachine

    def one(seed):
        rs = np.random.RandomState(seed)
        K, D, N = rs.randint(1, 4), rs.randint(1, 3), rs.randint(6, 14)
        if seed % 50 == 7:
            # one realistic-scale block (many clusters x many rows): size-dependent code paths (batching, buffers)
            K, D, N = 64, 2, 70000
            c = rs.uniform(-10, 10, size=(K, D))
            x = c[rs.randint(0, K, size=N)] + rs.normal(size=(N, D)) * 0.05
        elif seed % 5 == 3:
            # quantised samples and centroids on an integer grid: samples exactly equidistant from two centroids occur
            K, D = 2, int(rs.randint(1, 3))
            x = rs.randint(0, 5, size=(N, D)).astype(float)
            c = np.array([[1.0] * D, [3.0] * D])
        else:
            x, c = blobs(rs, K, D, N)
        d = ref_dist(x, c)
        lab = d.argmin(axis=0)
        if len(set(lab)) < K:
            return None
        true = float(d.min(axis=0).mean())
        newc = np.array([x[lab == k].mean(axis=0) for k in range(K)])
        cuts = sorted(set(rs.randint(1, N, size=rs.randint(1, 3)).tolist()))
        if seed % 4 == 1:
            cuts = sorted(set(rs.randint(1, N, size=rs.randint(5, 9)).tolist()))     # MANY row blocks (more than a reduction tree's fan-in), unequal sizes
        chunks = tuple(np.diff([0] + cuts + [N]).tolist())
        if seed % 3 == 0:
            c = np.round(c).astype(int)          # initial centroids typed as integers by the caller
            d = ref_dist(x, c)
            lab = d.argmin(axis=0)
            if len(set(lab)) < K:
                return None
            true = float(d.min(axis=0).mean())
            newc = np.array([x[lab == k].mean(axis=0) for k in range(K)])
        variants = [("numpy", x), ("dask%s" % (chunks,), da.from_array(x, chunks=(chunks, D)))]
        if seed % 5 == 2 and N < 100:
            # integer-typed samples (int16 audio, uint8 pixels) with FRACTIONAL starting centroids
            xi = np.round(x * 8).astype(np.int16)
            ci = c.astype(float) * 8 + 0.37
            di = ref_dist(xi.astype(float), ci)
            labi = di.argmin(axis=0)
            if len(set(labi)) == K:
                for variant, data in (("int16 numpy", xi), ("int16 dask", da.from_array(xi, chunks=(chunks, D)))):
                    m = KMeansMachine(K, init_method=ci.copy(), max_iter=1)
                    m.fit(data)
                    newi = np.array([xi[labi == k].astype(float).mean(axis=0) for k in range(K)])
                    if not close(m.centroids_, newi, 1e-9) or not close(m.average_min_distance, float(di.min(axis=0).mean()), 1e-9):
                        return {"input": {"x": xi.tolist(), "init_centroids": ci.tolist(), "variant": variant}, "observed": np.asarray(m.centroids_).tolist(), "expected": newi.tolist(),
                                "what": "integer-typed samples with fractional starting centroids: the iteration does not start from the centroids given"}
        for variant, data in variants:
            m = KMeansMachine(K, init_method=c.copy(), max_iter=1)
            m.fit(data)
            if not close(m.average_min_distance, true, 1e-9):
                return {"input": {"x": x.tolist() if N < 100 else "%d rows, %d clusters (seed %d)" % (N, K, seed), "init_centroids": c.tolist(), "variant": variant}, "observed": float(m.average_min_distance),
                        "expected": true, "what": "reported average_min_distance is not the mean squared distance to the nearest centroid"}
            if not close(m.centroids_, newc, 1e-9):
                return {"input": {"x": x.tolist() if N < 100 else "%d rows, %d clusters (seed %d)" % (N, K, seed), "init_centroids": c.tolist(), "variant": variant}, "observed": np.asarray(m.centroids_).tolist(),
                        "expected": newc.tolist(), "what": "a returned centroid is not the mean of the samples nearest to its predecessor"}
    return search(one, 100)


def mode_fit_loop(p):
    import bob.learn.em.kmeans as km

    def one(seed):
        rs = np.random.RandomState(seed)
        K = rs.randint(2, 9)
        off = float(rs.choice([1.0, 1e-4, 1e3, 1e-18, 1e-30, 1e12]))      # the rule is RELATIVE: any magnitude of the criterion (data in tiny or huge units)
        L = list(off * (1 + np.cumsum(rs.uniform(0.0, 1.0, size=12))[::-1] * rs.choice([1e-3, 1.0, 2e-5])))
        L = [None] + L
        if seed % 2:
            j = rs.randint(1, 10)
            L[j + 1] = L[j] * (1 + rs.choice([0.0, 1e-6, -1e-6, 9e-6]))
        thr = rs.choice([None, 1e-5, 1e-3])
        if seed % 3 == 0:
            k0 = int(rs.randint(2, 9))      # a threshold just below / above the relative change of some iteration
            thr = abs((L[k0 - 1] - L[k0]) / L[k0 - 1]) * float(rs.choice([0.97, 1.03]))
        mx = rs.choice([None, K]) if thr is not None else K
        calls = []
        real_m, real_e = km.m_step, km.e_step
        km.e_step = lambda data, means: (np.ones(1), np.ones((1, 1)), 0.0)

        # the centroids of successive iterations: far from the origin and moving slowly in some runs -- the stopping rule
        # looks at the criterion only, never at the centroid coordinates
        c_off, c_step = float(rs.choice([0.0, 1e6])), float(rs.choice([1.0, 1e-3]))

        def fake_m(stats, n):
            calls.append(1)
            return np.full((1, 1), c_off + c_step * len(calls)), float(L[len(calls)])
        km.m_step = fake_m
        try:
            exp = None
            for k in range(2, 12):
                if thr is not None and abs((L[k - 1] - L[k]) / L[k - 1]) <= thr:
                    exp = k
                    break
            if mx is not None:
                exp = mx if exp is None else min(exp, mx)
            if exp is None:
                return None
            m = km.KMeansMachine(1, init_method=np.zeros((1, 1)), convergence_threshold=thr, max_iter=mx)
            if seed % 3 == 2:
                # a machine that has been fitted before (re-training / warm start): it carries the criterion of that run
                m.average_min_distance = float(L[1] * (1 + rs.choice([0.0, 1e-7, -1e-4])))
                m.centroids_ = np.zeros((1, 1))
            m.fit(np.zeros((3, 1)))
        finally:
            km.m_step, km.e_step = real_m, real_e
        if len(calls) != exp or m.centroids_[0, 0] != c_off + c_step * exp or m.average_min_distance != L[exp]:
            return {"input": {"criterion_sequence": L[1:], "threshold": thr, "max_iter": mx},
                    "observed": {"iterations": len(calls), "criterion": m.average_min_distance}, "expected": {"iterations": exp, "criterion": L[exp]},
                    "what": "fit ran %d iterations, the stated rule gives %d" % (len(calls), exp)}
    return search(one, 200)


def mode_affine(p):
    """k-means centroids follow any rotation, uniform scaling and translation of the data (and of the initial centroids);
    a cluster that attracts no sample included: whatever the code leaves there must be the same in both coordinate systems
    (undefined = NaN in both counts as the same)"""
    from bob.learn.em import KMeansMachine

    def one(seed):
        rs = np.random.RandomState(seed)
        K, D = rs.randint(2, 4), rs.randint(1, 4)
        X = np.vstack([rs.normal(size=(6, D)) * 0.5 + c for c in rs.normal(size=(K, D)) * 4])
        init = X[rs.choice(len(X), K, replace=False)].copy()
        if seed % 2:
            init[-1] = X.mean(axis=0) + 50.0          # an initial centroid no sample is nearest to: the cluster stays empty
        Q, _ = np.linalg.qr(rs.normal(size=(D, D)))
        sc, t = float(rs.choice([0.5, 3.0, 1e-2])), rs.normal(size=D) * rs.choice([1.0, 30.0])
        f = lambda A_: sc * (A_ @ Q) + t
        for mx in (1, 2, 5):
            with np.errstate(all="ignore"):
                a = KMeansMachine(K, init_method=init.copy(), max_iter=mx, convergence_threshold=None).fit(X)
                b = KMeansMachine(K, init_method=f(init), max_iter=mx, convergence_threshold=None).fit(f(X))
            ca, cb = f(np.asarray(a.centroids_)), np.asarray(b.centroids_)
            if not np.array_equal(np.isnan(ca), np.isnan(cb)) or not np.allclose(np.nan_to_num(ca), np.nan_to_num(cb), rtol=1e-7, atol=1e-7 * (1 + abs(t).max())):
                return {"input": {"x": X.tolist(), "init_centroids": init.tolist(), "rotation": Q.tolist(), "scale": sc, "shift": t.tolist(), "max_iter": mx},
                        "observed": cb.tolist(), "expected": ca.tolist(),
                        "what": "k-means centroids trained on rotated/scaled/shifted data are not the transformed centroids (max_iter=%d%s)"
                                % (mx, ", one initial centroid attracts no sample" if seed % 2 else "")}
    return search(one, 40)


def mode_empty_cluster(p):
    from bob.learn.em import KMeansMachine, GMMMachine
    if p.get("skip_known"):
        return {"reproduced": False, "cases": 0, "note": "this scenario IS the recorded finding KF-KMEANS-EMPTY"}
    x = np.array([[0.0, 0.0], [0.0, 1.0], [1.0, 0.0], [1.0, 1.0]])
    init = np.array([[0.5, 0.5], [100.0, 100.0]])
    m = KMeansMachine(2, init_method=init.copy(), max_iter=2)
    with np.errstate(all="ignore"):
        m.fit(x)
        bad = not np.all(np.isfinite(m.centroids_)) or not np.isfinite(m.average_min_distance)
        g = GMMMachine(2, k_means_trainer=KMeansMachine(2, init_method=init.copy(), max_iter=1), max_fitting_steps=0)
        try:
            g.fit(x)
            gbad = not (np.all(np.isfinite(g.means)) and np.all(np.isfinite(g.variances)) and np.all(g.weights > 0))
        except Exception as e:
            gbad = True
    if bad or gbad:
        return {"reproduced": True, "known_finding": "KF-KMEANS-EMPTY", "input": {"x": x.tolist(), "init_centroids": init.tolist()},
                "observed": {"centroids": np.asarray(m.centroids_).tolist(), "criterion": float(m.average_min_distance)},
                "expected": "finite centroids", "what": "a cluster that captures no sample makes the centroids (and the GMM initialised from them) NaN"}
    return {"reproduced": False}


MODES = {k[5:]: v for k, v in list(globals().items()) if k.startswith("mode_")}

if __name__ == "__main__":
    mode, params = sys.argv[1], json.loads(sys.argv[2]) if len(sys.argv) > 2 else {}
    import dask
    dask.config.set(scheduler="synchronous")
    try:
        r = MODES[mode](params)
    except Exception as e:
        import traceback
        tb = traceback.format_exc()
        inside = "/bob/learn/em/" in tb
        r = {"reproduced": bool(inside), "what": "the real code raised %s: %s" % (type(e).__name__, e), "traceback": tb[-1500:], "harness_error": not inside}
    print(json.dumps(r, default=lambda o: np.asarray(o).tolist()))
