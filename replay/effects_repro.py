"""native before/after checks: inputs bit-identical, results not aliasing inputs (C19); determinism w.r.t.
the global RNG and sample order (C16); chunking / isolated-worker independence of array training (C04)"""
import copy
import pickle
import numpy as np
from common_repro import *


def snap(x):
    return copy.deepcopy(x)


def same_stats(a, b):
    return all(np.array_equal(getattr(a, f), getattr(b, f)) for f in ("n", "sum_px", "sum_pxx")) and a.t == b.t and a.log_likelihood == b.log_likelihood


def same_gmm(a, b):
    return all(np.array_equal(np.asarray(getattr(a, f)), np.asarray(getattr(b, f))) for f in ("weights", "means", "variances", "variance_thresholds"))


def mode_inputs(p):
    from bob.learn.em import GMMMachine, GMMStats, KMeansMachine, IVectorMachine, linear_scoring, WCCN, Whitening

    def one(seed):
        rs = np.random.RandomState(seed)
        C, D = 2, 2
        X = rs.normal(size=(30, D)) + 3
        X0 = X.copy()
        ubm = mk_gmm(C, D, seed)
        if seed % 2:
            ubm.variance_thresholds = 1e-6
            ubm.variances = np.array([[1e-3, 2e-3], [0.5, 0.7]])
        if seed % 3 == 2:
            ubm.variance_thresholds = np.full((C, D), 1e-4) if seed % 2 else np.full((D,), 1e-4)      # array-valued floors
        u0 = snap(ubm)
        x5 = rs.normal(size=(5, D)) + 3
        ll0 = ubm.log_likelihood(x5).copy()
        # MAP adaptation
        m = GMMMachine(C, trainer="map", ubm=ubm, update_means=True, update_variances=True, update_weights=True, max_fitting_steps=2)
        m.fit(X)
        if not np.array_equal(X, X0):
            return {"what": "GMM MAP fit modified the training array"}
        if not same_gmm(ubm, u0) or not np.array_equal(ubm.log_likelihood(x5), ll0):
            return {"what": "GMM MAP fit modified the prior machine"}
        for f in ("means", "variances", "weights", "variance_thresholds"):
            if np.shares_memory(np.asarray(getattr(m, f)), np.asarray(getattr(ubm, f))) or np.shares_memory(np.asarray(getattr(m, f)), X):
                return {"input": {"prior_floor_shape": list(np.shape(ubm.variance_thresholds))}, "what": "MAP-adapted %s share memory with the prior / the data" % f}
        m2 = GMMMachine(C, trainer="map", ubm=ubm)
        for f in ("means", "variances", "weights", "variance_thresholds"):
            if np.ndim(getattr(ubm, f)) and np.shares_memory(np.asarray(getattr(m2, f)), np.asarray(getattr(ubm, f))):
                return {"input": {"prior_floor_shape": list(np.shape(ubm.variance_thresholds))}, "what": "a machine constructed from a prior shares its %s array with the prior" % f}
        # statistics, scoring
        st = [ubm.acc_stats(X[:10]), ubm.acc_stats(X[10:])]
        st0 = snap(st)
        _ = st[0] + st[1]
        _ = linear_scoring([m], ubm, st, 0, True)
        if not all(same_stats(a, b) for a, b in zip(st, st0)) or not same_gmm(ubm, u0):
            return {"what": "statistics addition / linear_scoring modified its inputs"}
        # k-means with explicit initial centroids
        init = X[:2].copy()
        i0 = init.copy()
        km = KMeansMachine(2, init_method=init, max_iter=2).fit(X)
        if not np.array_equal(init, i0) or not np.array_equal(X, X0) or np.shares_memory(km.centroids_, init) or np.shares_memory(km.centroids_, X):
            return {"what": "k-means modified or aliases the data / the initial centroids"}
        # warm start: the initial centroids are already a fixed point (centroids of a converged run on the same data)
        conv = KMeansMachine(2, init_method=X[:2].copy(), max_iter=50, convergence_threshold=None).fit(X)
        init2 = np.array(conv.centroids_, copy=True)
        i2 = init2.copy()
        km2 = KMeansMachine(2, init_method=init2, max_iter=3).fit(X)
        if not np.array_equal(init2, i2) or np.shares_memory(km2.centroids_, init2):
            return {"what": "k-means started from converged centroids modifies or aliases the caller's initial-centroid array"}
        # i-vector: both covariance modes, floor above some UBM variances
        data = [ubm.acc_stats(X[i * 6:(i + 1) * 6]) for i in range(5)]
        d0 = snap(data)
        for upd in (True, False):
            np.random.seed(1)
            iv = IVectorMachine(ubm, dim_t=2, max_iterations=2, update_sigma=upd, variance_floor=1e-2).fit(data)
            _ = iv.project(data[0])
            if not same_gmm(ubm, u0) or not np.array_equal(ubm.log_likelihood(x5), ll0):
                return {"input": {"update_sigma": upd, "variance_floor": 1e-2}, "what": "i-vector training modified the UBM"}
            if not all(same_stats(a, b) for a, b in zip(data, d0)):
                return {"what": "i-vector training modified the statistics"}
            if np.shares_memory(iv.sigma, ubm.variances) or np.shares_memory(iv.T, ubm.means):
                return {"input": {"update_sigma": upd}, "what": "trained i-vector parameters share memory with the UBM"}
        # WCCN / whitening
        y = np.arange(30) % 3
        y0 = y.copy()
        w = WCCN().fit(X, y)
        wh = Whitening().fit(X)
        if not np.array_equal(X, X0) or not np.array_equal(y, y0) or np.shares_memory(np.asarray(wh.input_subtract), X):
            return {"what": "WCCN / whitening modified or aliases its inputs"}
    return search(one, 6)


def mode_determinism(p):
    from bob.learn.em import GMMMachine, KMeansMachine, WCCN

    def one(seed):
        rs = np.random.RandomState(seed)
        X = np.vstack([rs.normal(size=(20, 2)), rs.normal(size=(20, 2)) + 6])

        def train():
            k = KMeansMachine(2, random_state=3, max_iter=3, init_method="random").fit(X)
            g = GMMMachine(2, random_state=3, max_fitting_steps=2, k_means_trainer=KMeansMachine(2, random_state=3, max_iter=2, init_method="random")).fit(X)
            return k.centroids_, g.means
        np.random.seed(0)
        a = train()
        np.random.seed(12345)
        np.random.rand(7)
        b = train()
        if not all(np.array_equal(x, y) for x, y in zip(a, b)):
            return {"what": "k-means / GMM training depends on the state of NumPy's global generator"}
        # ISV / JFA: the random initialisation of U, V, D is a function of random_state only (0 included)
        from bob.learn.em import ISVMachine, JFAMachine, GMMStats
        ubm = GMMMachine(2)
        ubm.means, ubm.variances, ubm.weights = rs.normal(size=(2, 3)), rs.uniform(0.5, 2, size=(2, 3)), np.array([0.4, 0.6])
        stats, labels = [], []
        for j in range(6):
            s_ = GMMStats(2, 3)
            s_.n = rs.uniform(1, 5, size=2)
            s_.sum_px = s_.n[:, None] * rs.normal(size=(2, 3))
            s_.sum_pxx = s_.n[:, None] * rs.uniform(1, 2, size=(2, 3))
            s_.t = int(s_.n.sum()) + 1
            stats.append(s_)
            labels.append(j % 3)
        for rstate in (0, 7):
            def fa():
                i_ = ISVMachine(r_U=2, em_iterations=1, ubm=ubm, random_state=rstate).fit(stats, labels)
                j_ = JFAMachine(r_U=2, r_V=2, em_iterations=1, ubm=ubm, random_state=rstate).fit(stats, labels)
                return [np.array(i_.U), np.array(j_.U), np.array(j_.V), np.array(j_.D)]
            np.random.seed(1)
            a = fa()
            np.random.seed(99)
            np.random.rand(3)
            b = fa()
            if not all(np.array_equal(x, y) for x, y in zip(a, b)):
                return {"input": {"random_state": rstate}, "what": "ISV / JFA training with a fixed random_state depends on the state of NumPy's global generator"}
        # WCCN: sample order and label names (ids that collide in a set's hash table included)
        Z = rs.normal(size=(12, 3))
        for labels in (np.repeat([0, 1, 2], 4), np.repeat([1, 9, 17], 4), np.repeat([3, 11, 5], 4), np.repeat([-1, 0, 1], 4)):
            ref = np.asarray(WCCN().fit(Z, labels).weights)
            for _ in range(4):
                perm = rs.permutation(12)
                got = np.asarray(WCCN().fit(Z[perm], labels[perm]).weights)
                if not close(got, ref, 1e-8):
                    return {"input": {"labels": labels.tolist(), "order": perm.tolist()}, "what": "WCCN depends on the order in which the labelled samples are presented"}
    return search(one, 6)


class IsolatedScheduler:
    """a synchronous dask scheduler that pickles every task's inputs and outputs (isolated workers)"""

    def __call__(self, dsk, keys, **kw):
        import dask
        from dask.local import get_sync

        def wrap(v):
            return pickle.loads(pickle.dumps(v))
        new = {}
        for k, task in dsk.items():
            new[k] = task
        return wrap(get_sync(dsk, keys, **kw))


def mode_chunking(p):
    """GMM / k-means on Dask arrays: every row chunking, feature-axis chunks, isolated (copied) M-step results"""
    import dask
    import dask.array as da
    import bob.learn.em.gmm as g
    from bob.learn.em import GMMMachine, KMeansMachine

    def one(seed):
        rs = np.random.RandomState(seed)
        X = np.vstack([rs.normal(size=(17, 2)), rs.normal(size=(23, 2)) + 5])
        init = X[[0, 20]].copy()

        def gm(data, isolated=False):
            m = GMMMachine(2, max_fitting_steps=4, convergence_threshold=1e-4, update_means=True, update_variances=True, update_weights=True)
            m.means, m.variances = init.copy(), np.ones((2, 2))
            real = g.m_step
            if isolated:
                # the M-step runs on a serialised copy of the machine and returns a copy (what a process/distributed executor does)
                g.m_step = lambda stats, machine: pickle.loads(pickle.dumps(real(pickle.loads(pickle.dumps(stats)), pickle.loads(pickle.dumps(machine)))))
            try:
                m.fit(data)
            finally:
                g.m_step = real
            return m
        ref = gm(X)
        kref = KMeansMachine(2, init_method=init.copy(), max_iter=3).fit(X)
        for chunks in (((40,), (2,)), ((13, 27), (2,)), ((1, 39), (2,)), ((10, 10, 10, 10), (2,)), ((40,), (1, 1)), ((7, 33), (1, 1))):
            d = da.from_array(X, chunks=chunks)
            for iso in (False, True):
                got = gm(d, iso)
                for f in ("weights", "means", "variances"):
                    if not close(getattr(got, f), getattr(ref, f), 1e-8):
                        return {"input": {"chunks": [list(c) for c in chunks], "isolated_m_step": iso}, "field": f,
                                "observed": np.asarray(getattr(got, f)).tolist(), "expected": np.asarray(getattr(ref, f)).tolist(),
                                "what": "GMM trained on a Dask array differs from the in-memory result"}
            k = KMeansMachine(2, init_method=init.copy(), max_iter=3).fit(d)
            if not close(k.centroids_, kref.centroids_, 1e-9) or not close(k.average_min_distance, kref.average_min_distance, 1e-9):
                return {"input": {"chunks": [list(c) for c in chunks]}, "what": "k-means on a Dask array differs from the in-memory result (centroids / criterion)"}
    return search(one, 3)


main({"inputs": mode_inputs, "determinism": mode_determinism, "chunking": mode_chunking})
