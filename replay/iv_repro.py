import numpy as np
from common_repro import *


def mk_iv(seed, C, D, R, **kw):
    from bob.learn.em import IVectorMachine
    rs = np.random.RandomState(seed)
    ubm = mk_gmm(C, D, seed)
    m = IVectorMachine(ubm, dim_t=R, **kw)
    m.dim_c, m.dim_d = C, D
    m.T = rs.normal(size=(C, D, R))
    m.sigma = rs.uniform(0.5, 2, size=(C, D))
    return m


def mk_stats(rs, C, D, zero=None, scale=1.0):
    from bob.learn.em import GMMStats
    s = GMMStats(C, D)
    s.n = rs.uniform(0.5, 6, size=C) * scale
    if zero is not None:
        s.n[zero] = 0.0
    x = rs.normal(size=(C, D)) + 3
    s.sum_px = s.n[:, None] * x
    s.sum_pxx = s.n[:, None] * (x ** 2 + rs.uniform(0.1, 1, size=(C, D)))
    s.t = float(s.n.sum())
    return s


def marginal(m, data):
    C, D, R = m.T.shape
    mu = m.ubm.means
    tot = 0.0
    for s in data:
        P = np.eye(R)
        b = np.zeros(R)
        quad = 0.0
        for c in range(C):
            Tc = m.T[c]
            P += s.n[c] * (Tc.T / m.sigma[c]) @ Tc
            b += (Tc.T / m.sigma[c]) @ (s.sum_px[c] - s.n[c] * mu[c])
            quad += np.sum((s.sum_pxx[c] - 2 * s.sum_px[c] * mu[c] + s.n[c] * mu[c] ** 2) / m.sigma[c]) + s.n[c] * np.sum(np.log(m.sigma[c]))
        tot += -0.5 * quad - 0.5 * np.log(np.linalg.det(P)) + 0.5 * b @ np.linalg.solve(P, b)
    return tot


def mode_all(p):
    from bob.learn.em.ivector import e_step, m_step

    def one(seed):
        rs = np.random.RandomState(seed)
        C, D, R = rs.randint(1, 4), rs.randint(1, 4), rs.randint(1, 3)
        m = mk_iv(seed, C, D, R)
        s = mk_stats(rs, C, D)
        if seed % 3 == 2:
            s.t = 0          # counts and sums filled in by hand (init_fields / an external front-end): the frame counter plays no role in the posterior
        w = m.project(s)
        A = np.eye(R)
        b = np.zeros(R)
        for c in range(C):
            A += s.n[c] * (m.T[c].T / m.sigma[c]) @ m.T[c]
            b += (m.T[c].T / m.sigma[c]) @ (s.sum_px[c] - s.n[c] * m.ubm.means[c])
        if not close(A @ w, b, 1e-8):
            return {"observed": w.tolist(), "expected": np.linalg.solve(A, b).tolist(), "what": "project() is not the solution of (I + Σ N T'S^-1T) w = Σ T'S^-1(F - N m)"}
        # reassign only sigma / only T after the machine has been used: the projection must follow
        for which in ("sigma", "T"):
            if which == "sigma":
                m.sigma = rs.uniform(0.5, 2, size=(C, D))
            else:
                m.T = rs.normal(size=(C, D, R))
            A2, b2 = np.eye(R), np.zeros(R)
            for c in range(C):
                A2 += s.n[c] * (m.T[c].T / m.sigma[c]) @ m.T[c]
                b2 += (m.T[c].T / m.sigma[c]) @ (s.sum_px[c] - s.n[c] * m.ubm.means[c])
            if not close(A2 @ m.project(s), b2, 1e-8):
                return {"what": "after re-assigning %s, project() is not the posterior mean under the machine's current parameters" % which}
        from bob.learn.em import GMMStats
        if not close(m.project(GMMStats(C, D)), np.zeros(R), 1e-12):
            return {"what": "statistics with no frames do not give the zero i-vector"}
        # the M-step formula at small occupation counts (short utterances / many components) and larger subspaces:
        # T'_c solves T'_c E[N w w']_c = E[Fnorm w']_c for every component with data, whatever the scale of the counts
        for scale, R2 in ((1.0, R), (1e-6, 3), (1e-6, 4)):
            mm = mk_iv(seed + 7, C, D, R2, update_sigma=False)
            data = [mk_stats(rs, C, D, None, scale) for _ in range(4)]
            st = e_step(mm, data)
            A_, B_, nij = np.array(st.nij_sigma_wij2), np.array(st.fnorm_sigma_wij), np.array(st.nij)
            m_step(mm, st)
            for c in range(C):
                if nij[c] > 0:
                    lhs, rhs = mm.T[c] @ A_[c], B_[c]
                    if not np.all(np.abs(lhs - rhs) <= 1e-6 * (np.abs(rhs).max() + np.abs(lhs).max())):
                        return {"input": {"count_scale": scale, "dim_t": R2, "component": c, "nij": float(nij[c])},
                                "observed": mm.T[c].tolist(), "what": "after the M-step T_c does not solve T_c E[N w w']_c = E[Fnorm w']_c for a component with data"}
        for upd in (True, False):
            for zero in (None, 0):
                mm = mk_iv(seed, C, D, R, update_sigma=upd, variance_floor=1e-3)
                data = [mk_stats(rs, C, D, zero) for _ in range(4)]
                if upd and zero == 0:
                    # the starved component starts below the floor (sigma is initialised from the UBM variances, which only
                    # respect the GMM's own threshold): after an update every covariance must respect the i-vector floor
                    sg = mm.sigma.copy()
                    sg[0] = 1e-6
                    mm.sigma = sg
                prev = marginal(mm, data)
                for it in range(4):
                    with np.errstate(all="ignore"):
                        m_step(mm, e_step(mm, data))
                    if not (np.all(np.isfinite(mm.T)) and np.all(np.isfinite(mm.sigma))):
                        return {"input": {"zero_count_component": zero, "update_sigma": upd}, "what": "T / sigma not finite after %d iterations" % (it + 1)}
                    if np.any(mm.sigma < 1e-3 - 1e-15):
                        return {"what": "updated covariance below the floor"}
                    cur = marginal(mm, data)
                    if zero is None and cur < prev - 1e-7 * (1 + abs(prev)):
                        return {"observed": [prev, cur], "input": {"update_sigma": upd}, "what": "marginal likelihood decreases in an i-vector EM iteration"}
                    prev = cur
    return search(one, 25)


def mode_bag(p):
    import dask, dask.bag
    from bob.learn.em import IVectorMachine

    def one(seed):
        rs = np.random.RandomState(seed)
        C, D, R = 2, 2, 2
        data = [mk_stats(rs, C, D) for _ in range(rs.randint(3, 8))]
        def fit(X):
            np.random.seed(3)
            return IVectorMachine(mk_gmm(C, D, seed), dim_t=R, max_iterations=2).fit(X)
        ref = fit(data)
        for nparts in range(1, len(data) + 1):
            got = fit(dask.bag.from_sequence(data, npartitions=nparts))
            if not close(got.T, ref.T, 1e-8) or not close(got.sigma, ref.sigma, 1e-8):
                return {"input": {"statistics": len(data), "partitions": nparts}, "what": "i-vector training from a bag with %d partitions differs from list training" % nparts}
    return search(one, 6)


main({"all": mode_all, "bag": mode_bag})
