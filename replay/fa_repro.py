"""Bounded (Tier B) checks and replays for ISV / JFA: the real code is run on exact
rational object arrays (objrun) for every shape of a finite grid and compared
with independent reference formulas written with explicit loops over Fractions.

modes: enroll_blocks, enroll_posterior, phases, score_entry_points, bag_vs_list,
array_vs_list, perm_relabel, inputs_unchanged, affine
Prints one JSON object; "reproduced": true means a violation was found."""
import itertools
import json
import os
import sys
from fractions import Fraction as Fr

import numpy as np

import objrun as O

SEED = int(os.environ.get("VERIF_SEED", "0") or 0)
TIER = os.environ.get("VERIF_TIER", "quick")


# ---------------------------------------------------------------- independent reference (explicit loops)
class Ref:
    def __init__(self, m):
        u = m.ubm
        self.C, self.D = np.asarray(u.means).shape
        self.n = self.C * self.D
        self.m = [u.means[c][d] for c in range(self.C) for d in range(self.D)]
        self.sig = [u.variances[c][d] for c in range(self.C) for d in range(self.D)]
        self.U = [[m._U[i][r] for r in range(m._U.shape[1])] for i in range(self.n)]
        self.rU = m._U.shape[1]
        self.V = [[m._V[i][r] for r in range(m._V.shape[1])] for i in range(self.n)] if not isinstance(m._V, int) else None
        self.rV = len(self.V[0]) if self.V else 0
        self.Dv = [m._D[i] for i in range(self.n)]

    def c(self, i):
        return i // self.D

    def Vy(self, y, i):
        return sum(self.V[i][r] * y[r] for r in range(self.rV)) if self.V and y is not None else Fr(0)

    def Ux(self, x, i):
        return sum(self.U[i][r] * x[r] for r in range(self.rU))

    def solve(self, P, b):
        return [v for v in (O.inv_exact(O.arr(P)) @ O.arr(b))]

    def upd_y(self, X, xs, z):
        N = [sum(s.n[c] for s in X) for c in range(self.C)]
        F = [sum(s.sum_px[i // self.D][i % self.D] for s in X) for i in range(self.n)]
        P = [[Fr(int(r == s_)) + sum(N[self.c(i)] * self.V[i][r] * self.V[i][s_] / self.sig[i] for i in range(self.n)) for s_ in range(self.rV)] for r in range(self.rV)]
        res = [F[i] - N[self.c(i)] * (self.m[i] + self.Dv[i] * z[i]) - sum(s.n[self.c(i)] * self.Ux(xs[h], i) for h, s in enumerate(X)) for i in range(self.n)]
        b = [sum(self.V[i][r] / self.sig[i] * res[i] for i in range(self.n)) for r in range(self.rV)]
        return self.solve(P, b)

    def upd_x(self, s, y, z):
        P = [[Fr(int(r == q)) + sum(s.n[self.c(i)] * self.U[i][r] * self.U[i][q] / self.sig[i] for i in range(self.n)) for q in range(self.rU)] for r in range(self.rU)]
        res = [s.sum_px[i // self.D][i % self.D] - s.n[self.c(i)] * (self.m[i] + self.Dv[i] * z[i] + self.Vy(y, i)) for i in range(self.n)]
        b = [sum(self.U[i][r] / self.sig[i] * res[i] for i in range(self.n)) for r in range(self.rU)]
        return self.solve(P, b)

    def upd_z(self, X, xs, y):
        N = [sum(s.n[c] for s in X) for c in range(self.C)]
        F = [sum(s.sum_px[i // self.D][i % self.D] for s in X) for i in range(self.n)]
        out = []
        for i in range(self.n):
            res = F[i] - N[self.c(i)] * (self.m[i] + self.Vy(y, i)) - sum(s.n[self.c(i)] * self.Ux(xs[h], i) for h, s in enumerate(X))
            out.append(self.Dv[i] / self.sig[i] * res / (1 + self.Dv[i] ** 2 * N[self.c(i)] / self.sig[i]))
        return out

    def logpost(self, X, y, xs, z):
        """joint log posterior of the enrolment statistics up to a constant (exact)"""
        tot = Fr(0)
        for h, s in enumerate(X):
            for i in range(self.n):
                mu = self.m[i] + self.Vy(y, i) + self.Ux(xs[h], i) + self.Dv[i] * z[i]
                tot += -(s.n[self.c(i)] * mu * mu - 2 * s.sum_px[i // self.D][i % self.D] * mu) / (2 * self.sig[i])
        tot += -sum(v * v for v in z) / 2 - sum(v * v for x in xs for v in x) / 2
        if y is not None:
            tot += -sum(v * v for v in y) / 2
        return tot

    def enroll(self, X, iters, jfa):
        z = [Fr(0)] * self.n
        xs = [[Fr(0)] * self.rU for _ in X]
        y = [Fr(0)] * self.rV if jfa else None
        traj = []
        for _ in range(iters):
            if jfa:
                y = self.upd_y(X, xs, z)
            xs = [self.upd_x(s, y, z) for s in X]
            z = self.upd_z(X, xs, y)
            traj.append(self.logpost(X, y, xs, z))
        return y, xs, z, traj


def grid():
    if TIER == "thorough":
        return [(C, D, rU, rV, H) for C in (1, 2) for D in (1, 2) for rU in (1, 2) for rV in (1, 2) for H in (1, 2, 3)]
    return [(1, 1, 1, 1, 1), (2, 1, 1, 2, 2), (1, 2, 2, 1, 2), (2, 2, 1, 1, 3), (2, 2, 2, 2, 2)]


def eq(a, b):
    return O.same(O.arr(a), O.arr(b))


def corner_sessions(X, C, D, case):
    """corner cases of a session list (the statements quantify over ALL statistics): a session without any frame
    (all-zero counts and sums) and two sessions with exactly equal occupation counts"""
    from fractions import Fraction as Fr_
    if len(X) >= 2 and case % 3 == 1:
        s = X[0]
        s.n = O.arr([Fr_(0)] * C)
        s.sum_px = O.arr([[Fr_(0)] * D for _ in range(C)])
        s.sum_pxx = O.arr([[Fr_(0)] * D for _ in range(C)])
        s.t = 0
    if len(X) >= 2 and case % 3 == 2:
        X[-1].n = X[-2].n.copy()
    return X


def mode_enroll_blocks(p):
    """C07.block.{y,x,z}, C07.order, C07.return: enrol == the reference block updates in the stated order"""
    O.install()
    cases = 0
    for (C, D, rU, rV, H) in grid():
        for kind in ("isv", "jfa"):
            for iters in (1, 2, 3):
                rs = np.random.RandomState(SEED * 100 + cases)
                m = O.mk_machine(rs, kind, C, D, rU, rV, enroll_iterations=iters)
                X = corner_sessions([O.mk_stats(rs, C, D) for _ in range(H)], C, D, cases)
                got = m.enroll(X)
                y, xs, z, _ = Ref(m).enroll(X, iters, kind == "jfa")
                cases += 1
                if kind == "isv":
                    got = O.asarr(got).reshape(-1)      # ISV returns the (1, C*D) block of its single class
                ok = eq(got, z) if kind == "isv" else (eq(got[0], y) and eq(got[1], z))
                if not ok:
                    return {"reproduced": True, "cases": cases, "shape": dict(C=C, D=D, rU=rU, rV=rV, sessions=H), "machine": kind, "iterations": iters,
                            "observed": O.as_list(got if kind == "isv" else np.concatenate([got[0], got[1]])),
                            "expected": O.as_list(z if kind == "isv" else list(y) + list(z)),
                            "what": "%s enrolment with %d iterations differs from block coordinate ascent (y, x, z order) on the joint posterior" % (kind.upper(), iters)}
    return {"reproduced": False, "cases": cases, "grid": [list(g) for g in grid()]}


def mode_enroll_posterior(p):
    """the joint posterior never decreases when one more enrolment iteration is allowed (exact rationals)"""
    O.install()
    cases = 0
    for (C, D, rU, rV, H) in grid():
        for kind in ("isv", "jfa"):
            rs = np.random.RandomState(SEED * 100 + 17 + cases)
            base = O.mk_machine(rs, kind, C, D, rU, rV)
            X = [O.mk_stats(rs, C, D) for _ in range(H)]
            ref = Ref(base)
            prev = None
            vals = []
            for iters in range(1, 6 if TIER == "thorough" else 5):
                base.enroll_iterations = iters
                got = base.enroll(X)
                z = list(O.asarr(got).reshape(-1)) if kind == "isv" else list(got[1])
                y = None if kind == "isv" else list(got[0])
                # the x-block that goes with the returned (y, z) is the one computed in the last sweep:
                # re-derive it from the previous z (reference x-update), then evaluate the posterior at the returned point
                yy, xs, zz, traj = ref.enroll(X, iters, kind == "jfa")
                lp = ref.logpost(X, y, xs, z)
                vals.append(lp)
                cases += 1
                exact = not isinstance(lp, float) and not isinstance(prev, float)
                if prev is not None and (lp < prev if exact else float(lp) < float(prev) - 1e-9 * (1 + abs(float(prev)))):
                    return {"reproduced": True, "cases": cases, "shape": dict(C=C, D=D, rU=rU, rV=rV, sessions=H), "machine": kind,
                            "observed": [float(v) for v in vals], "what": "joint log-posterior decreases from %d to %d enrolment iterations" % (iters - 1, iters)}
                prev = lp
    return {"reproduced": False, "cases": cases}


# ---------------------------------------------------------------- JFA phases (C09)
def marginal_ll(N, F, m, sig, W, C, D):
    """marginal log-likelihood (up to a constant) of class statistics under mean = m + W w, w ~ N(0,I)  (float)"""
    n = C * D
    tot = 0.0
    for Ni, Fi in zip(N, F):
        R = len(W[0])
        P = np.eye(R)
        b = np.zeros(R)
        for i in range(n):
            wi = np.array([float(W[i][r]) for r in range(R)])
            P += float(Ni[i // D]) * np.outer(wi, wi) / float(sig[i])
            b += wi / float(sig[i]) * (float(Fi[i]) - float(Ni[i // D]) * float(m[i]))
        tot += -0.5 * np.log(np.linalg.det(P)) + 0.5 * b @ np.linalg.solve(P, b)
    return tot


def mode_phases(p):
    """C09: one E/M pair of each JFA phase equals exact EM of that phase's factor-analysis model; the
    marginal likelihood of the V phase is non-decreasing over iterations; shapes are kept"""
    O.install()
    cases = 0
    for (C, D, rU, rV, H) in grid()[: (None if TIER == "thorough" else 4)]:
        for ncls in (2, 3):
            rs = np.random.RandomState(SEED * 100 + 31 + cases)
            m = O.mk_machine(rs, "jfa", C, D, rU, rV)
            if ncls == 3:
                # a residual scale with exact zeros (the [0, 1, 0, 1, ...] pattern; D = 0 switches the residual term off)
                from fractions import Fraction as _Fr
                dz = m._D.copy()
                dz[::2] = _Fr(0)
                m._D = dz
            sizes = [int(rs.randint(1, 3)) for _ in range(ncls)]
            X, y = [], []
            for k, sz in enumerate(sizes):
                for _ in range(sz):
                    X.append(O.mk_stats(rs, C, D))
                    y.append(k)
            if ncls == 3:
                X[-1].n = X[0].n.copy()        # two sessions with exactly equal occupation counts
                if sizes[0] >= 2:
                    X[1].n = X[0].n.copy()
            n_acc, f_acc = m._sum_n_statistics(X, y, ncls), m._sum_f_statistics(X, y, ncls)
            ref = Ref(m)
            n = C * D
            # ---- V phase
            V0 = [row[:] for row in ref.V]
            lls = []
            for it in range(1):
                ref = Ref(m)
                A1 = [[[Fr(0)] * rV for _ in range(rV)] for _ in range(C)]
                A2 = [[Fr(0)] * rV for _ in range(n)]
                Ncls, Fcls = [], []
                for k in range(ncls):
                    Xk = [s for s, l in zip(X, y) if l == k]
                    yk = ref.upd_y(Xk, [[Fr(0)] * rU for _ in Xk], [Fr(0)] * n)
                    N = [sum(s.n[c] for s in Xk) for c in range(C)]
                    F = [sum(s.sum_px[i // D][i % D] for s in Xk) for i in range(n)]
                    Ncls.append(N)
                    Fcls.append(F)
                    P = [[Fr(int(r == q)) + sum(N[i // D] * ref.V[i][r] * ref.V[i][q] / ref.sig[i] for i in range(n)) for q in range(rV)] for r in range(rV)]
                    Phi = O.inv_exact(O.arr(P))
                    for c in range(C):
                        for r in range(rV):
                            for q in range(rV):
                                A1[c][r][q] += N[c] * (Phi[r][q] + yk[r] * yk[q])
                    for i in range(n):
                        for r in range(rV):
                            A2[i][r] += (F[i] - N[i // D] * ref.m[i]) * yk[r]
                lls.append(marginal_ll(Ncls, Fcls, ref.m, ref.sig, ref.V, C, D))
                acc = m.e_step_v(X, y, sizes, n_acc, f_acc)
                if not (eq(acc[0], A1) and eq(acc[1], A2)):
                    return {"reproduced": True, "cases": cases, "phase": "V", "what": "V-phase accumulators differ from N(Phi + y y') / Fnorm y' of the exact posterior",
                            "observed": O.as_list(acc[0]), "expected": O.as_list(O.arr(A1))}
                newV = m.m_step_v([acc])
                expV = []
                for i in range(n):
                    inv = O.inv_exact(O.arr(A1[i // D]))
                    expV.append([sum(A2[i][s_] * inv[s_][r] for s_ in range(rV)) for r in range(rV)])
                if not eq(newV, expV) or np.asarray(m._V).shape != (n, rV):
                    return {"reproduced": True, "cases": cases, "phase": "V", "what": "V M-step is not A2_c A1_c^-1 / shape changed",
                            "observed": O.as_list(newV), "expected": O.as_list(O.arr(expV))}
                cases += 1
            # keep the rationals small for the next phases (each E/M pair is checked exactly from its own start)
            m._V = O.arr([[Fr(v).limit_denominator(50) for v in row] for row in m._V])
            # ---- U phase (speaker factors fixed at the V-phase point estimates)
            latent_y = m.finalize_v(X, y, sizes, n_acc, f_acc)
            ref = Ref(m)
            A1 = [[[Fr(0)] * rU for _ in range(rU)] for _ in range(C)]
            A2 = [[Fr(0)] * rU for _ in range(n)]
            for k in range(ncls):
                Xk = [s for s, l in zip(X, y) if l == k]
                yk = [latent_y[k][r] for r in range(rV)]
                for s in Xk:
                    xh = ref.upd_x(s, yk, [Fr(0)] * n)
                    P = [[Fr(int(r == q)) + sum(s.n[i // D] * ref.U[i][r] * ref.U[i][q] / ref.sig[i] for i in range(n)) for q in range(rU)] for r in range(rU)]
                    Phi = O.inv_exact(O.arr(P))
                    for c in range(C):
                        for r in range(rU):
                            for q in range(rU):
                                A1[c][r][q] += s.n[c] * (Phi[r][q] + xh[r] * xh[q])
                    for i in range(n):
                        res = s.sum_px[i // D][i % D] - s.n[i // D] * (ref.m[i] + ref.Vy(yk, i))
                        for r in range(rU):
                            A2[i][r] += res * xh[r]
            acc = m.e_step_u(X, y, sizes, latent_y)
            if not (eq(acc[0], A1) and eq(acc[1], A2)):
                return {"reproduced": True, "cases": cases, "phase": "U", "what": "U-phase accumulators differ from the exact posterior moments (hand-over of y from the V phase included)",
                        "observed": O.as_list(acc[0]), "expected": O.as_list(O.arr(A1))}
            newU = m.m_step_u([acc])
            m_U_small = O.arr([[Fr(v).limit_denominator(50) for v in row] for row in m._U])
            expU = []
            for i in range(n):
                inv = O.inv_exact(O.arr(A1[i // D]))
                expU.append([sum(A2[i][s_] * inv[s_][r] for s_ in range(rU)) for r in range(rU)])
            if not eq(newU, expU) or np.asarray(m._U).shape != (n, rU):
                return {"reproduced": True, "cases": cases, "phase": "U", "what": "U M-step is not A2_c A1_c^-1 / shape changed"}
            # ---- D phase
            m._U = m_U_small
            latent_y = O.arr([[Fr(v).limit_denominator(50) for v in row] for row in latent_y])
            latent_x = m.finalize_u(X, y, sizes, latent_y)
            latent_x = [O.arr([[Fr(v).limit_denominator(50) for v in row] for row in lx]) for lx in latent_x]
            ref = Ref(m)
            A1d, A2d = [Fr(0)] * n, [Fr(0)] * n
            for k in range(ncls):
                Xk = [s for s, l in zip(X, y) if l == k]
                yk = [latent_y[k][r] for r in range(rV)]
                xs = [[latent_x[k][r][h] for r in range(rU)] for h in range(len(Xk))]
                zk = ref.upd_z(Xk, xs, yk)
                N = [sum(s.n[c] for s in Xk) for c in range(C)]
                F = [sum(s.sum_px[i // D][i % D] for s in Xk) for i in range(n)]
                for i in range(n):
                    var = 1 / (1 + ref.Dv[i] ** 2 * N[i // D] / ref.sig[i])
                    res = F[i] - N[i // D] * (ref.m[i] + ref.Vy(yk, i)) - sum(s.n[i // D] * ref.Ux(xs[h], i) for h, s in enumerate(Xk))
                    A1d[i] += (var + zk[i] * zk[i]) * N[i // D]
                    A2d[i] += res * zk[i]
            acc = m.e_step_d(X, y, sizes, latent_x, latent_y, n_acc, f_acc)
            if not (eq(acc[0], A1d) and eq(acc[1], A2d)):
                return {"reproduced": True, "cases": cases, "phase": "D", "what": "D-phase accumulators differ from the exact posterior moments"}
            newD = m.m_step_d([acc])
            if not eq(newD, [a2 / a1 for a1, a2 in zip(A1d, A2d)]) or np.asarray(m._D).shape != (n,):
                return {"reproduced": True, "cases": cases, "phase": "D", "what": "D M-step is not A2 / A1 / shape changed"}
            cases += 1
    return {"reproduced": False, "cases": cases}


def mode_phase_ascent(p):
    """C09 ascent clause: within each JFA phase the marginal likelihood of the training statistics under that phase's
    factor-analysis model never decreases over E/M iterations (real code in float64, relative tolerance 1e-9)"""
    O.uninstall()
    from bob.learn.em import GMMMachine, GMMStats, JFAMachine
    cases = 0
    for trial in range(4 if TIER != "thorough" else 12):
        rs = np.random.RandomState(SEED * 100 + 97 + trial)
        C, D, rU, rV = int(rs.randint(1, 3)), int(rs.randint(1, 3)), int(rs.randint(1, 3)), int(rs.randint(1, 3))
        ubm = GMMMachine(C)
        ubm.means = rs.normal(size=(C, D))
        ubm.variances = rs.uniform(0.5, 2.0, size=(C, D))
        ncls = int(rs.randint(2, 4))
        sizes = [int(rs.randint(1, 4)) for _ in range(ncls)]
        X, y = [], []
        for k, sz in enumerate(sizes):
            for _ in range(sz):
                s = GMMStats(C, D)
                s.n = rs.uniform(0.5, 20, size=C)
                s.sum_px = s.n[:, None] * (ubm.means + rs.normal(size=(C, D)))
                s.t = float(s.n.sum())
                X.append(s)
                y.append(k)
        m = JFAMachine(r_U=rU, r_V=rV, ubm=ubm, random_state=trial)
        m.create_UVD()
        m._D = np.abs(rs.normal(size=C * D)) + 0.5
        n = C * D
        mvec, sig = ubm.means.flatten(), ubm.variances.flatten()
        n_acc, f_acc = m._sum_n_statistics(X, y, ncls), m._sum_f_statistics(X, y, ncls)
        rep = lambda v: np.repeat(v, D)

        def fa_ll(groups, W):
            tot = 0.0
            for N, Fn in groups:          # N: (C,), Fn: (n,) residual first-order statistics
                Wn = W / sig[:, None]
                P = np.eye(W.shape[1]) + (Wn * rep(N)[:, None]).T @ W
                b = Wn.T @ Fn
                tot += -0.5 * np.log(np.linalg.det(P)) + 0.5 * b @ np.linalg.solve(P, b)
            return tot
        # V phase
        groups = [(n_acc[k], f_acc[k].flatten() - rep(n_acc[k]) * mvec) for k in range(ncls)]
        lls = [fa_ll(groups, m._V)]
        for it in range(6):
            m.m_step_v([m.e_step_v(X, y, sizes, n_acc, f_acc)])
            lls.append(fa_ll(groups, m._V))
        for phase, seq in (("V", lls),):
            for a_, b_ in zip(seq, seq[1:]):
                if b_ < a_ - 1e-9 * (1 + abs(a_)):
                    return {"reproduced": True, "phase": phase, "observed": seq, "what": "marginal likelihood of the %s phase decreases" % phase}
        latent_y = m.finalize_v(X, y, sizes, n_acc, f_acc)
        # U phase: per session, offset m + V y_class
        groups = [(s.n, s.sum_px.flatten() - rep(s.n) * (mvec + m._V @ latent_y[k])) for s, k in zip(X, y)]
        lls = [fa_ll(groups, m._U)]
        for it in range(6):
            m.m_step_u([m.e_step_u(X, y, sizes, latent_y)])
            lls.append(fa_ll(groups, m._U))
        for a_, b_ in zip(lls, lls[1:]):
            if b_ < a_ - 1e-9 * (1 + abs(a_)):
                return {"reproduced": True, "phase": "U", "observed": lls, "what": "marginal likelihood of the U phase decreases"}
        latent_x = m.finalize_u(X, y, sizes, latent_y)
        # D phase: diagonal loading, per class residual after m + V y and U x_h
        groups = []
        for k in range(ncls):
            Xk = [s for s, l in zip(X, y) if l == k]
            res = f_acc[k].flatten() - rep(n_acc[k]) * (mvec + m._V @ latent_y[k])
            for h, s in enumerate(Xk):
                res = res - rep(s.n) * (m._U @ latent_x[k][:, h])
            groups.append((n_acc[k], res))

        def d_ll(Dv):
            tot = 0.0
            for N, res in groups:
                prec = 1 + Dv ** 2 * rep(N) / sig
                b = Dv / sig * res
                tot += float(np.sum(-0.5 * np.log(prec) + 0.5 * b ** 2 / prec))
            return tot
        lls = [d_ll(m._D)]
        for it in range(6):
            m.m_step_d([m.e_step_d(X, y, sizes, latent_x, latent_y, n_acc, f_acc)])
            lls.append(d_ll(m._D))
        for a_, b_ in zip(lls, lls[1:]):
            if b_ < a_ - 1e-9 * (1 + abs(a_)):
                return {"reproduced": True, "phase": "D", "observed": lls, "what": "marginal likelihood of the D phase decreases"}
        for arr, shp in ((m._U, (n, rU)), (m._V, (n, rV)), (m._D, (n,))):
            if np.asarray(arr).shape != shp or not np.all(np.isfinite(np.asarray(arr, float))):
                return {"reproduced": True, "what": "subspace shape / finiteness lost: %r vs %r" % (np.asarray(arr).shape, shp)}
        cases += 1
    return {"reproduced": False, "cases": cases}


# ---------------------------------------------------------------- scoring (C11)
def ref_score(m, model, data, jfa):
    ref = Ref(m)
    n = ref.n
    N = [sum(s.n[c] for s in data) for c in range(ref.C)]
    F = [sum(s.sum_px[i // ref.D][i % ref.D] for s in data) for i in range(n)]
    Tt = sum(s.t for s in data)
    pooled = type("S", (), {"n": N, "sum_px": [[F[c * ref.D + d] for d in range(ref.D)] for c in range(ref.C)]})
    x = ref.upd_x(pooled, None, [Fr(0)] * n)
    if jfa:
        y, z = model
    else:
        y, z = None, model
    tot = Fr(0)
    for i in range(n):
        client = ref.m[i] + ref.Dv[i] * z[i] + (ref.Vy(y, i) if jfa else 0)
        tot += (client - ref.m[i]) / ref.sig[i] * (F[i] - N[i // ref.D] * (ref.m[i] + ref.Ux(x, i)))
    return tot / Tt if abs(Tt) > 2.220446049250313e-16 else Fr(0)


def mode_score_entry_points(p):
    O.install()
    cases = 0
    for (C, D, rU, rV, H) in grid():
        for kind in ("isv", "jfa"):
            rs = np.random.RandomState(SEED * 100 + 47 + cases)
            m = O.mk_machine(rs, kind, C, D, rU, rV)
            data = [O.mk_stats(rs, C, D) for _ in range(H)]
            z = O.fr_array(rs, (C * D,))
            model = (O.fr_array(rs, (rV,)), z) if kind == "jfa" else z
            before = O.snapshot(data)
            got = m.score(model, data)
            exp = ref_score(m, model, data, kind == "jfa")
            cases += 1
            if not O.same([got], [exp]):
                return {"reproduced": True, "cases": cases, "machine": kind, "shape": dict(C=C, D=D, rU=rU, rV=rV, statistics=H),
                        "observed": str(got), "expected": str(exp), "what": "score differs from the frame-normalised linear score with the probe's own channel offset"}
            for a_, b_ in zip(before, data):
                if not (O.same(a_.n, b_.n) and O.same(a_.sum_px, b_.sum_px) and a_.t == b_.t):
                    return {"reproduced": True, "cases": cases, "what": "scoring modified the caller's probe statistics"}
            if H > 1:
                pooled = data[0]
                for s in data[1:]:
                    pooled = pooled + s
                if not O.same([m.score(model, [pooled])], [got]):
                    return {"reproduced": True, "cases": cases, "what": "score of several statistics differs from the score of their sum"}
    # array-level entry points (floats: the UBM E-step needs exp/log)
    O.uninstall()
    from bob.learn.em import GMMMachine, ISVMachine, JFAMachine
    for kind in ("isv", "jfa"):
        rs = np.random.RandomState(SEED + 5)
        ubm = GMMMachine(2)
        ubm.means = rs.normal(size=(2, 3))
        ubm.variances = rs.uniform(0.5, 2, size=(2, 3))
        mm = ISVMachine(r_U=2, ubm=ubm) if kind == "isv" else JFAMachine(r_U=2, r_V=1, ubm=ubm)
        arrs = [rs.normal(size=(7, 3)), rs.normal(size=(4, 3))]
        z = rs.normal(size=6)
        model = z if kind == "isv" else (rs.normal(size=1), z)
        a = mm.score_using_array(model, arrs)
        b = mm.score(model, [ubm.acc_stats(x) for x in arrs])
        e1 = mm.enroll_using_array(arrs[0])
        e2 = mm.enroll([ubm.acc_stats(arrs[0])])
        same_enroll = np.allclose(e1, e2) if kind == "isv" else (np.allclose(e1[0], e2[0]) and np.allclose(e1[1], e2[1]))
        if not np.isclose(a, b, rtol=1e-10) or not same_enroll:
            return {"reproduced": True, "what": "array-level score/enrol differs from the statistics-level one on the UBM statistics of the same arrays"}
        # a probe whose frames arrive one by one as 1-D vectors (a list of frames, or a bare (n_frames, n_features) array)
        for frames in ([arrs[1][0]], list(arrs[1]), arrs[1]):
            a1 = mm.score_using_array(model, frames)
            b1 = mm.score(model, [ubm.acc_stats(x) for x in frames])
            if not np.isclose(a1, b1, rtol=1e-10):
                return {"reproduced": True, "input": {"frames": np.asarray(frames).tolist(), "machine": kind}, "observed": float(a1), "expected": float(b1),
                        "what": "score_using_array of a probe given as 1-D frames differs from score() on the UBM statistics of the same frames"}
        if kind == "isv":
            t = mm.transform(arrs[0])
            if not np.allclose(t, mm.estimate_ux([ubm.acc_stats(arrs[0])]), rtol=1e-10):
                return {"reproduced": True, "what": "ISVMachine.transform differs from U x of the array's statistics"}
        cases += 1
    return {"reproduced": False, "cases": cases}


# ---------------------------------------------------------------- bag / array training (C12, C04), order and labels (C16)
def labelled_stats(rs, C, D, ncls, per):
    X, y = [], []
    for k in range(ncls):
        for _ in range(per[k]):
            X.append(O.mk_stats(rs, C, D))
            y.append(k)
    return X, y


def train(kind, C, D, rU, rV, X, y, seed, it=1):
    rs = np.random.RandomState(seed)
    m = O.mk_machine(rs, kind, C, D, rU, rV, em_iterations=it)
    m.fit(X, y)
    return m


def mode_bag_vs_list(p):
    import dask
    import dask.bag
    O.install()
    cases = 0
    shapes = [(2, 1, 1, 1), (1, 2, 2, 1), (2, 2, 1, 2)] if TIER != "thorough" else [(1, 1, 1, 1), (2, 1, 1, 1), (1, 2, 2, 1), (2, 2, 1, 2), (2, 2, 2, 2)]
    for (C, D, rU, rV) in shapes:
        for kind in ("isv", "jfa"):
            rs = np.random.RandomState(SEED * 100 + 61 + cases)
            ncls = int(rs.randint(2, 4))
            per = [int(rs.randint(1, 3)) for _ in range(ncls)]
            X, y = labelled_stats(rs, C, D, ncls, per)
            perm = rs.permutation(len(X))           # partitions mix classes, labels unsorted
            Xs, ys = [X[i] for i in perm], [y[i] for i in perm]
            ref = train(kind, C, D, rU, rV, Xs, ys, 7)
            for nparts in sorted(set([1, 2, 3, len(Xs)])):
                for sched in (("synchronous",) if TIER != "thorough" else ("synchronous", serialising_get)):      # in-process pickling of every task: worker PROCESSES would not see the exact-arithmetic proxy
                    with dask.config.set(scheduler=sched):
                        bag = dask.bag.from_sequence(Xs, npartitions=min(nparts, len(Xs)))
                        ybag = dask.bag.from_sequence(ys, npartitions=min(nparts, len(Xs)))
                        got = train(kind, C, D, rU, rV, bag, ybag, 7)
                    cases += 1
                    for nm in ("_U", "_D") + (("_V",) if kind == "jfa" else ()):
                        if not O.same(getattr(got, nm), getattr(ref, nm)):
                            return {"reproduced": True, "cases": cases, "machine": kind, "partitions": nparts, "scheduler": sched, "labels": ys,
                                    "what": "%s trained from a bag with %d partitions (%s scheduler) differs from list training in %s" % (kind.upper(), nparts, sched, nm.strip("_"))}
    return {"reproduced": False, "cases": cases}


def serialising_get(dsk, keys, **kwargs):
    """a synchronous Dask scheduler that round-trips every task and every result through pickle -- what the
    multiprocessing / distributed schedulers do: a task works on copies, only its return value comes back"""
    import cloudpickle
    from dask.local import get_async, synchronous_executor
    kwargs.pop("num_workers", None)
    return get_async(synchronous_executor.submit, synchronous_executor._max_workers, dsk, keys,
                     dumps=cloudpickle.dumps, loads=cloudpickle.loads, **kwargs)


def mode_dask_classes(p):
    """fit from per-class delayed lists (what fit_using_array / bags produce) with 2, 3, 5 classes == list training (exact),
    with tasks sharing the caller's objects and with tasks running on serialised copies"""
    import dask
    O.install()
    cases = 0
    for ncls in (2, 3, 5):
        for kind in ("isv", "jfa"):
            rs = np.random.RandomState(SEED * 100 + 67 + cases)
            C, D, rU, rV = 2, 1, 1, 1
            per = [int(rs.randint(1, 3)) for _ in range(ncls)]
            X, y = labelled_stats(rs, C, D, ncls, per)
            ref = train(kind, C, D, rU, rV, X, y, 7)
            for sched_name, sched in (("shared", "synchronous"), ("serialised", serialising_get)):
                Xd = [dask.delayed(list)([s for s, l in zip(X, y) if l == k]) for k in range(ncls)]
                yd = [np.array([l for l in y if l == k]) for k in range(ncls)]
                with dask.config.set(scheduler=sched):
                    got = train(kind, C, D, rU, rV, Xd, yd, 7)
                cases += 1
                for nm in ("_U", "_D") + (("_V",) if kind == "jfa" else ()):
                    if not O.same(getattr(got, nm), getattr(ref, nm)):
                        return {"reproduced": True, "cases": cases, "machine": kind, "classes": ncls, "tasks": sched_name,
                                "what": "%s trained from %d per-class delayed lists (%s tasks) differs from list training in %s (a per-class contribution "
                                        "lost or counted twice, or an update not copied back to the caller's machine)" % (kind.upper(), ncls, sched_name, nm.strip("_"))}
    return {"reproduced": False, "cases": cases}


def float_score(m, model, data, jfa):
    """independent float64 formula of the ISV/JFA score at the machine's CURRENT U, V, D"""
    U, Dv = np.asarray(m.U, float), np.asarray(m.D, float)
    mu, sig = np.asarray(m.ubm.means, float).reshape(-1), np.asarray(m.ubm.variances, float).reshape(-1)
    Dd = np.asarray(m.ubm.means).shape[1]
    N = sum(np.asarray(s.n, float) for s in data)
    F = sum(np.asarray(s.sum_px, float) for s in data).reshape(-1)
    Tt = float(sum(s.t for s in data))
    Ncd = np.repeat(N, Dd)
    P = np.eye(U.shape[1]) + (U.T * (Ncd / sig)) @ U
    x = np.linalg.solve(P, (U.T / sig) @ (F - Ncd * mu))
    if jfa:
        yv, z = model
        client = mu + np.asarray(m.V, float) @ np.asarray(yv, float) + Dv * np.asarray(z, float).reshape(-1)
    else:
        client = mu + Dv * np.asarray(model, float).reshape(-1)
    return float(np.sum((client - mu) / sig * (F - Ncd * (mu + U @ x))) / Tt)


def mode_continued(p):
    """C04 / C12: a trained machine that is USED (enrolment, scoring) and then trained further equals, under shared and under
    serialised (isolated) tasks, the same history on lists -- no state is kept on the machine besides U, V, D (float64, rel. tol. 1e-9)"""
    import dask
    from bob.learn.em import ISVMachine, JFAMachine, GMMMachine, GMMStats
    O.uninstall()
    cases = 0
    for kind in ("isv", "jfa"):
        for trial in range(2):
            rs = np.random.RandomState(SEED * 100 + 211 + cases)
            C, D, rU, rV, ncls = 2, 2, 2, 1, 3
            ubm = GMMMachine(C)
            ubm.means, ubm.variances, ubm.weights = rs.normal(size=(C, D)), rs.uniform(0.5, 2, size=(C, D)), np.array([0.4, 0.6])
            X, y = [], []
            for k in range(ncls):
                for _ in range(int(rs.randint(1, 4))):
                    s = GMMStats(C, D)
                    s.n = rs.uniform(1, 5, size=C)
                    s.sum_px = s.n[:, None] * (rs.normal(size=(C, D)) + k)
                    s.sum_pxx = s.n[:, None] * rs.uniform(1, 2, size=(C, D))
                    s.t = int(s.n.sum()) + 1
                    X.append(s)
                    y.append(k)

            def mk():
                if kind == "isv":
                    return ISVMachine(r_U=rU, em_iterations=2, ubm=ubm, random_state=3)
                return JFAMachine(r_U=rU, r_V=rV, em_iterations=2, ubm=ubm, random_state=3)
            ref = mk().fit(X, y)
            ref.enroll(X[:2])
            ref.score(ref.enroll(X[:1]), X[:1])
            ref.fit(X, y)
            # scoring after the continued training uses the CURRENT subspaces (independent float formula)
            model = ref.enroll(X[:2])
            got_score = float(ref.score(model, X[2:4]))
            exp_score = float_score(ref, model, X[2:4], kind == "jfa")
            cases += 1
            if abs(got_score - exp_score) > 1e-8 * (1 + abs(exp_score)):
                return {"reproduced": True, "cases": cases, "machine": kind, "observed": got_score, "expected": exp_score,
                        "what": "%s score after fit / score / fit again is not the channel-compensated linear score under the machine's current U, V, D" % kind.upper()}
            for sched_name, sched in (("shared", "synchronous"), ("serialised", serialising_get)):
                yd = [np.array([l for l in y if l == k]) for k in range(ncls)]
                got = mk()
                with dask.config.set(scheduler=sched):
                    got.fit([dask.delayed(list)([s for s, l in zip(X, y) if l == k]) for k in range(ncls)], yd)
                got.enroll(X[:2])
                got.score(got.enroll(X[:1]), X[:1])
                with dask.config.set(scheduler=sched):
                    got.fit([dask.delayed(list)([s for s, l in zip(X, y) if l == k]) for k in range(ncls)], yd)
                cases += 1
                for nm in ("_U", "_D") + (("_V",) if kind == "jfa" else ()):
                    a, b = np.asarray(getattr(got, nm), float), np.asarray(getattr(ref, nm), float)
                    if a.shape != b.shape or not np.all(np.abs(a - b) <= 1e-9 * (1 + np.abs(a) + np.abs(b))):
                        return {"reproduced": True, "cases": cases, "machine": kind, "tasks": sched_name,
                                "observed": float(np.max(np.abs(a - b))) if a.shape == b.shape else "shape",
                                "what": "continued %s training (fit, enrol/score, fit again; %s tasks) differs from the same history on lists in %s "
                                        "(state kept on the machine besides U, V, D)" % (kind.upper(), sched_name, nm.strip("_"))}
    return {"reproduced": False, "cases": cases}


def mode_perm_relabel(p):
    O.install()
    cases = 0
    for (C, D, rU, rV) in [(2, 1, 1, 1), (1, 2, 2, 1), (2, 2, 1, 2)]:
        for kind in ("isv", "jfa"):
            rs = np.random.RandomState(SEED * 100 + 73 + cases)
            ncls = 3
            per = [int(rs.randint(1, 3)) for _ in range(ncls)]
            X, y = labelled_stats(rs, C, D, ncls, per)
            ref = train(kind, C, D, rU, rV, X, y, 9)
            perm = rs.permutation(len(X))
            a = train(kind, C, D, rU, rV, [X[i] for i in perm], [y[i] for i in perm], 9)
            relab = rs.permutation(ncls)
            b = train(kind, C, D, rU, rV, X, [int(relab[l]) for l in y], 9)
            cases += 1
            for nm in ("_U", "_D") + (("_V",) if kind == "jfa" else ()):
                if not O.same(getattr(a, nm), getattr(ref, nm)):
                    # within a class the sessions may be permuted: the sums are exact rationals, order-free
                    return {"reproduced": True, "cases": cases, "machine": kind, "what": "presenting the training statistics in another order changes " + nm.strip("_")}
                if not O.same(getattr(b, nm), getattr(ref, nm)):
                    return {"reproduced": True, "cases": cases, "machine": kind, "relabelling": [int(v) for v in relab],
                            "what": "renaming the class ids by a permutation changes " + nm.strip("_")}
    return {"reproduced": False, "cases": cases}


def mode_array_vs_list(p):
    """fit_using_array on a Dask array (several chunkings) == on the NumPy array (floats)"""
    import dask
    import dask.array as da
    from bob.learn.em import GMMMachine, ISVMachine, JFAMachine
    cases = 0
    for kind in ("isv", "jfa"):
        rs = np.random.RandomState(SEED + 11)
        ubm = GMMMachine(2)
        ubm.means = rs.normal(size=(2, 2))
        ubm.variances = rs.uniform(0.5, 2, size=(2, 2))
        X = rs.normal(size=(3, 6, 5, 2))[..., 0:2].reshape(3 * 6, 5, 2)[:, :, :]   # 18 samples of 5 frames
        y = np.repeat(np.arange(3), 6)
        mk = (lambda: ISVMachine(r_U=1, ubm=ubm, em_iterations=2, random_state=3)) if kind == "isv" else \
            (lambda: JFAMachine(r_U=1, r_V=1, ubm=ubm, em_iterations=2, random_state=3))
        ref = mk().fit_using_array(X, y)
        for chunks in ((6, 5, 2), (4, 5, 2), (7, 5, 2)):
            with dask.config.set(scheduler="synchronous"):
                got = mk().fit_using_array(da.from_array(X, chunks=chunks), y)
            cases += 1
            for nm in ("_U", "_D") + (("_V",) if kind == "jfa" else ()):
                if not np.allclose(np.asarray(getattr(got, nm), float), np.asarray(getattr(ref, nm), float), rtol=1e-8, atol=1e-10):
                    return {"reproduced": True, "cases": cases, "machine": kind, "chunks": list(chunks), "what": "fit_using_array on a Dask array differs from the NumPy result in " + nm.strip("_")}
        # the same labelled multiset in another storage order (class ids not first appearing in ascending order) and with
        # unequal class sizes: the trained model is a function of the labelled multiset
        keep = np.r_[0:6, 6:10, 12:18]                      # class sizes 6, 4, 6
        Xs, ys = X[keep], y[keep]
        ref2 = mk().fit_using_array(Xs, ys)
        for order in (np.r_[6:10, 10:16, 0:6], rs.permutation(len(ys))):
            for arr in ("numpy", "dask"):
                with dask.config.set(scheduler="synchronous"):
                    Xo = Xs[order] if arr == "numpy" else da.from_array(Xs[order], chunks=(5, 5, 2))
                    got = mk().fit_using_array(Xo, ys[order])
                cases += 1
                for nm in ("_U", "_D") + (("_V",) if kind == "jfa" else ()):
                    if not np.allclose(np.asarray(getattr(got, nm), float), np.asarray(getattr(ref2, nm), float), rtol=1e-7, atol=1e-9):
                        return {"reproduced": True, "cases": cases, "machine": kind, "input": arr, "label_order": ys[order].tolist(),
                                "what": "fit_using_array (%s) depends on the storage order of the labelled samples in %s" % (arr, nm.strip("_"))}
    return {"reproduced": False, "cases": cases}


def mode_inputs_unchanged(p):
    O.install()
    cases = 0
    for kind in ("isv", "jfa"):
        rs = np.random.RandomState(SEED + 13)
        C, D, rU, rV = 2, 2, 1, 1
        X, y = labelled_stats(rs, C, D, 2, [2, 1])
        bx, by = O.snapshot(X), list(y)
        m = train(kind, C, D, rU, rV, X, y, 5)
        e = m.enroll(X[:2])
        s = m.score(e, X[1:])
        cases += 1
        for a_, b_ in zip(bx, X):
            if not (O.same(a_.n, b_.n) and O.same(a_.sum_px, b_.sum_px) and O.same(a_.sum_pxx, b_.sum_pxx) and a_.t == b_.t):
                return {"reproduced": True, "what": "%s fit/enrol/score modified the caller's statistics" % kind.upper()}
        if by != list(y):
            return {"reproduced": True, "what": "labels modified"}
        for nm in ("_U", "_D", "_V"):
            arr = getattr(m, nm)
            if isinstance(arr, np.ndarray):
                for st in X:
                    if np.shares_memory(arr, st.n) or np.shares_memory(arr, st.sum_px):
                        return {"reproduced": True, "what": "trained %s shares memory with the training statistics" % nm}
    return {"reproduced": False, "cases": cases}


def mode_affine(p):
    """C15 (FA part): per-feature x -> a x + b with U, V, D, UBM transformed accordingly: speaker/channel
    factors, residual factor z and scores unchanged (the client offset D z scales with a)"""
    O.install()
    cases = 0
    for (C, D, rU, rV, H) in grid()[:4]:
        for kind in ("isv", "jfa"):
            rs = np.random.RandomState(SEED * 100 + 83 + cases)
            m = O.mk_machine(rs, kind, C, D, rU, rV, enroll_iterations=2)
            X = [O.mk_stats(rs, C, D) for _ in range(H)]
            a = [Fr(int(v), 3) for v in rs.choice([-6, -2, 1, 2, 5, 9], size=D)]
            b = [Fr(int(v), 2) for v in rs.randint(-5, 6, size=D)]
            A_ = O.arr([a[i % D] for i in range(C * D)])
            m2 = O.mk_machine(rs, kind, C, D, rU, rV, enroll_iterations=2)
            u2 = O.mk_ubm(rs, C, D)
            u2._means = O.arr([[a[d] * m.ubm.means[c][d] + b[d] for d in range(D)] for c in range(C)])
            u2._variances = O.arr([[a[d] ** 2 * m.ubm.variances[c][d] for d in range(D)] for c in range(C)])
            m2.ubm = u2
            m2._U = m._U * A_[:, None]
            m2._D = m._D * A_
            m2._V = m._V * A_[:, None] if kind == "jfa" else 0
            X2 = []
            for s in X:
                from bob.learn.em import GMMStats
                t = GMMStats(C, D)
                t.n, t.t, t.log_likelihood = s.n, s.t, s.log_likelihood
                t.sum_px = O.arr([[a[d] * s.sum_px[c][d] + b[d] * s.n[c] for d in range(D)] for c in range(C)])
                t.sum_pxx = O.arr([[a[d] ** 2 * s.sum_pxx[c][d] + 2 * a[d] * b[d] * s.sum_px[c][d] + b[d] ** 2 * s.n[c] for d in range(D)] for c in range(C)])
                X2.append(t)
            e1, e2 = m.enroll(X), m2.enroll(X2)
            cases += 1
            ok = O.same(e1, e2) if kind == "isv" else (O.same(e1[0], e2[0]) and O.same(e1[1], e2[1]))
            if kind == "isv":
                e1, e2 = O.asarr(e1).reshape(-1), O.asarr(e2).reshape(-1)
            if not ok:
                return {"reproduced": True, "cases": cases, "machine": kind, "scales": [str(v) for v in a], "shifts": [str(v) for v in b],
                        "what": "enrolled latent factors change under a per-feature affine change of the features"}
            if not O.same([m.score(e1, X)], [m2.score(e2, X2)]) or not O.same(m.estimate_x(X), m2.estimate_x(X2)):
                return {"reproduced": True, "cases": cases, "machine": kind, "what": "score / channel factor changes under a per-feature affine change of the features"}
    return {"reproduced": False, "cases": cases}


MODES = {k[5:]: v for k, v in list(globals().items()) if k.startswith("mode_")}

if __name__ == "__main__":
    mode, params = sys.argv[1], json.loads(sys.argv[2]) if len(sys.argv) > 2 else {}
    import dask
    dask.config.set(scheduler="synchronous")
    r = O.run_main(MODES, mode, params)
    print(json.dumps(r, default=str))
