import json, os, sys, traceback
import numpy as np
SEED = int(os.environ.get("VERIF_SEED", "0") or 0)


def close(a, b, tol=1e-9):
    a, b = np.asarray(a, float), np.asarray(b, float)
    return a.shape == b.shape and bool(np.all(np.abs(a - b) <= tol * (1 + np.abs(a) + np.abs(b))))


def search(fn, tries=100):
    for k in range(tries):
        r = fn(SEED * 1000 + k)
        if r is not None:
            r["reproduced"] = True
            r["seed_used"] = SEED * 1000 + k
            return r
    return {"reproduced": False, "tries": tries, "cases": tries}


def main(modes):
    mode, params = sys.argv[1], json.loads(sys.argv[2]) if len(sys.argv) > 2 else {}
    import dask
    dask.config.set(scheduler="synchronous")
    try:
        r = modes[mode](params)
    except Exception as e:
        tb = traceback.format_exc()
        inside = "/bob/learn/em/" in tb
        r = {"reproduced": bool(inside), "what": "the real code raised %s: %s" % (type(e).__name__, e), "traceback": tb[-1800:], "harness_error": not inside}
    print(json.dumps(r, default=lambda o: np.asarray(o).tolist()))


def mk_gmm(C, D, seed, **kw):
    from bob.learn.em import GMMMachine
    rs = np.random.RandomState(seed)
    m = GMMMachine(C, **kw)
    m.means = rs.normal(size=(C, D)) * 2 + 3
    m.variances = rs.uniform(0.5, 2.0, size=(C, D))
    w = rs.uniform(0.2, 1.0, size=C)
    m.weights = w / w.sum()
    return m
