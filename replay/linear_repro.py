import numpy as np
from common_repro import *


def mode_wccn(p):
    from bob.learn.em import WCCN

    def one(seed):
        rs = np.random.RandomState(seed)
        K, D = rs.randint(1, 4), rs.randint(1, 4)
        per = rs.randint(D + 1, D + 4, size=K)
        if seed % 3 == 1 and K >= 2:
            per[-1] = 1                       # a class with a single sample (adds nothing to the scatter, still counts as a class)
            per[0] += D + 1
        X = np.vstack([rs.normal(size=(n, D)) * rs.uniform(0.5, 2) + rs.normal(size=D) * 3 for n in per])
        base = np.repeat(np.arange(K), per)
        ref = None
        reused = WCCN()
        for labels, pinv in ((base, False), (base, True), (base * 7 + 5, False), (-base - 1, False), ((base + 1) * 10, True), ((K - 1 - base), False)):
            if seed % 4 == 3 and not pinv:
                # one estimator object used again and again (fitted on other data and applied in between)
                X0 = rs.normal(size=(len(X), D)) * 4 + 7
                reused.fit(X0, labels)
                reused.transform([X0])
                w = reused.fit(X, labels)
            else:
                w = WCCN(pinv=pinv).fit(X, labels)
            W = np.asarray(w.weights)
            Y = np.asarray(w.transform([X]))[0]
            Sw = np.zeros((D, D))
            for l in set(labels.tolist()):
                Z = Y[labels == l]
                Z = Z - Z.mean(axis=0)
                Sw += Z.T @ Z
            if not close(Sw / len(set(labels.tolist())), np.eye(D), 1e-7):
                return {"input": {"labels": labels.tolist(), "pinv": pinv}, "observed": (Sw / K).tolist(), "expected": np.eye(D).tolist(),
                        "what": "within-class scatter of the WCCN-transformed data / n_classes is not the identity"}
            if not (np.allclose(W, np.tril(W)) and np.all(np.diag(W) > 0)):
                return {"what": "WCCN projection is not lower-triangular with positive diagonal"}
            if ref is not None and not close(W, ref, 1e-8):
                return {"input": {"labels": labels.tolist()}, "what": "WCCN projection depends on the label values, not only on the partition"}
            if ref is None:
                ref = W
    return search(one, 40)


def mode_whitening(p):
    from bob.learn.em import Whitening

    def one(seed):
        rs = np.random.RandomState(seed)
        D = rs.randint(1, 4)
        X = rs.normal(size=(D + 3 + rs.randint(0, 5), D)) @ rs.normal(size=(D, D)) + rs.normal(size=D) * 4
        w = Whitening(pinv=bool(seed % 2))
        if seed % 3 == 2:
            # the estimator object was used before: fitted on OTHER data and applied, then fitted again on X
            X0 = rs.normal(size=(D + 4, D)) * 5 + 10
            w.fit(X0)
            w.transform(X0)
        w.fit(X)
        Y = np.asarray(w.transform(X))
        if not close(Y.mean(axis=0), np.zeros(D), 1e-8) or not close(np.atleast_2d(np.cov(Y.T)), np.eye(D), 1e-7):
            return {"observed": np.atleast_2d(np.cov(Y.T)).tolist(), "what": "whitened training data do not have zero mean and identity covariance"}
        W = np.asarray(w.weights)
        if not (np.allclose(W, np.tril(W)) and np.all(np.diag(W) > 0)):
            return {"what": "whitening projection is not lower-triangular with positive diagonal"}
    return search(one, 40)


def mode_dask(p):
    import dask.array as da
    from bob.learn.em import WCCN, Whitening

    def one(seed):
        rs = np.random.RandomState(seed)
        X = rs.normal(size=(12, 3))
        y = np.repeat([3, 8, 1], 4)
        a, b = WCCN().fit(X, y), WCCN().fit(da.from_array(X, chunks=(5, 3)), y)
        if not close(np.asarray(a.weights), np.asarray(b.weights), 1e-8):
            return {"what": "WCCN on a Dask array differs from the NumPy result"}
        # the classes stored interleaved (two recording sessions: A A B B C C A A B B C C) and fully shuffled
        X2 = rs.normal(size=(18, 3)) + np.repeat(rs.normal(size=(3, 3)) * 3, 6, axis=0)
        y2 = np.repeat([7, -2, 40], 6)
        for order in (np.array([0, 1, 6, 7, 12, 13, 2, 3, 8, 9, 14, 15, 4, 5, 10, 11, 16, 17]), rs.permutation(18)):
            ref = np.asarray(WCCN().fit(X2, y2).weights)
            for chunks in ((18, 3), (7, 3)):
                got = np.asarray(WCCN().fit(da.from_array(X2[order], chunks=chunks), y2[order]).weights)
                if not close(got, ref, 1e-8):
                    return {"input": {"labels": y2[order].tolist(), "chunks": list(chunks)}, "what": "WCCN on a Dask array depends on the storage order of the labelled samples"}
        a, b = Whitening().fit(X), Whitening().fit(da.from_array(X, chunks=(5, 3)))
        if not close(np.asarray(a.weights), np.asarray(b.weights), 1e-8) or not close(np.asarray(a.input_subtract), np.asarray(b.input_subtract), 1e-10):
            return {"what": "whitening on a Dask array differs from the NumPy result"}
    return search(one, 5)


main({"wccn": mode_wccn, "whitening": mode_whitening, "dask": mode_dask})
