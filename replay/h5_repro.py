import os, tempfile
import numpy as np
from common_repro import *


def mode_machine(p):
    from bob.learn.em import GMMMachine

    def one(seed):
        rs = np.random.RandomState(seed)
        C, D = rs.randint(1, 4), rs.randint(1, 4)
        ubm = mk_gmm(C, D, seed)
        for trainer in ("ml", "map"):
            kw = dict(convergence_threshold=float(rs.choice([1e-3, 1e-7, 0.5, 0.0])), max_fitting_steps=int(rs.randint(0, 9)),     # 0.0 / 0 are legitimate settings
                      update_means=bool(rs.randint(2)), update_variances=bool(rs.randint(2)), update_weights=bool(rs.randint(2)))
            m = mk_gmm(C, D, seed + 1, trainer=trainer, ubm=ubm if trainer == "map" else None, **kw)
            if seed % 2:
                m.variance_thresholds = 1e-20
                m.variances = rs.uniform(1e-19, 1e-17, size=(C, D))
            with tempfile.TemporaryDirectory() as d:
                path = os.path.join(d, "m.hdf5")
                m.save(path)
                for via in ("from_hdf5", "load"):
                    if via == "from_hdf5":
                        r = GMMMachine.from_hdf5(path, ubm=ubm if trainer == "map" else None)
                    else:
                        # the receiver is an object that has been USED with another model (other weights, floors, shape)
                        r = GMMMachine(C + 1, trainer=trainer, ubm=mk_gmm(C + 1, D, 5) if trainer == "map" else None)
                        if seed % 2 == 0:
                            other = mk_gmm(C, D, seed + 9)
                            r = GMMMachine(C, trainer=trainer, ubm=mk_gmm(C, D, 5) if trainer == "map" else None)
                            r.variance_thresholds = 0.75
                            r.means, r.variances = other.means, other.variances + 1.0
                            w_ = rs.uniform(0.1, 1, size=C)
                            r.weights = w_ / w_.sum()
                            r.log_likelihood(rs.normal(size=(3, D)))
                        if trainer == "map":
                            r.ubm = ubm
                        r.load(path)
                    for f in ("trainer", "convergence_threshold", "max_fitting_steps", "update_means", "update_variances", "update_weights"):
                        if getattr(r, f) != getattr(m, f):
                            return {"field": f, "observed": repr(getattr(r, f)), "expected": repr(getattr(m, f)), "input": {"trainer": trainer, "via": via},
                                    "what": "training setting %s is not restored by %s" % (f, via)}
                    for f in ("weights", "means", "variances", "variance_thresholds"):
                        if not np.array_equal(np.asarray(getattr(r, f)), np.asarray(getattr(m, f))):
                            return {"field": f, "observed": np.asarray(getattr(r, f)).tolist(), "expected": np.asarray(getattr(m, f)).tolist(),
                                    "input": {"trainer": trainer, "via": via}, "what": "%s is not bit-identical after %s" % (f, via)}
                    x = rs.normal(size=(5, D)) + 3
                    if not np.array_equal(r.log_likelihood(x), m.log_likelihood(x)):
                        return {"what": "reloaded machine scores differently"}
    return search(one, 20)


def mode_legacy(p):
    """legacy-format machine files (one group per Gaussian: m_gaussians<i>/m_mean, m_variance, m_variance_thresholds; m_weights;
    m_n_gaussians) load to the same model as the current-format file of the same machine -- for few and for MANY Gaussians"""
    import h5py
    from bob.learn.em import GMMMachine
    cases = 0
    for C, D, seed in ((2, 3, 0), (12, 2, 1), (25, 1, 2)):
        rs = np.random.RandomState(SEED * 7 + seed)
        m = mk_gmm(C, D, seed)
        m.variance_thresholds = rs.uniform(1e-3, 1e-2, size=(C, D))
        m.variances = rs.uniform(0.5, 2.0, size=(C, D))
        with tempfile.TemporaryDirectory() as d:
            cur, leg = os.path.join(d, "cur.hdf5"), os.path.join(d, "leg.hdf5")
            m.save(cur)
            with h5py.File(leg, "w") as f:
                f["m_n_gaussians"] = np.array([C])
                f["m_weights"] = m.weights.reshape(1, C)
                for i in range(C):
                    g = f.create_group("m_gaussians%d" % i)
                    g["m_mean"], g["m_variance"], g["m_variance_thresholds"] = m.means[i], m.variances[i], np.broadcast_to(m.variance_thresholds, (C, D))[i]
            a, b = GMMMachine.from_hdf5(cur), GMMMachine.from_hdf5(leg)
            r = GMMMachine(3)
            r.load(leg)
        x = rs.normal(size=(5, D)) * 2 + 3
        cases += 1
        for nm, mach in (("from_hdf5", b), ("load", r)):
            for f_ in ("weights", "means", "variances"):
                if not np.array_equal(np.asarray(getattr(a, f_)), np.asarray(getattr(mach, f_))):
                    return {"reproduced": True, "cases": cases, "input": {"n_gaussians": C, "n_features": D, "via": nm}, "field": f_,
                            "observed": np.asarray(getattr(mach, f_)).tolist(), "expected": np.asarray(getattr(a, f_)).tolist(),
                            "what": "a legacy-format file with %d Gaussians loads (%s) to %s that differ from the current-format counterpart" % (C, nm, f_)}
            if not np.array_equal(a.log_likelihood(x), mach.log_likelihood(x)):
                return {"reproduced": True, "cases": cases, "input": {"n_gaussians": C, "via": nm}, "what": "the machine loaded from the legacy file scores differently"}
    return {"reproduced": False, "cases": cases}


def mode_none_limit(p):
    from bob.learn.em import GMMMachine
    if p.get("skip_known"):
        return {"reproduced": False, "cases": 0, "note": "this scenario IS the recorded finding KF-H5-NONE"}
    m = mk_gmm(2, 2, 0, max_fitting_steps=None)
    with tempfile.TemporaryDirectory() as d:
        try:
            m.save(os.path.join(d, "m.hdf5"))
            r = GMMMachine.from_hdf5(os.path.join(d, "m.hdf5"))
            ok = r.max_fitting_steps is None
        except TypeError as e:
            return {"reproduced": True, "known_finding": "KF-H5-NONE", "what": "save() of a machine without an iteration cap raises TypeError: %s" % e}
    return {"reproduced": not ok, "cases": 1}


def mode_stats(p):
    from bob.learn.em import GMMStats

    def one(seed):
        rs = np.random.RandomState(seed)
        C, D = rs.randint(1, 4), rs.randint(1, 4)
        s = GMMStats(C, D)
        s.n, s.sum_px, s.sum_pxx = rs.uniform(0, 3, size=C), rs.normal(size=(C, D)), rs.uniform(0, 3, size=(C, D))
        s.t, s.log_likelihood = int(rs.randint(0, 50)), float(rs.normal())
        with tempfile.TemporaryDirectory() as d:
            path = os.path.join(d, "s.hdf5")
            s.save(path)
            for r in (GMMStats.from_hdf5(path), GMMStats(C + 1, D + 2)):
                if r.n_gaussians != C:
                    r.load(path)
                if not (r == s) or r.shape != s.shape or not np.array_equal(r.sum_pxx, s.sum_pxx):
                    return {"what": "statistics differ after the HDF5 round trip"}
    return search(one, 20)


main({"machine": mode_machine, "stats": mode_stats, "none_limit": mode_none_limit, "legacy": mode_legacy})
