"""objrun (Tier B, bounded): run the REAL imported code on dtype=object arrays of
exact rationals (fractions.Fraction).  The `np` name of the package's modules is
replaced, from outside the repository, by a proxy that makes the ~10 entry
points that do not support object arrays exact (zeros/ones/eye/zeros_like/full,
linalg.inv/solve, array(like=)).  Results are exact: comparisons with the
independent reference formulas are equalities of rationals, no tolerance.
"""
import itertools
import os
from fractions import Fraction as Fr

import numpy as _np

# float64 fallback: code that cannot run on object arrays of rationals at all (a ufunc called with dtype=float, a compiled
# routine, ...) is run on the SAME rational values as float64 arrays; every comparison then uses the 1e-9 relative tolerance
FLOAT = bool(os.environ.get("OBJRUN_FLOAT"))


def fr_array(rs, shape, lo=-2, hi=2, den=7, positive=False):
    """random rationals with small denominators"""
    n = int(_np.prod(shape)) if shape else 1
    vals = []
    for _ in range(n):
        num = rs.randint(1 if positive else lo * den, hi * den + 1)
        if positive and num <= 0:
            num = 1
        vals.append(Fr(int(num), den))
    if FLOAT:
        a = _np.array([float(v) for v in vals], dtype=float)
        return a.reshape(shape) if shape else float(a[0])
    a = _np.empty(n, dtype=object)
    a[:] = vals
    return a.reshape(shape) if shape else a[0]


def to_obj(a):
    a = _np.asarray(a)
    if FLOAT:
        return a.astype(float)
    if a.dtype == object:
        return a
    out = _np.empty(a.shape, dtype=object)
    flat = out.reshape(-1)
    for k, v in enumerate(a.reshape(-1)):
        flat[k] = Fr(v).limit_denominator(10 ** 12) if not float(v).is_integer() else Fr(int(v))
    return out


def inv_exact(M):
    M = _np.asarray(M, dtype=object)
    if M.ndim > 2:
        out = _np.empty(M.shape, dtype=object)
        for idx in _np.ndindex(M.shape[:-2]):
            out[idx] = inv_exact(M[idx])
        return out
    n = M.shape[0]
    A = [[Fr(M[i, j]) for j in range(n)] + [Fr(int(i == j)) for j in range(n)] for i in range(n)]
    for c in range(n):
        piv = next((r for r in range(c, n) if A[r][c] != 0), None)
        if piv is None:
            raise _np.linalg.LinAlgError("Singular matrix")
        A[c], A[piv] = A[piv], A[c]
        p = A[c][c]
        A[c] = [v / p for v in A[c]]
        for r in range(n):
            if r != c and A[r][c] != 0:
                f = A[r][c]
                A[r] = [a - f * b for a, b in zip(A[r], A[c])]
    out = _np.empty((n, n), dtype=object)
    for i in range(n):
        for j in range(n):
            out[i, j] = A[i][n + j]
    return out


class _Linalg:
    def inv(self, M):
        M = _np.asarray(M)
        if M.dtype != object:
            return _np.linalg.inv(M)
        return inv_exact(M)

    def solve(self, A, b):
        A, b = _np.asarray(A), _np.asarray(b)
        if A.dtype != object and b.dtype != object:
            return _np.linalg.solve(A, b)
        return inv_exact(to_obj(A)) @ to_obj(b)

    def __getattr__(self, n):
        return getattr(_np.linalg, n)


class NPProxy:
    """numpy with exact object-array support for the entry points that lack it"""
    EXACT = True

    def __init__(self):
        self.linalg = _Linalg()

    def __getattr__(self, n):
        return getattr(_np, n)

    def _fill(self, shape, v):
        if FLOAT:
            return _np.full(shape, float(v))
        a = _np.empty(shape, dtype=object)
        a.reshape(-1)[:] = [Fr(v)] * a.size if a.size else []
        return a

    @staticmethod
    def _integer(dtype):
        try:
            return dtype is not None and dtype is not float and _np.issubdtype(dtype, _np.integer)
        except TypeError:
            return False

    def zeros(self, shape, dtype=None, like=None, **kw):
        if self._integer(dtype):
            return _np.zeros(shape, dtype=dtype)
        return self._fill(shape, 0)

    def ones(self, shape, dtype=None, like=None, **kw):
        if self._integer(dtype):
            return _np.ones(shape, dtype=dtype)
        return self._fill(shape, 1)

    def full(self, shape, fill_value, dtype=None, like=None, **kw):
        if FLOAT:
            return _np.full(shape, fill_value, dtype=dtype)
        a = _np.empty(shape, dtype=object)
        a.reshape(-1)[:] = [fill_value] * a.size
        return a

    def zeros_like(self, a, **kw):
        return self._fill(_np.asarray(a).shape, 0)

    def ones_like(self, a, **kw):
        return self._fill(_np.asarray(a).shape, 1)

    def eye(self, n, m=None, **kw):
        m = n if m is None else m
        a = self._fill((n, m), 0)
        for i in range(min(n, m)):
            a[i, i] = Fr(1)
        return a

    def array(self, x, dtype=None, like=None, **kw):
        a = _np.array(x)                      # Fractions give an object array, labels stay integers
        if dtype is not None and dtype is not float and a.dtype != object:
            a = a.astype(dtype)
        return a

    def sqrt(self, x):
        if FLOAT:
            return _np.sqrt(x)
        raise NotImplementedError("sqrt in exact mode")


PATCHED = {}


def install(modules=("factor_analysis", "linear_scoring")):
    import importlib
    proxy = NPProxy()
    for m in modules:
        mod = importlib.import_module("bob.learn.em." + m)
        if m not in PATCHED:
            PATCHED[m] = mod.np
        mod.np = proxy
    return proxy


def uninstall():
    import importlib
    for m, orig in PATCHED.items():
        importlib.import_module("bob.learn.em." + m).np = orig
    PATCHED.clear()


# ---------------------------------------------------------------- exact fixtures
def mk_ubm(rs, C, D):
    from bob.learn.em import GMMMachine
    u = GMMMachine(C)
    u._means = fr_array(rs, (C, D))
    u._variances = fr_array(rs, (C, D), positive=True)
    u._weights = _np.array([Fr(1, C)] * C, dtype=object) if not FLOAT else _np.full(C, 1.0 / C)
    return u


def mk_stats(rs, C, D, frames=None):
    """statistics with fractional counts (as produced by soft assignments)"""
    from bob.learn.em import GMMStats
    s = GMMStats(C, D)
    s.n = fr_array(rs, (C,), positive=True)
    s.sum_px = fr_array(rs, (C, D))
    s.sum_pxx = fr_array(rs, (C, D), positive=True) + s.sum_px * s.sum_px
    s.t = sum(s.n) if frames is None else frames
    s.log_likelihood = Fr(int(rs.randint(-50, -1)))
    return s


def mk_machine(rs, kind, C, D, rU, rV=None, ubm=None, **kw):
    from bob.learn.em import ISVMachine, JFAMachine
    ubm = ubm or mk_ubm(rs, C, D)
    if kind == "isv":
        m = ISVMachine(r_U=rU, ubm=None, **kw)
    else:
        m = JFAMachine(r_U=rU, r_V=rV, ubm=None, **kw)
    m.ubm = ubm
    m._U = fr_array(rs, (C * D, rU))
    m._D = fr_array(rs, (C * D,), positive=True)
    m._V = fr_array(rs, (C * D, rV)) if kind == "jfa" else 0
    return m


def arr(x):
    """array of exact rationals (float64 in the fallback mode)"""
    return _np.array(x, dtype=float if FLOAT else object)


def asarr(x):
    return _np.asarray(x, dtype=float if FLOAT else object)


def snapshot(x):
    """deep exact copy of arrays / statistics for bitwise before/after comparison"""
    import copy
    return copy.deepcopy(x)


def _eq(x, y):
    """exact for rationals; a value that went through a float operation of the code under test (np.divide(1.0, q),
    np.einsum on a converted array, ...) is no longer exact and is compared with a relative tolerance of 1e-9"""
    if isinstance(x, (Fr, int)) and isinstance(y, (Fr, int)):
        return x == y
    try:
        fx, fy = float(x), float(y)
    except (TypeError, ValueError):
        return False
    return abs(fx - fy) <= 1e-9 * (1.0 + abs(fx) + abs(fy))


ENGINE_LIMIT = (TypeError, NotImplementedError, AttributeError)     # numpy's UFuncTypeError is a TypeError


def run_main(modes, mode, params):
    """shared entry point of the objrun-based harnesses: an exception raised inside the package is a reproduction -- unless it is
    the exact engine that cannot run this code (object arrays of rationals refused by a ufunc / compiled routine): then the same
    scenario is re-run on float64 arrays of the same values (tolerance 1e-9), and only that run's verdict counts"""
    import json
    import subprocess
    import sys
    import traceback
    try:
        r = modes[mode](params)
    except Exception as e:
        tb = traceback.format_exc()
        inside = "/bob/learn/em/" in tb
        if inside and isinstance(e, ENGINE_LIMIT) and not FLOAT:
            env = dict(os.environ, OBJRUN_FLOAT="1")
            p = subprocess.run([sys.executable] + sys.argv, capture_output=True, text=True, env=env)
            lines = [ln for ln in p.stdout.strip().splitlines() if ln.startswith("{")]
            if lines:
                r = json.loads(lines[-1])
                r["engine"] = "float64 fallback (the exact engine cannot run this code: %s: %s)" % (type(e).__name__, str(e)[:200])
                return r
            return {"reproduced": False, "harness_error": True, "what": "exact engine limit (%s: %s) and the float64 fallback gave no verdict: %s"
                    % (type(e).__name__, str(e)[:200], p.stderr[-400:])}
        if FLOAT and isinstance(e, ENGINE_LIMIT) and "dtype('O')" in str(e):
            inside = False        # rationals left over in the float64 re-run: a limit of the harness, not a behaviour of the code
        r = {"reproduced": bool(inside), "what": "the real code raised %s: %s" % (type(e).__name__, e), "traceback": tb[-1800:], "harness_error": not inside}
    if FLOAT and isinstance(r, dict):
        r.setdefault("engine", "float64 fallback")
    return r


def same(a, b):
    a, b = _np.asarray(a, dtype=object), _np.asarray(b, dtype=object)
    return a.shape == b.shape and all(_eq(x, y) for x, y in zip(a.reshape(-1), b.reshape(-1)))


def as_list(a):
    return [str(v) for v in _np.asarray(a, dtype=object).reshape(-1)]
