"""Encoding cross-check (DESIGN §1.6): the symbolic result the VC generator derives from the
real source (vt.interp over /repo) is instantiated at small concrete shapes and random values,
and compared with what the REAL function returns natively under NumPy on the same values.
A mismatch means the NumPy/Python model of the generator is wrong (checker fault, exit 3) --
never a pass and never a violation.

usage: xcheck.py <group>     groups: gmm kmeans linear ivector fa wccn
prints {"ok": bool, "cases": n, "mismatches": [...]}"""
import json
import os
import sys
import traceback

import numpy as np

ROOT = os.path.dirname(os.path.dirname(os.path.abspath(__file__)))
sys.path.insert(0, ROOT)
sys.setrecursionlimit(20000)

from vt import terms as T                                     # noqa: E402
from vt.terms import Poly, P                                   # noqa: E402
from vt.arr import Arr, input_arr                              # noqa: E402
from vt.values import Obj, SList                               # noqa: E402
from vt.interp import Interp, lookup                           # noqa: E402

SEED = int(os.environ.get("VERIF_SEED", "0") or 0)


class Conc:
    """concrete values for the named symbolic inputs"""

    def __init__(self, dims, rs):
        self.dims, self.rs = dims, rs
        self.arrays, self.syms = {}, dict(dims)
        Conc.current = self

    def arr(self, name, shape, lo=-2.0, hi=2.0, integer=None):
        shp = tuple(int(round(T.evalf(P(d), T.EvalEnv(self.syms)))) for d in shape)
        if integer is not None:
            a = self.rs.randint(0, integer, size=shp)
        else:
            a = self.rs.uniform(lo, hi, size=shp)
        self.arrays[name] = a
        return a

    def sym(self, name, v):
        self.syms[name] = v
        return v

    def env(self):
        e = T.EvalEnv(self.syms)
        for n, a in self.arrays.items():
            e.funcs[n] = (lambda a: (lambda *idx: float(a[tuple(int(i) for i in idx)])))(a)
        return e


def ev_value(v, conc):
    """numeric value of an interpreter value (Arr / Poly / tuple / python) at the concrete point"""
    env = conc.env()
    if isinstance(v, Arr):
        shp = tuple(int(round(T.evalf(P(d), env))) for d in v.shape)
        out = np.zeros(shp)
        for idx in np.ndindex(*shp):
            e = v.fn(*[Poly.const(int(i)) for i in idx])
            out[idx] = T.evalf(P(e), env) if not isinstance(e, T.Cond) else float(T.evalf(e, env))
        return out
    if isinstance(v, Poly):
        return T.evalf(v, env)
    if isinstance(v, (tuple, list)):
        return [ev_value(x, conc) for x in v]
    return v


def same(a, b, tol=1e-8):
    a, b = np.asarray(a, float), np.asarray(b, float)
    return a.shape == b.shape and bool(np.all(np.abs(a - b) <= tol * (1 + np.abs(a) + np.abs(b))))


class Skip(Exception):
    """the symbolic run left the modelled subset or raised where a value was expected: nothing to compare"""


def first(paths):
    """the path the concrete point takes: its path condition holds at the point (a code path taken only for particular
    shapes -- one sample, one component -- must not be compared with the real run at another shape)"""
    conc = getattr(Conc, "current", None)
    if len(paths) > 1 and conc is not None:
        env = conc.env()
        keep = []
        for pc, outcome in paths:
            verdict = True
            for c in pc:
                try:
                    if not T.evalf(T.C(c), env):
                        verdict = False
                        break
                except Exception:
                    verdict = None       # depends on values not drawn yet
            if verdict is not False:
                keep.append((verdict, pc, outcome))
        sure = [k for k in keep if k[0] is True]
        if len(sure) == 1:
            paths = [(sure[0][1], sure[0][2])]
        elif len(keep) == 1:
            paths = [(keep[0][1], keep[0][2])]
        else:
            raise Skip("the code forks and the path of the concrete point is not determined")
    kind, payload = paths[0][1]
    if kind != "ok":
        raise Skip("the symbolic run raises %r" % (payload,))
    return payload


class Runner:
    def __init__(self):
        self.cases, self.bad = 0, []

    def check(self, name, sym_val, real_val, conc, tol=1e-8):
        self.cases += 1
        try:
            s = ev_value(sym_val, conc)
        except Exception as e:
            # the symbolic value left the evaluable subset: nothing to compare (a limit of the cross-check, not a disagreement)
            self.skipped = getattr(self, "skipped", 0) + 1
            self.cases -= 1
            return
        if not same(s, real_val, tol):
            self.bad.append({"case": name, "model": np.asarray(s, float).tolist() if np.size(s) < 40 else "...",
                             "numpy": np.asarray(real_val, float).tolist() if np.size(real_val) < 40 else "..."})


# ---------------------------------------------------------------- fixtures
def sym_gmm(I, tag="", trainer="ml", ubm=None, flags=(True, True, True), gnorms="none"):
    from contracts import gmm as G
    return G.mk_gmm(I, tag, gnorms=gnorms, thr="scalar", trainer=trainer, ubm=ubm, update=flags)


def real_gmm(conc, tag="", C=None, D=None, trainer="ml", ubm=None, flags=(True, True, True)):
    from bob.learn.em import GMMMachine
    m = GMMMachine(C, trainer=trainer, ubm=ubm, update_means=flags[0], update_variances=flags[1], update_weights=flags[2],
                   mean_var_update_threshold=conc.syms.get("mvt" + tag, 1e-3))
    thr = conc.sym("thr" + tag, 0.05)
    m.variance_thresholds = thr
    w = conc.arr("w" + tag, (C,), 0.2, 1.0)
    m.weights = w
    m.means = conc.arr("mu" + tag, (C, D))
    m.variances = conc.arr("v" + tag, (C, D), 0.3, 2.0)
    return m


def g_gmm(R):
    import bob.learn.em.gmm as g
    from contracts import gmm as G
    for trial, (C, D, N) in enumerate([(2, 2, 3), (3, 1, 2), (1, 3, 4)]):
        rs = np.random.RandomState(SEED * 10 + trial)
        conc = Conc({"C": C, "D": D, "N": N}, rs)
        conc.sym("mvt", 1e-3)
        I = Interp()
        G._INTERP[0] = I
        m_s, x_s = sym_gmm(I), G.mk_data()
        m_r = real_gmm(conc, C=C, D=D)
        x_r = conc.arr("x", (N, D), -1, 4)
        for fn in ("log_weighted_likelihood", "log_likelihood"):
            sv = first(I.run_paths(lambda: I.call(lookup(I, "gmm." + fn), [x_s, sym_gmm(I)], {})))
            R.check("gmm.%s[%d]" % (fn, trial), sv, getattr(g, fn)(x_r, m_r), conc)
        st = first(I.run_paths(lambda: I.call(lookup(I, "gmm.e_step"), [x_s, sym_gmm(I)], {})))
        sr = g.e_step(x_r, m_r)
        for f in ("n", "sum_px", "sum_pxx", "log_likelihood", "t"):
            R.check("gmm.e_step.%s[%d]" % (f, trial), st.fields[f], getattr(sr, f), conc)
        # M-steps on arbitrary statistics
        for trainer in ("ml", "map"):
            for flags in ((True, True, True), (False, True, False), (True, False, True)):
                conc2 = Conc({"C": C, "D": D, "N": N}, np.random.RandomState(SEED * 10 + trial + 7))
                conc2.sym("mvt", 1e-3), conc2.sym("mvt0", 1e-3)
                conc2.sym("relevance", 4.0), conc2.sym("alpha", 0.5)
                I = Interp()
                G._INTERP[0] = I
                ubm_s = sym_gmm(I, "0") if trainer == "map" else None
                ms = sym_gmm(I, trainer=trainer, ubm=ubm_s, flags=flags)
                ss = G.mk_stats(I)
                ubm_r = real_gmm(conc2, "0", C=C, D=D) if trainer == "map" else None
                mr = real_gmm(conc2, C=C, D=D, trainer=trainer, ubm=ubm_r, flags=flags)
                sr = g.GMMStats(C, D)
                sr.n = conc2.arr("n", (C,), 0.5, 5)
                sr.sum_px = conc2.arr("F", (C, D))
                sr.sum_pxx = conc2.arr("S", (C, D), 3, 9)
                sr.t = conc2.sym("t", int(N + 3))
                sr.log_likelihood = conc2.sym("ll", -7.5)
                if len(I.run_paths(lambda: I.call(lookup(I, "gmm.m_step"), [[ss], ms], {}))) != 1:
                    continue          # forks: the mutated fixture belongs to the last path explored, not necessarily the concrete one
                # re-run on fresh symbolic objects (run_paths executed the thunk on ms once: use it)
                g.m_step([sr], mr)
                for f, attr in (("_weights", "weights"), ("_means", "means"), ("_variances", "variances"), ("_g_norms", "g_norms"), ("_log_weights", "log_weights")):
                    if f in ms.fields and ms.fields[f] is None:
                        continue          # lazily filled cache, not touched by this step
                    try:
                        sval = first(I.run_paths(lambda: I.getattr(ms, attr)))      # through the public accessor, whatever the representation
                    except Skip:
                        continue
                    R.check("gmm.m_step.%s.%s%s[%d]" % (trainer, attr, flags, trial), sval, getattr(mr, attr), conc2)


def g_kmeans(R):
    import bob.learn.em.kmeans as k
    from contracts import kmeans as KM
    for trial, (K, D, N) in enumerate([(2, 2, 5), (3, 1, 4)]):
        rs = np.random.RandomState(SEED * 10 + trial)
        conc = Conc({"K": K, "D": D, "N": N}, rs)
        I = Interp()
        x_r, c_r = conc.arr("x", (N, D), -3, 3), conc.arr("cen", (K, D), -3, 3)
        sv = first(I.run_paths(lambda: I.call(lookup(I, "kmeans.get_centroids_distance"), [KM.mk_data(), KM.mk_means()], {})))
        R.check("kmeans.dist[%d]" % trial, sv, k.get_centroids_distance(x_r, c_r), conc)
        sv = first(I.run_paths(lambda: I.call(lookup(I, "kmeans.e_step"), [KM.mk_data(), KM.mk_means()], {})))
        rv = k.e_step(x_r, c_r)
        for i in range(3):
            R.check("kmeans.e_step[%d][%d]" % (i, trial), sv[i], rv[i], conc)
        sv = first(I.run_paths(lambda: I.call(lookup(I, "kmeans.accumulate_indices_means_vars"), [KM.mk_data(), KM.mk_means()], {})))
        rv = k.accumulate_indices_means_vars(x_r, c_r)
        for i in range(3):
            R.check("kmeans.accumulate[%d][%d]" % (i, trial), sv[i], rv[i], conc)
        # m_step over two blocks of statistics
        z1, z2 = conc.arr("z1", (K,), integer=4) + 1, conc.arr("z2", (K,), integer=4) + 1
        conc.arrays["z1"], conc.arrays["z2"] = z1, z2
        f1, f2 = conc.arr("f1", (K, D)), conc.arr("f2", (K, D))
        conc.sym("a1", 0.7), conc.sym("a2", 1.9)
        st_s = [(input_arr("z1", (KM.Kk,), dtype="int"), input_arr("f1", (KM.Kk, KM.Dd)), T.sym("a1")),
                (input_arr("z2", (KM.Kk,), dtype="int"), input_arr("f2", (KM.Kk, KM.Dd)), T.sym("a2"))]
        sv = first(I.run_paths(lambda: I.call(lookup(I, "kmeans.m_step"), [st_s, KM.Nn], {})))
        rv = k.m_step([(z1, f1, 0.7), (z2, f2, 1.9)], N)
        R.check("kmeans.m_step.means[%d]" % trial, sv[0], rv[0], conc)
        R.check("kmeans.m_step.crit[%d]" % trial, sv[1], rv[1], conc)


def g_linear(R):
    from bob.learn.em import linear_scoring, GMMStats
    from contracts import gmm as G
    from contracts import linear_scoring as LS
    for trial, (C, D, M, Pn) in enumerate([(2, 2, 2, 3), (1, 3, 1, 2)]):
        rs = np.random.RandomState(SEED * 10 + trial)
        conc = Conc({"C": C, "D": D, "M": M, "Pp": Pn}, rs)
        I = Interp()
        G._INTERP[0] = I
        ubm_r = real_gmm(conc, "u", C=C, D=D)
        mm = conc.arr("mm", (M, C, D))
        Fp, Np, Tp = conc.arr("pF", (Pn, C, D)), conc.arr("pN", (Pn, C), 0, 4), conc.arr("pT", (Pn,), integer=6).astype(float)
        conc.arrays["pT"] = Tp
        off = conc.arr("off", (Pn, C, D))
        stats = []
        for p in range(Pn):
            s = GMMStats(C, D)
            s.n, s.sum_px, s.t = Np[p], Fp[p], Tp[p]
            stats.append(s)
        for norm in (False, True):
            sv = I.run_paths(lambda: I.call(lookup(I, "linear_scoring.linear_scoring"),
                                            [input_arr("mm", (LS.Mm, G.Cc, G.Dd)), sym_gmm(I, "u"), LS.stats_list(I), input_arr("off", (LS.Pp, G.Cc, G.Dd)), norm], {}))
            sv = first(sv)
            R.check("linear_scoring[norm=%s][%d]" % (norm, trial), sv, linear_scoring(mm, ubm_r, stats, off, norm), conc)


def g_ivector(R):
    import bob.learn.em.ivector as iv
    from contracts import gmm as G
    from contracts import ivector as IV
    for trial, (C, D, Rn, J) in enumerate([(2, 2, 2, 3), (1, 2, 1, 2)]):
        rs = np.random.RandomState(SEED * 10 + trial)
        conc = Conc({"C": C, "D": D, "R": Rn, "J": J}, rs)
        conc.sym("floor", 0.05)
        I = Interp()
        G._INTERP[0] = I
        ubm_r = real_gmm(conc, "u", C=C, D=D)
        mr = iv.IVectorMachine(ubm_r, dim_t=Rn, variance_floor=0.05)
        mr.dim_c, mr.dim_d = C, D
        mr.T, mr.sigma = conc.arr("Tm", (C, D, Rn)), conc.arr("sig", (C, D), 0.4, 2)
        sN, sF, sS = conc.arr("sN", (J, C), 0.5, 4), conc.arr("sF", (J, C, D)), conc.arr("sS", (J, C, D), 2, 8)
        from bob.learn.em import GMMStats
        data = []
        for j in range(J):
            s = GMMStats(C, D)
            s.n, s.sum_px, s.sum_pxx = sN[j], sF[j], sS[j]
            data.append(s)
        conc.arrays["N1"], conc.arrays["F1"], conc.arrays["S1"] = sN[0], sF[0], sS[0]
        sv = first(I.run_paths(lambda: I.call(lookup(I, "ivector.IVectorMachine.project"), [IV.mk_machine(I), IV.mk_one_stats(I)], {})))
        R.check("ivector.project[%d]" % trial, sv, mr.project(data[0]), conc)
        st = first(I.run_paths(lambda: I.call(lookup(I, "ivector.e_step"), [IV.mk_machine(I), IV.mk_stats_list(I)], {})))
        sr = iv.e_step(mr, data)
        for f in ("nij", "snormij", "nij_sigma_wij2", "fnorm_sigma_wij"):
            R.check("ivector.e_step.%s[%d]" % (f, trial), st.fields[f], getattr(sr, f), conc)
        # m_step on arbitrary accumulators
        conc.arrays["nij"] = sr.nij
        conc.arrays["snorm"] = sr.snormij
        conc.arrays["nsw"] = sr.nij_sigma_wij2
        conc.arrays["fsw"] = sr.fnorm_sigma_wij
        holder = []

        def run_m():
            mm_ = IV.mk_machine(I)
            I.call(lookup(I, "ivector.m_step"), [mm_, IV.mk_ivstats(I)], {})
            holder.append(mm_)
            return mm_
        paths = I.run_paths(run_m)
        ms = first(paths)        # first path: at least one component has data
        iv.m_step(mr, sr)
        R.check("ivector.m_step.T[%d]" % trial, ms.fields["T"], mr.T, conc, 1e-7)
        R.check("ivector.m_step.sigma[%d]" % trial, ms.fields["sigma"], mr.sigma, conc, 1e-7)


def g_fa(R):
    from bob.learn.em import GMMStats, JFAMachine
    from contracts import gmm as G
    from contracts import fa as FA
    for trial, (C, D, rU, rV, H) in enumerate([(2, 2, 2, 1, 2), (1, 3, 1, 2, 3)]):
        rs = np.random.RandomState(SEED * 10 + trial)
        conc = Conc({"C": C, "D": D, "RU": rU, "RV": rV, "H": H}, rs)
        I = Interp()
        G._INTERP[0] = I
        FA.setup()
        try:
            ubm_r = real_gmm(conc, "u", C=C, D=D)
            mr = JFAMachine(r_U=rU, r_V=rV, ubm=ubm_r)
            mr._U, mr._V, mr._D = conc.arr("U", (C * D, rU)), conc.arr("V", (C * D, rV)), conc.arr("Dv", (C * D,), 0.2, 2)
            hN, hF = conc.arr("hN", (H, C), 0.5, 4), conc.arr("hF", (H, C, D))
            X = []
            for h in range(H):
                s = GMMStats(C, D)
                s.n, s.sum_px = hN[h], hF[h]
                X.append(s)
            lx, z, y = conc.arr("lx", (rU, H)), conc.arr("z", (C * D,)), conc.arr("y", (rV,))
            Nacc, Facc = conc.arr("Nacc", (C,), 1, 6), conc.arr("Facc", (C, D))
            Q = "factor_analysis.FactorAnalysisBase."
            sv = I.run_paths(lambda: I.call(lookup(I, Q + "_compute_fn_y_i"),
                                            [FA.mk_fa(I), FA.sessions(I), input_arr("lx", (FA.RU, FA.Hh)), input_arr("z", (FA.Cc * FA.Dd,)),
                                             input_arr("Nacc", (FA.Cc,)), input_arr("Facc", (FA.Cc, FA.Dd))], {}))
            sv = first(sv)
            R.check("fa.fn_y[%d]" % trial, sv, mr._compute_fn_y_i(X, lx, z, Nacc, Facc), conc)
            sv = I.run_paths(lambda: I.call(lookup(I, Q + "_compute_fn_z_i"),
                                            [FA.mk_fa(I), FA.sessions(I), input_arr("lx", (FA.RU, FA.Hh)), input_arr("y", (FA.RV,)),
                                             input_arr("Nacc", (FA.Cc,)), input_arr("Facc", (FA.Cc, FA.Dd))], {}))
            sv = first(sv)
            R.check("fa.fn_z[%d]" % trial, sv, mr._compute_fn_z_i(X, lx, y, Nacc, Facc), conc)
            conc.arrays["N1"], conc.arrays["F1"] = hN[0], hF[0]
            sv = I.run_paths(lambda: I.call(lookup(I, Q + "_compute_fn_x_ih"), [FA.mk_fa(I), FA.one_stats(I)],
                                            {"latent_z_i": input_arr("z", (FA.Cc * FA.Dd,)), "latent_y_i": input_arr("y", (FA.RV,))}))
            sv = first(sv)
            R.check("fa.fn_x[%d]" % trial, sv, mr._compute_fn_x_ih(X[0], latent_z_i=z, latent_y_i=y), conc)
            sv = first(I.run_paths(lambda: I.call(lookup(I, Q + "_compute_uprod"), [FA.mk_fa(I)], {})))
            R.check("fa.uprod[%d]" % trial, sv, mr._compute_uprod(), conc)
            sv = first(I.run_paths(lambda: I.call(lookup(I, Q + "estimate_x"), [FA.mk_fa(I), FA.sessions(I)], {})))
            R.check("fa.estimate_x[%d]" % trial, sv, mr.estimate_x(X), conc, 1e-7)
            A1, A2 = conc.arr("A1", (C, rU, rU)) + 3 * np.eye(rU), conc.arr("A2", (C * D, rU))
            conc.arrays["A1"] = A1
            sv = first(I.run_paths(lambda: I.call(lookup(I, Q + "update_U"), [FA.mk_fa(I), input_arr("A1", (FA.Cc, FA.RU, FA.RU)), input_arr("A2", (FA.Cc * FA.Dd, FA.RU))], {})))
            R.check("fa.update_U[%d]" % trial, sv, mr.update_U(A1, A2), conc, 1e-7)
        finally:
            T.PRODUCTS[:] = []


def g_wccn(R):
    from bob.learn.em import WCCN, Whitening
    from contracts import linear as L
    from vt import interp as IN
    for trial, (N, D) in enumerate([(7, 2), (9, 3)]):
        rs = np.random.RandomState(SEED * 10 + trial)
        conc = Conc({"N": N, "D": D}, rs)
        I = Interp()
        X = conc.arr("X", (N, D), -2, 2) @ np.diag(rs.uniform(0.5, 2, size=D))
        conc.arrays["X"] = X
        w = Obj(I.classes["Whitening"])
        w.fields.update(pinv=False)
        I.run_paths(lambda: I.call(lookup(I, "whitening.Whitening.fit"), [w, input_arr("X", (L.Nn, L.Dd))], {}))
        wr = Whitening().fit(X)
        R.check("whitening.weights[%d]" % trial, w.fields["weights"], wr.weights, conc, 1e-6)
        R.check("whitening.mean[%d]" % trial, w.fields["input_subtract"], wr.input_subtract, conc)
        # WCCN with labels 0..K-1 (the model enumerates the label set by an uninterpreted pi: use identity)
        y = np.arange(N) % 2
        conc.arrays["y"] = y
        conc.arrays["pi1"] = np.array(list(set(y.tolist())))
        conc.sym("K_pi1", 2)
        IN.LabelSet.count = 0
        c = Obj(I.classes["WCCN"])
        c.fields.update(pinv=False)
        I.run_paths(lambda: I.call(lookup(I, "wccn.WCCN.fit"), [c, input_arr("X", (L.Nn, L.Dd)), input_arr("y", (L.Nn,), dtype="int")], {}))
        cr = WCCN().fit(X, y)
        R.check("wccn.weights[%d]" % trial, c.fields["weights"], cr.weights, conc, 1e-6)


GROUPS = {"gmm": g_gmm, "kmeans": g_kmeans, "linear": g_linear, "ivector": g_ivector, "fa": g_fa, "wccn": g_wccn}

if __name__ == "__main__":
    grp = sys.argv[1]
    R = Runner()
    from vt.arr import ModelError, ShapeError
    from vt.values import PyRaise
    try:
        GROUPS[grp](R)
        out = {"ok": not R.bad, "cases": R.cases, "mismatches": R.bad[:8]}
    except (Skip, ModelError, ShapeError, PyRaise) as e:
        # not a disagreement between the model and NumPy: the code under /repo uses a construct the generator does
        # not model (the obligations that depend on it are reported undecided by the check itself)
        out = {"ok": not R.bad, "cases": R.cases, "mismatches": R.bad[:8], "skipped": "%s: %s" % (type(e).__name__, e)}
    except Exception as e:
        out = {"ok": False, "cases": R.cases, "error": "%s: %s" % (type(e).__name__, e), "traceback": traceback.format_exc()[-1500:]}
    print(json.dumps(out, default=str))
