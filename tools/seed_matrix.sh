#!/bin/bash
# runs every seeded change against the check of the property it was written for; writes seeded/<id>/result.json
cd /verif
for d in seeded/C*; do
  ID=$(basename $d)
  out=$(tools/try_seed.sh $ID 2>&1)
  rc=$(echo "$out" | grep -o "exit=[0-9]*" | head -1 | cut -d= -f2)
  obl=$(echo "$out" | grep VIOLATION | sed 's/.*obligation=//' | tr '\n' ';')
  echo "$ID exit=$rc $obl"
  python3 - "$ID" "$rc" "$obl" <<'PY'
import json,sys
i,rc,obl=sys.argv[1:4]
conf={}
for l in open('/tmp/confirm_all.log'):
    if l.startswith(i+' '):
        conf={k:v for k,v in (x.split('=',1) for x in l.split()[1:4])}
m=json.load(open('/verif/seeded/%s/meta.json'%i))
m['confirmed_independently']={"demo_on_original_exit":int(conf.get('demo_original_exit',-1)),"demo_with_change_exit":int(conf.get('demo_patched_exit',-1)),
   "pinned_baseline_tests_missing_with_change":conf.get('baseline_missing','?'),"how":"tools/confirm_seed.sh: scratch worktree under /tmp, demo before/after, full pinned suite with the change"}
m['check_result']={"command":"./check %s --tier quick (with the patch applied to /repo, then reverted)"%m.get('property',i),"exit":int(rc) if rc else None,
   "failed_obligations":[o for o in obl.split(';') if o]}
json.dump(m,open('/verif/seeded/%s/meta.json'%i,'w'),indent=1)
PY
done
