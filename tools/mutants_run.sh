#!/bin/bash
# run each mutant against its properties; print name prop exit
python3 - <<'PY' > /tmp/mut/jobs.txt
import json
for name,props in json.load(open('/tmp/mut/list.json')):
    for p in props: print(name,p)
PY
run(){ name=$1; p=$2; out=$(mktemp -d); rc=0
  VERIF_REPO=/tmp/mut/$name VERIF_EVIDENCE_DIR=$out VERIF_REPLAY_DIR=$out timeout 1500 /verif/check $p > $out/log 2>&1; rc=$?
  echo "$name $p exit=$rc $(grep -E 'VIOLATION|UNDECIDED|CHECKER' $out/log | head -2 | cut -c1-150 | tr '\n' '|')"; rm -rf $out; }
export -f run
cat /tmp/mut/jobs.txt | xargs -P 5 -L 1 bash -c 'run $0 $1'
