#!/bin/bash
# every semantics-preserving rewrite under seeded/benign against every check (scratch copies under /tmp, removed afterwards);
# prints the runs that are not exit 0 and writes seeded/benign/results.txt
S=/tmp/benignmx; rm -rf $S; mkdir -p $S
for f in /verif/seeded/benign/${BENIGN_FILTER:-}*.diff; do b=$(basename $f .diff); mkdir -p $S/$b; cp -r /repo/src $S/$b/src; patch -s -p1 -d $S/$b -i $f || echo "PATCHFAIL $b"; done
run(){ b=$1; p=$2; out=$(mktemp -d); VERIF_REPO=/tmp/benignmx/$b VERIF_EVIDENCE_DIR=$out VERIF_REPLAY_DIR=$out timeout 3000 /verif/check $p > $out/log 2>&1; rc=$?
  echo "$b $p exit=$rc $(grep -E 'VIOLATION|UNDECIDED|CHECKER' $out/log | head -2 | cut -c1-200 | tr '\n' '|')"; rm -rf $out; }
export -f run
for f in /verif/seeded/benign/${BENIGN_FILTER:-}*.diff; do b=$(basename $f .diff); for p in C01 C02 C03 C04 C05 C06 C07 C08 C09 C10 C11 C12 C13 C14 C15 C16 C17 C18 C19 C20; do echo "$b $p"; done; done \
  | xargs -P 8 -L 1 bash -c 'run $0 $1' | sort > ${BENIGN_OUT:-/verif/seeded/benign/results.txt}
rm -rf $S
grep -c "exit=0" ${BENIGN_OUT:-/verif/seeded/benign/results.txt}; grep -v "exit=0" ${BENIGN_OUT:-/verif/seeded/benign/results.txt}
