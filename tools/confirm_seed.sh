#!/bin/bash
# independent confirmation of a seeded change in a scratch worktree outside /repo and /verif:
#  demo fails with the change, passes without it; the pinned suite still passes with it
ID=$1; DIR=/verif/seeded/$ID; WT=/tmp/vs_$ID
rm -rf $WT; git -C /repo worktree prune; git -C /repo worktree add -q --detach $WT HEAD || exit 9
cd /tmp
PYTHONPATH=$WT/src /venv/bin/python $DIR/demo.py > /tmp/vs_$ID.orig.log 2>&1; RC0=$?
git -C $WT apply $DIR/patch.diff || { echo "$ID patch-does-not-apply"; git -C /repo worktree remove --force $WT; exit 9; }
PYTHONPATH=$WT/src /venv/bin/python $DIR/demo.py > /tmp/vs_$ID.patched.log 2>&1; RC1=$?
cd $WT && PYTHONPATH=$WT/src /venv/bin/python -m pytest -q -p no:cacheprovider --timeout=900 --junitxml=/tmp/vs_$ID.xml tests > /tmp/vs_$ID.tests.log 2>&1
cd /tmp
MISSING=$(/venv/bin/python - /tmp/vs_$ID.xml <<'PY'
import json,sys,xml.etree.ElementTree as ET
base=json.load(open('/root/.vp/BASELINE.json'))
t=ET.parse(sys.argv[1]).getroot()
ok=set()
for tc in t.iter('testcase'):
    if not any(c.tag in('failure','error','skipped') for c in tc): ok.add(tc.get('classname')+'::'+tc.get('name'))
print(",".join(x for x in base['stable_pass'] if x not in ok) or "none")
PY
)
IMPORTED=$(cd /tmp && PYTHONPATH=$WT/src /venv/bin/python -c "import bob.learn.em as b; print(b.__file__)")
git -C /repo worktree remove --force $WT
echo "$ID demo_original_exit=$RC0 demo_patched_exit=$RC1 baseline_missing=$MISSING imported=$IMPORTED last_patched_line=$(tail -1 /tmp/vs_$ID.patched.log | cut -c1-160)"
