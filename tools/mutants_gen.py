# Appendix-B breaking-change corpus: textual single-site mutants of the source, written to scratch copies under /tmp/mut (outside /repo and /verif);
# run with tools/mutants_run.sh, remove /tmp/mut afterwards.  Results of the last run: seeded/mutants_results.txt
"""Appendix-B breaking changes as (name, property list, file, old, new)"""
import os, subprocess, shutil, json
R="/repo/src/bob/learn/em/"
M=[
("gmm-half-sign",["C01"],"gmm.py","ll = -0.5 * (machine.g_norms[:, None] + z)","ll = 0.5 * (machine.g_norms[:, None] + z)"),
("gmm-drop-logw",["C01"],"gmm.py","log_weighted_likelihoods = machine.log_weights[:, None] + ll","log_weighted_likelihoods = ll"),
("gmm-setter-const",["C01","C17"],"gmm.py","        n_log_2pi = self._variances.shape[-1] * np.log(2 * np.pi)\n        self._g_norms = n_log_2pi + np.log(self._variances).sum(axis=-1)\n\n    @property\n    def variance_thresholds","        n_log_2pi = self._variances.shape[-1] * np.log(np.pi)\n        self._g_norms = n_log_2pi + np.log(self._variances).sum(axis=-1)\n\n    @property\n    def variance_thresholds"),
("gmm-naive-lse",["C01"],"gmm.py","    return np.logaddexp.reduce(\n        array, axis=axis, keepdims=keepdims, initial=-np.inf\n    )","    return np.log(np.sum(np.exp(array), axis=axis, keepdims=keepdims))"),
("gmm-setter-nomax",["C13","C17"],"gmm.py","        self._variances = np.maximum(self.variance_thresholds, variances)","        self._variances = np.asarray(variances)"),
("gmm-thr-noreclamp",["C17"],"gmm.py","        if self._variances is not None:\n            self.variances = np.maximum(threshold, self._variances)","        pass"),
("gmm-weights-nolog",["C17","C01"],"gmm.py","        self._weights = weights\n        self._log_weights = np.log(self._weights)","        self._weights = weights\n        if getattr(self, '_log_weights', None) is None:\n            self._log_weights = np.log(self._weights)"),
("stats-iadd-nopxx",["C02"],"gmm.py","        self.sum_px += other.sum_px\n        self.sum_pxx += other.sum_pxx\n        return self","        self.sum_px += other.sum_px\n        return self"),
("stats-add-and",["C02"],"gmm.py","            self.n_gaussians != other.n_gaussians\n            or self.n_features != other.n_features\n        ):\n            raise ValueError(\n                \"Statistics could not be added together (shape mismatch)\"\n            )\n        new_stats","            self.n_gaussians != other.n_gaussians\n            and self.n_features != other.n_features\n        ):\n            raise ValueError(\n                \"Statistics could not be added together (shape mismatch)\"\n            )\n        new_stats"),
("estep-t-cols",["C02"],"gmm.py","    statistics.t = data.shape[0]","    statistics.t = data.shape[1]"),
("estep-pxpx",["C02"],"gmm.py","        sum_pxx.append(np.sum(px * data, axis=0))","        sum_pxx.append(np.sum(px * px, axis=0))"),
("fit-step-gt0",["C03"],"gmm.py","            if step > 1:\n                convergence_value = abs(\n                    (average_output_previous - average_output)\n                    / average_output_previous","            if step > 0:\n                convergence_value = abs(\n                    (average_output_previous - average_output)\n                    / (average_output_previous or 1.0)"),
("fit-lt",["C03"],"gmm.py","                    and convergence_value <= self.convergence_threshold\n                ):\n                    logger.info(\n                        \"Reached convergence threshold. Training stopped.\"\n                    )\n                    break\n\n        else:\n            logger.info(\n                \"Reached maximum step. Training stopped without convergence.\"\n            )\n        return self\n\n    def acc_stats","                    and convergence_value < self.convergence_threshold\n                ):\n                    logger.info(\n                        \"Reached convergence threshold. Training stopped.\"\n                    )\n                    break\n\n        else:\n            logger.info(\n                \"Reached maximum step. Training stopped without convergence.\"\n            )\n        return self\n\n    def acc_stats"),
("fit-absolute",["C03"],"gmm.py","                convergence_value = abs(\n                    (average_output_previous - average_output)\n                    / average_output_previous\n                )\n                logger.debug(\n                    f\"convergence val = {convergence_value} and threshold = {self.convergence_threshold}\"","                convergence_value = abs(\n                    (average_output_previous - average_output)\n                )\n                logger.debug(\n                    f\"convergence val = {convergence_value} and threshold = {self.convergence_threshold}\""),
("mstep-avg-not-div",["C03"],"gmm.py","    average_output = float(statistics.log_likelihood / statistics.t)","    average_output = float(statistics.log_likelihood)"),
("fit-copyback-novar",["C04","C03"],"gmm.py","                for attr in [\"weights\", \"means\", \"variances\"]:","                for attr in [\"weights\", \"means\"]:"),
("ml-means-unclipped",["C13"],"gmm.py","        machine.means = statistics.sum_px / thresholded_n[:, None]","        machine.means = statistics.sum_px / statistics.n[:, None]"),
("map-alpha-r",["C05"],"gmm.py","        alpha = statistics.n / (statistics.n + relevance_factor)","        alpha = statistics.n / relevance_factor"),
("map-no-renorm",["C05","C13"],"gmm.py","        gamma = machine.weights.sum()\n        machine.weights /= gamma","        gamma = machine.weights.sum()"),
("map-drop-1malpha",["C05"],"gmm.py",") + np.multiply((1 - alpha[:, None]), machine.ubm.means)",") + machine.ubm.means"),
("map-guard-gt",["C05"],"gmm.py","        machine.means = np.where(\n            statistics.n[:, None] < mean_var_update_threshold,","        machine.means = np.where(\n            statistics.n[:, None] > mean_var_update_threshold,"),
("init-no-deepcopy",["C19","C05"],"gmm.py","            self.means = copy.deepcopy(self.ubm.means)\n            # thresholds first","            self.means = self.ubm.means\n            # thresholds first"),
("h5-switch-swap",["C18"],"gmm.py","                update_weights=hdf5[\"update_weights\"][()],","                update_weights=hdf5[\"update_means\"][()],"),
("h5-stats-swap",["C18"],"gmm.py","            self.sum_px = hdf5[\"sumPx\"][...]\n            self.sum_pxx = hdf5[\"sumPxx\"][...]","            self.sum_px = hdf5[\"sumPxx\"][...]\n            self.sum_pxx = hdf5[\"sumPx\"][...]"),
("km-argmax",["C06","C20"],"kmeans.py","    return np.argmin(centroids_dist, axis=0)","    return np.argmax(centroids_dist, axis=0)"),
("km-dask-plus",["C20"],"kmeans.py","            distances.append(np.sum((means[i] - x) ** 2, axis=-1))","            distances.append(np.sum((means[i] + x) ** 2, axis=-1))"),
("km-crit-nodiv",["C06"],"kmeans.py","    average_min_distance /= n_samples\n","    pass\n"),
("km-weights-len",["C20"],"kmeans.py","    weights = weights_count / weights_count.sum()","    weights = weights_count / len(weights_count)"),
("km-var-nosq",["C20"],"kmeans.py","    variances = (variances_sum / weights_count[:, None]) - (means**2)","    variances = (variances_sum / weights_count[:, None]) - (means)"),
("km-estep-mutates-means",["C19","C04"],"kmeans.py","    n_clusters = len(means)\n    distances = get_centroids_distance(data, means)","    n_clusters = len(means)\n    means += 0.0\n    distances = get_centroids_distance(data, means)"),
("ls-offset-minus",["C08"],"linear_scoring.py","        n[:, :, None] * (ubm.means[None, :, :] + test_channel_offsets)","        n[:, :, None] * (ubm.means[None, :, :] - test_channel_offsets)"),
("ls-guard-removed",["C08"],"linear_scoring.py","        b = np.where(abs(t) <= EPSILON, 0, b[:, :] / t[None, :])","        b = b[:, :] / t[None, :]"),
("ls-no-prior",["C08"],"linear_scoring.py","    if ubm.trainer == \"map\":\n        ubm = ubm.ubm","    pass"),
("iv-no-eye",["C10"],"ivector.py","    output = np.eye(dim_t, dim_t) + np.einsum(","    output = np.einsum("),
("iv-no-centering",["C10"],"ivector.py","    fnorm = stats.sum_px - stats.n[:, None] * ubm_means  # (c,d)","    fnorm = stats.sum_px  # (c,d)"),
("iv-tree-off",["C12"],"ivector.py","                        for i in range(length // 2)\n                    ]\n                    if length % 2 != 0:","                        for i in range(length // 2)\n                    ]\n                    if length % 2 == 0:"),
("iv-add-nonij",["C12","C10"],"ivector.py","        result.snormij = self.snormij + other.snormij\n        result.nij = self.nij + other.nij","        result.snormij = self.snormij + other.snormij"),
("iv-copyback-nosigma",["C12"],"ivector.py","                for attr in [\"T\", \"sigma\"]:","                for attr in [\"T\"]:"),
("iv-outer-only",["C10"],"ivector.py","        sigma_w_ij2 = I_TtSigmaInvNT_inv + np.outer(\n            sigma_w_ij, sigma_w_ij\n        )","        sigma_w_ij2 = np.outer(\n            sigma_w_ij, sigma_w_ij\n        )"),
("iv-floor-gt",["C10","C13"],"ivector.py","            machine.sigma < machine.variance_floor\n        ] = machine.variance_floor","            machine.sigma > machine.variance_floor\n        ] = machine.variance_floor"),
("fa-fnx-noVy",["C07"],"factor_analysis.py","        fn_x_ih -= n_ic * V_dot_v if latent_y_i is not None else 0","        fn_x_ih -= 0"),
("fa-uprod-non",["C07"],"factor_analysis.py","        return np.linalg.inv(I + (UProd * n_i[:, None, None]).sum(axis=0))","        return np.linalg.inv(I + UProd.sum(axis=0))"),
("fa-order-xyz",["C07"],"factor_analysis.py","            latent_y = self.update_y(\n                X=X,\n                y=y,\n                n_classes=1,\n                VProd=VProd,\n                latent_x=latent_x,\n                latent_y=latent_y,\n                latent_z=latent_z,\n                n_acc=n_acc,\n                f_acc=f_acc,\n            )\n            latent_x = self.compute_latent_x(\n                X=X,\n                y=y,\n                n_classes=1,\n                UProd=UProd,\n                latent_y=latent_y,\n                latent_z=latent_z,\n            )","            latent_x = self.compute_latent_x(\n                X=X,\n                y=y,\n                n_classes=1,\n                UProd=UProd,\n                latent_y=latent_y,\n                latent_z=latent_z,\n            )\n            latent_y = self.update_y(\n                X=X,\n                y=y,\n                n_classes=1,\n                VProd=VProd,\n                latent_x=latent_x,\n                latent_y=latent_y,\n                latent_z=latent_z,\n                n_acc=n_acc,\n                f_acc=f_acc,\n            )"),
("fa-D-inverted",["C09"],"factor_analysis.py","        self._D = acc_D_A2 / acc_D_A1","        self._D = acc_D_A1 / acc_D_A2"),
("fa-score-nonorm",["C11"],"factor_analysis.py","            frame_length_normalization=True,\n        )[0][0]\n\n\nclass JFAMachine","            frame_length_normalization=False,\n        )[0][0]\n\n\nclass JFAMachine"),
("fa-no-seed",["C16"],"factor_analysis.py","        if self.random_state is not None:\n            np.random.seed(self.random_state)","        pass"),
("wccn-nclasses",["C14"],"wccn.py","        scaled_Sw = (1 / n_classes) * Sw","        scaled_Sw = (1 / len(y)) * Sw"),
("wccn-upper",["C14"],"wccn.py","            inv_scaled_Sw, lower=True\n        )  # Setting lower","            inv_scaled_Sw, lower=False\n        )  # Setting lower"),
("white-nocenter",["C14"],"whitening.py","        self.input_subtract = mu","        self.input_subtract = 0"),
]
out=[]
for name,props,f,old,new in M:
    src=open(R+f).read()
    if old not in src:
        print("PATTERN-MISSING",name); continue
    d="/tmp/mut/%s"%name
    shutil.rmtree(d,ignore_errors=True)
    shutil.copytree("/repo/src",d+"/src")
    open(d+"/src/bob/learn/em/"+f,"w").write(src.replace(old,new,1))
    out.append((name,props))
json.dump(out,open("/tmp/mut/list.json","w"))
print(len(out),"mutants")
