#!/bin/sh
# runs the repository's pinned suite (guard off) and compares with /root/.vp/BASELINE.json
OUT=${1:-/tmp/baseline_run.xml}
cd /repo && /venv/bin/python -m pytest -ra -q -p no:cacheprovider --timeout=900 --continue-on-collection-errors --junitxml=$OUT > /tmp/baseline_run.log 2>&1
/venv/bin/python - "$OUT" <<'PY'
import json,sys,xml.etree.ElementTree as ET
base=json.load(open('/root/.vp/BASELINE.json'))
t=ET.parse(sys.argv[1]).getroot()
passed=set()
for tc in t.iter('testcase'):
    name=tc.get('classname')+'::'+tc.get('name')
    if not any(c.tag in('failure','error','skipped') for c in tc): passed.add(name)
missing=[x for x in base['stable_pass'] if x not in passed]
print("passed",len(passed),"baseline",len(base['stable_pass']),"missing",missing)
sys.exit(1 if missing else 0)
PY
