#!/bin/bash
# every seeded change (scratch copy of /repo's source under /tmp, removed afterwards) against the check of the property it was
# written for; prints one line per seed and records check_result in seeded/<id>/meta.json
cd /verif
S=/tmp/seedmx; rm -rf $S; mkdir -p $S
one(){ id=$1; d=/verif/seeded/$id; S=/tmp/seedmx
  p=$(python3 -c "import json;print(json.load(open('$d/meta.json')).get('property','$id'))")
  mkdir -p $S/$id/out; cp -r /repo/src $S/$id/src
  if ! patch -s -p1 -d $S/$id -i $d/patch.diff >/dev/null 2>&1; then echo "$id $p NOAPPLY"; rm -rf $S/$id; return; fi
  VERIF_REPO=$S/$id VERIF_EVIDENCE_DIR=$S/$id/out VERIF_REPLAY_DIR=$S/$id/out timeout 3000 /verif/check $p > $S/$id/log 2>&1; rc=$?
  obl=$(grep VIOLATION $S/$id/log | sed 's/.*obligation=//' | tr '\n' ';')
  echo "$id $p exit=$rc $obl"
  python3 - "$id" "$p" "$rc" "$obl" <<'PY'
import json,sys
i,p,rc,obl=sys.argv[1:5]
f='/verif/seeded/%s/meta.json'%i
m=json.load(open(f))
obs=[o for o in obl.split(';') if o]
m['check_result']={"command":"./check %s --tier quick on a scratch copy of the source with the patch applied (VERIF_REPO)"%p,"exit":int(rc),
  "failed_obligations":[o.replace(' no-failing-input-found','') for o in obs],
  "failing_input_replayed":[o.replace(' no-failing-input-found','') for o in obs if 'no-failing-input-found' not in o]}
json.dump(m,open(f,'w'),indent=1)
PY
  rm -rf $S/$id; }
export -f one
ls /verif/seeded | grep '^C' | xargs -P 5 -I{} bash -c 'one {}'
rm -rf $S
