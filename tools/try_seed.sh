#!/bin/bash
# usage: tools/try_seed.sh <property-id> [<seed-dir>]   -- applies seeded/<id>/patch.diff to /repo, runs the property's checks, reverts
ID=$1; DIR=${2:-/verif/seeded/$ID}
cd /repo || exit 9
if [ -n "$(git status --porcelain --untracked-files=no)" ]; then echo "/repo not clean"; exit 9; fi
git apply "$DIR/patch.diff" || { echo "patch does not apply"; exit 9; }
cd /verif
PROPS=${PROPS:-$(python3 -c "import json;print(json.load(open('$DIR/meta.json')).get('property','$ID'))" 2>/dev/null || echo $ID)}
for p in $PROPS $EXTRA; do
  ./check $p --tier quick > /tmp/seed_$ID.$p.log 2>&1; rc=$?
  echo "== $ID on $p: exit=$rc"; grep -E "VIOLATION|UNDECIDED|CHECKER-ERROR|CONTROL-FAILED|KNOWN-FINDING" /tmp/seed_$ID.$p.log | cut -c1-260 | head -8
done
git -C /repo checkout -- . 
git -C /repo status --porcelain --untracked-files=no | head -3
